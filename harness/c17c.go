package main

import (
	"context"
	"fmt"
	"net/http"
	"net/http/httptest"
	"strings"
	"time"

	goat "github.com/avos-io/goat"
	"github.com/coder/websocket"
	"google.golang.org/protobuf/proto"

	"github.com/avos-io/goat/gen/goatorepo"
)

// c17OddShapes (scenario spoof): envelopes from an HONEST peer (the source is the sender's name) that
// only an in-process transport can deliver, because it hands the envelope over by reference: repeated
// fields that are empty but not nil, nil entries in the metadata list. None of them may crash the
// proxy, and it forwards the next ordinary envelope. (A protobuf-decoded envelope never has these
// shapes; the channel transport shipped with the library does pass them on.)
func c17OddShapes(r *Run) {
	if !r.Want("spoof") {
		return
	}
	shapes := []struct {
		name string
		mk   func(id uint64) *Rpc
	}{
		{"empty-nonnil-ProxyNext", func(id uint64) *Rpc {
			e := pxGoodEnv(id, "a", "b")
			e.Header.ProxyNext = []string{}
			return e
		}},
		{"empty-nonnil-ProxyRecord", func(id uint64) *Rpc {
			e := pxGoodEnv(id, "a", "b")
			e.Header.ProxyRecord = []string{}
			return e
		}},
		{"ProxyNext-consumed-by-reslicing", func(id uint64) *Rpc {
			e := pxGoodEnv(id, "a", "b")
			next := []string{"b"}
			e.Header.ProxyNext = next[0:0]
			return e
		}},
		{"nil-metadata-entry", func(id uint64) *Rpc {
			e := pxGoodEnv(id, "a", "b")
			e.Header.Headers = []*goatorepo.KeyValue{nil, {Key: "k", Value: "v"}}
			return e
		}},
		{"empty-destination", func(id uint64) *Rpc {
			e := pxGoodEnv(id, "a", "")
			e.Header.ProxyNext = []string{}
			return e
		}},
	}
	for _, ic := range []pxIcept{{Kind: "none", Nil: true}, {Kind: "none"}} {
		for _, sh := range shapes {
			if r.NumViolations() > 4 {
				return
			}
			hooks.Reset(true)
			w := newPxWorld(r, "spoof", "px", ic, true)
			w.quiet = true
			for _, n := range []string{"a", "b"} {
				w.attach(n, false)
			}
			w.start()
			in := map[string]any{"shape": sh.name, "interceptor": ic.text(), "sender": "a (honest source)"}
			r.Progress("spoof.odd", in)
			ok := true
			site := ""
			if sh.name == "nil-metadata-entry" {
				// outside what the envelope text of the lock-step can say: sent raw, only survival is demanded
				mark := len(hooks.Events())
				select {
				case w.tapOf("a").In <- sh.mk(1):
				case <-time.After(hangTimeout):
					r.Violate("spoof.odd.stall", "ops", "the proxy stopped reading from an attached peer", in, goroutineDump(), nil)
					ok = false
				}
				var dec Event
				if ok && !hooks.WaitFor(func(e Event) bool {
					if e.Seq >= mark && pxDecisionSites[e.Site] {
						dec = e
						return true
					}
					return false
				}, hangTimeout) {
					r.Violate("spoof.odd.stall", "ops", "an envelope read from an attached peer produced no forwarding decision", in, goroutineDump(), nil)
					ok = false
				}
				if ok && dec.Site == "harness.proxy.panic" {
					r.Violate("spoof.odd.crash", "ops", "an envelope from an attached peer made the proxy's forwarding loop panic (without the harness's recover the process is gone)", in, dec.Detail, "any decision but a crash")
					ok = false
				}
				site = dec.Site
				if ok && dec.Site == "proxy.enqueue" {
					select {
					case <-w.tapOf("b").Out:
					case <-time.After(hangTimeout):
					}
				}
			} else {
				// by reference through the world's send: the routing monitor and the lock-step (item N: the
				// model's `nn = true`) see it like any other envelope
				w.byRef = true
				var dest string
				site, dest, ok = w.send("a", sh.mk(1))
				w.byRef = false
				if ok && site == "proxy.enqueue" && w.tapOf(dest) != nil {
					ok = w.take(dest, "T")
				}
			}
			if ok && !w.fwd(2, "a", "b") {
				ok = false
			}
			r.Eval(fmt.Sprintf("spoof.odd/%s/%s", sh.name, ic.text()), ok)
			r.Count("spoof.odd." + site)
			w.finish(sh.name != "nil-metadata-entry")
			hooks.Reset(false)
		}
	}
}

// c17ChanPeerCloses: a peer attached over the library's channel transport goes away by closing its
// queue. The proxy removes it and tells the disconnect callback; traffic between the other peers goes
// on; a later envelope for its name makes the proxy dial it again; and after cancellation nothing of
// the proxy is left running.
func c17ChanPeerCloses(r *Run) {
	if !r.Want("chanpeer") {
		return
	}
	base := c17Base()
	in := map[string]any{"peer": "attached with goat.NewGoatOverChannel, closes its inbound queue"}
	r.Progress("chanpeer", in)
	ctx, cancel := context.WithCancel(context.Background())
	disc := make(chan string, 8)
	dialled := make(chan string, 8)
	proxy := goat.NewProxy(ctx, "px", func(id string) (goat.RpcReadWriter, error) {
		dialled <- id
		return NewScript(16), nil
	}, nil, func(id string, reason error) { disc <- id })
	served := make(chan struct{})
	go func() { defer close(served); proxy.Serve() }()
	a, b := NewScript(16), NewScript(16)
	proxy.AddClient("a", a)
	proxy.AddClient("b", b)
	cIn, cOut := make(chan *Rpc, 4), make(chan *Rpc, 4)
	proxy.AddClient("c", goat.NewGoatOverChannel(cIn, cOut))
	ok := true
	expect := func(s *Script, id uint64, what string) {
		select {
		case e := <-s.Out:
			if e.Id != id {
				r.Violate("chanpeer.forward", "ops", "unexpected envelope forwarded ("+what+")", in, e.Id, id)
				ok = false
			}
		case <-time.After(hangTimeout):
			r.Violate("chanpeer.forward", "ops", "an envelope was not forwarded ("+what+")", in, goroutineDump(), nil)
			ok = false
		}
	}
	a.In <- pxGoodEnv(1, "a", "b")
	expect(b, 1, "a to b")
	cIn <- pxGoodEnv(2, "c", "b") // the peer's last envelope …
	close(cIn)                    // … and it is gone
	if ok {
		expect(b, 2, "the closing peer's last envelope")
	}
	if ok {
		select {
		case id := <-disc:
			if id != "c" {
				r.Violate("chanpeer.disconnect", "ops", "the disconnect callback named another peer", in, id, "c")
				ok = false
			}
		case <-time.After(hangTimeout):
			r.Violate("chanpeer.disconnect", "ops", "a peer whose channel transport was closed was never removed / reported to the disconnect callback", in, goroutineDump(), "callback for c")
			ok = false
		}
	}
	if ok {
		a.In <- pxGoodEnv(3, "a", "b")
		expect(b, 3, "a to b after the peer left")
		a.In <- pxGoodEnv(4, "a", "c")
		select {
		case id := <-dialled:
			if id != "c" {
				r.Violate("chanpeer.redial", "ops", "the proxy dialled another name", in, id, "c")
			}
		case <-time.After(hangTimeout):
			r.Violate("chanpeer.redial", "ops", "an envelope for the departed peer's name did not make the proxy dial it", in, goroutineDump(), nil)
		}
	}
	r.Eval("chanpeer", true)
	r.Count("c17.chanpeer")
	cancel()
	a.FailRead(errInjectedRead)
	b.FailRead(errInjectedRead)
	within(hangTimeout, func() { <-served })
	if n, where := settleGoroutines(base); n > base {
		c17Leaks++
		c17Floor = n
		r.Violate("chanpeer.leak", "schedule", "goroutines of the proxy were left behind after its context was cancelled", in, where, fmt.Sprintf("%d goat goroutines, as before NewProxy", base))
	}
}

// c17WsStuckTalker: a peer attached over the websocket transport never reads but keeps sending, while
// the forwarding loop is slowed by the header intercepter. Traffic for the peer piles up until the
// proxy's writer for it is blocked inside the transport and the peer's reader is waiting to hand its
// next envelope to the forwarding loop. Traffic between two other peers keeps flowing meanwhile, and
// after the proxy's context is cancelled Serve returns and nothing of the proxy stays behind.
func c17WsStuckTalker(r *Run) {
	if !r.Want("wsstuck") || c17Leaks > 2 {
		return
	}
	base := c17Base()
	in := map[string]any{"peer": "websocket peer that never reads and keeps sending", "intercepter": "20 ms per envelope", "backlog": "12 envelopes of 4 MiB for the stuck peer"}
	r.Progress("wsstuck", in)
	release := make(chan struct{})
	accepted := make(chan struct{})
	ts := httptest.NewServer(http.HandlerFunc(func(w http.ResponseWriter, req *http.Request) {
		c, err := websocket.Accept(w, req, nil)
		if err != nil {
			return
		}
		close(accepted)
		defer c.CloseNow()
		for i := uint64(1); ; i++ {
			data, _ := proto.Marshal(pxGoodEnv(i, "stuck", "sink"))
			if c.Write(req.Context(), websocket.MessageBinary, data) != nil {
				break
			}
			select {
			case <-release:
				return
			case <-time.After(time.Millisecond):
			}
		}
		<-release
	}))
	defer ts.Close()
	defer close(release)
	ws, _, err := websocket.Dial(context.Background(), "ws"+strings.TrimPrefix(ts.URL, "http"), nil)
	if err != nil {
		r.Count("c17.wsstuck.skipped")
		return
	}
	defer ws.CloseNow()
	<-accepted

	ctx, cancel := context.WithCancel(context.Background())
	defer cancel()
	proxy := goat.NewProxy(ctx, "px",
		func(id string) (goat.RpcReadWriter, error) { return nil, context.Canceled },
		func(hdr *goatorepo.RequestHeader) error { time.Sleep(20 * time.Millisecond); return nil },
		func(id string, reason error) {})
	src, a, b, sink := NewScript(16), NewScript(64), NewScript(64), NewScript(4096)
	proxy.AddClient("stuck", goat.NewGoatOverWebsocket(ws))
	proxy.AddClient("src", src)
	proxy.AddClient("a", a)
	proxy.AddClient("b", b)
	proxy.AddClient("sink", sink)
	stopSink := make(chan struct{})
	go func() {
		for {
			select {
			case <-sink.Out:
			case <-stopSink:
				return
			}
		}
	}()
	defer close(stopSink)
	served := make(chan struct{})
	go func() { defer close(served); proxy.Serve() }()

	payload := make([]byte, 4<<20)
	fed := true
	for i := 0; i < 12 && fed; i++ {
		e := pxGoodEnv(uint64(i+1), "src", "stuck")
		e.Body = &goatorepo.Body{Data: payload}
		select {
		case src.In <- e:
		case <-time.After(hangTimeout):
			fed = false
		}
	}
	blocked := false
	for deadline := time.Now().Add(5 * time.Second); fed && !blocked && time.Now().Before(deadline); {
		if strings.Contains(goroutineDump(), "goatOverWebsocket).Write") {
			blocked = true
		} else {
			time.Sleep(20 * time.Millisecond)
		}
	}
	if !fed || !blocked {
		// the precondition (a writer blocked in the websocket) was not reached: nothing to decide
		r.Count("c17.wsstuck.precondition-missed")
	} else {
		// the stuck peer delays nobody else
		for k := uint64(1); k <= 5; k++ {
			a.In <- pxGoodEnv(100+k, "a", "b")
			select {
			case e := <-b.Out:
				if e.Id != 100+k {
					r.Violate("wsstuck.forward", "ops", "unexpected envelope forwarded between the two healthy peers", in, e.Id, 100+k)
				}
			case <-time.After(hangTimeout):
				r.Violate("wsstuck.forward", "ops", "traffic between two healthy peers stopped while a websocket peer was stuck", in, goroutineDump(), nil)
				k = 6
			}
		}
		time.Sleep(200 * time.Millisecond)
		r.Count("c17.wsstuck")
	}
	r.Eval("wsstuck", true)
	cancel()
	for _, s := range []*Script{src, a, b, sink} {
		s.FailRead(errInjectedRead)
	}
	if !within(hangTimeout, func() { <-served }) {
		r.Violate("wsstuck.serve", "schedule", "Serve did not return after the proxy's context was cancelled", in, goroutineDump(), nil)
	}
	if n, where := settleGoroutines(base); n > base {
		c17Leaks++
		c17Floor = n
		r.Violate("wsstuck.leak", "schedule", "goroutines of the proxy were left behind after its context was cancelled (a websocket peer was stuck and talking)", in, where, fmt.Sprintf("%d goat goroutines, as before NewProxy", base))
	}
}

// c17ReattachFromCallback: the disconnect callback does what an application does when it learns a peer
// is gone: it attaches the peer's NEW connection under the old name, from inside the callback. The
// callback returns, traffic between the other peers goes on, and an envelope for the name reaches the
// new connection.
func c17ReattachFromCallback(r *Run) {
	if !r.Want("cbreattach") || c17Leaks > 2 {
		return
	}
	base := c17Base()
	for _, fault := range []string{"read", "write"} {
		in := map[string]any{"fault": fault + " error on the peer's connection", "callback": "calls AddClient for the same name with a new connection"}
		r.Progress("cbreattach", in)
		ctx, cancel := context.WithCancel(context.Background())
		var proxy *goat.Proxy
		fresh := NewScript(16)
		cbDone := make(chan struct{}, 4)
		proxy = goat.NewProxy(ctx, "px", func(id string) (goat.RpcReadWriter, error) { return nil, fmt.Errorf("no such peer %q", id) }, nil,
			func(id string, reason error) {
				if id == "c" {
					proxy.AddClient("c", fresh)
				}
				cbDone <- struct{}{}
			})
		served := make(chan struct{})
		go func() { defer close(served); proxy.Serve() }()
		a, b, c := NewScript(16), NewScript(16), NewScript(16)
		proxy.AddClient("a", a)
		proxy.AddClient("b", b)
		proxy.AddClient("c", c)
		ok := true
		expect := func(s *Script, id uint64, what string) {
			select {
			case e := <-s.Out:
				if e.Id != id {
					r.Violate("cbreattach.forward", "ops", "unexpected envelope forwarded ("+what+")", in, e.Id, id)
					ok = false
				}
			case <-time.After(hangTimeout):
				r.Violate("cbreattach.forward", "ops", "an envelope was not forwarded ("+what+")", in, goroutineDump(), nil)
				ok = false
			}
		}
		a.In <- pxGoodEnv(1, "a", "c")
		expect(c, 1, "a to c")
		if fault == "read" {
			c.FailRead(errInjectedRead)
		} else {
			c.FailWrite(errInjectedWrite)
			a.In <- pxGoodEnv(2, "a", "c") // the write that fails
		}
		select {
		case <-cbDone:
		case <-time.After(hangTimeout):
			r.Violate("cbreattach.callback", "ops", "the disconnect callback, which attaches the peer's new connection, did not return", in, goroutineDump(), nil)
			ok = false
		}
		if ok {
			a.In <- pxGoodEnv(3, "a", "b")
			expect(b, 3, "a to b after the callback")
		}
		if ok {
			a.In <- pxGoodEnv(4, "a", "c")
			expect(fresh, 4, "a to the connection attached from the callback")
		}
		r.Eval("cbreattach/"+fault, true)
		r.Count("c17.cbreattach")
		cancel()
		for _, s := range []*Script{a, b, c, fresh} {
			s.FailRead(errInjectedRead)
		}
		within(hangTimeout, func() { <-served })
		if n, where := settleGoroutines(base); n > base {
			c17Leaks++
			c17Floor = n
			if ok {
				r.Violate("cbreattach.leak", "schedule", "goroutines of the proxy were left behind after its context was cancelled", in, where, fmt.Sprintf("%d goat goroutines, as before NewProxy", base))
			}
			return
		}
	}
}
