package main

import (
	"context"
	"fmt"
	"time"

	goat "github.com/avos-io/goat"

	"github.com/avos-io/goat/gen/goatorepo"
)

// c17OddShapes (scenario spoof): envelopes from an HONEST peer (the source is the sender's name) that
// only an in-process transport can deliver, because it hands the envelope over by reference: repeated
// fields that are empty but not nil, nil entries in the metadata list. None of them may crash the
// proxy, and it forwards the next ordinary envelope. (A protobuf-decoded envelope never has these
// shapes; the channel transport shipped with the library does pass them on.)
func c17OddShapes(r *Run) {
	if !r.Want("spoof") {
		return
	}
	shapes := []struct {
		name string
		mk   func(id uint64) *Rpc
	}{
		{"empty-nonnil-ProxyNext", func(id uint64) *Rpc {
			e := pxGoodEnv(id, "a", "b")
			e.Header.ProxyNext = []string{}
			return e
		}},
		{"empty-nonnil-ProxyRecord", func(id uint64) *Rpc {
			e := pxGoodEnv(id, "a", "b")
			e.Header.ProxyRecord = []string{}
			return e
		}},
		{"ProxyNext-consumed-by-reslicing", func(id uint64) *Rpc {
			e := pxGoodEnv(id, "a", "b")
			next := []string{"b"}
			e.Header.ProxyNext = next[0:0]
			return e
		}},
		{"nil-metadata-entry", func(id uint64) *Rpc {
			e := pxGoodEnv(id, "a", "b")
			e.Header.Headers = []*goatorepo.KeyValue{nil, {Key: "k", Value: "v"}}
			return e
		}},
		{"empty-destination", func(id uint64) *Rpc {
			e := pxGoodEnv(id, "a", "")
			e.Header.ProxyNext = []string{}
			return e
		}},
	}
	for _, ic := range []pxIcept{{Kind: "none", Nil: true}, {Kind: "none"}} {
		for _, sh := range shapes {
			if r.NumViolations() > 4 {
				return
			}
			hooks.Reset(true)
			w := newPxWorld(r, "spoof", "px", ic, true)
			w.quiet = true
			for _, n := range []string{"a", "b"} {
				w.attach(n, false)
			}
			w.start()
			in := map[string]any{"shape": sh.name, "interceptor": ic.text(), "sender": "a (honest source)"}
			r.Progress("spoof.odd", in)
			ok := true
			site := ""
			if sh.name == "nil-metadata-entry" {
				// outside what the envelope text of the lock-step can say: sent raw, only survival is demanded
				mark := len(hooks.Events())
				select {
				case w.tapOf("a").In <- sh.mk(1):
				case <-time.After(hangTimeout):
					r.Violate("spoof.odd.stall", "ops", "the proxy stopped reading from an attached peer", in, goroutineDump(), nil)
					ok = false
				}
				var dec Event
				if ok && !hooks.WaitFor(func(e Event) bool {
					if e.Seq >= mark && pxDecisionSites[e.Site] {
						dec = e
						return true
					}
					return false
				}, hangTimeout) {
					r.Violate("spoof.odd.stall", "ops", "an envelope read from an attached peer produced no forwarding decision", in, goroutineDump(), nil)
					ok = false
				}
				if ok && dec.Site == "harness.proxy.panic" {
					r.Violate("spoof.odd.crash", "ops", "an envelope from an attached peer made the proxy's forwarding loop panic (without the harness's recover the process is gone)", in, dec.Detail, "any decision but a crash")
					ok = false
				}
				site = dec.Site
				if ok && dec.Site == "proxy.enqueue" {
					select {
					case <-w.tapOf("b").Out:
					case <-time.After(hangTimeout):
					}
				}
			} else {
				// by reference through the world's send: the routing monitor and the lock-step (item N: the
				// model's `nn = true`) see it like any other envelope
				w.byRef = true
				var dest string
				site, dest, ok = w.send("a", sh.mk(1))
				w.byRef = false
				if ok && site == "proxy.enqueue" && w.tapOf(dest) != nil {
					ok = w.take(dest, "T")
				}
			}
			if ok && !w.fwd(2, "a", "b") {
				ok = false
			}
			r.Eval(fmt.Sprintf("spoof.odd/%s/%s", sh.name, ic.text()), ok)
			r.Count("spoof.odd." + site)
			w.finish(sh.name != "nil-metadata-entry")
			hooks.Reset(false)
		}
	}
}

// c17ChanPeerCloses: a peer attached over the library's channel transport goes away by closing its
// queue. The proxy removes it and tells the disconnect callback; traffic between the other peers goes
// on; a later envelope for its name makes the proxy dial it again; and after cancellation nothing of
// the proxy is left running.
func c17ChanPeerCloses(r *Run) {
	if !r.Want("chanpeer") {
		return
	}
	base := c17Base()
	in := map[string]any{"peer": "attached with goat.NewGoatOverChannel, closes its inbound queue"}
	r.Progress("chanpeer", in)
	ctx, cancel := context.WithCancel(context.Background())
	disc := make(chan string, 8)
	dialled := make(chan string, 8)
	proxy := goat.NewProxy(ctx, "px", func(id string) (goat.RpcReadWriter, error) {
		dialled <- id
		return NewScript(16), nil
	}, nil, func(id string, reason error) { disc <- id })
	served := make(chan struct{})
	go func() { defer close(served); proxy.Serve() }()
	a, b := NewScript(16), NewScript(16)
	proxy.AddClient("a", a)
	proxy.AddClient("b", b)
	cIn, cOut := make(chan *Rpc, 4), make(chan *Rpc, 4)
	proxy.AddClient("c", goat.NewGoatOverChannel(cIn, cOut))
	ok := true
	expect := func(s *Script, id uint64, what string) {
		select {
		case e := <-s.Out:
			if e.Id != id {
				r.Violate("chanpeer.forward", "ops", "unexpected envelope forwarded ("+what+")", in, e.Id, id)
				ok = false
			}
		case <-time.After(hangTimeout):
			r.Violate("chanpeer.forward", "ops", "an envelope was not forwarded ("+what+")", in, goroutineDump(), nil)
			ok = false
		}
	}
	a.In <- pxGoodEnv(1, "a", "b")
	expect(b, 1, "a to b")
	cIn <- pxGoodEnv(2, "c", "b") // the peer's last envelope …
	close(cIn)                    // … and it is gone
	if ok {
		expect(b, 2, "the closing peer's last envelope")
	}
	if ok {
		select {
		case id := <-disc:
			if id != "c" {
				r.Violate("chanpeer.disconnect", "ops", "the disconnect callback named another peer", in, id, "c")
				ok = false
			}
		case <-time.After(hangTimeout):
			r.Violate("chanpeer.disconnect", "ops", "a peer whose channel transport was closed was never removed / reported to the disconnect callback", in, goroutineDump(), "callback for c")
			ok = false
		}
	}
	if ok {
		a.In <- pxGoodEnv(3, "a", "b")
		expect(b, 3, "a to b after the peer left")
		a.In <- pxGoodEnv(4, "a", "c")
		select {
		case id := <-dialled:
			if id != "c" {
				r.Violate("chanpeer.redial", "ops", "the proxy dialled another name", in, id, "c")
			}
		case <-time.After(hangTimeout):
			r.Violate("chanpeer.redial", "ops", "an envelope for the departed peer's name did not make the proxy dial it", in, goroutineDump(), nil)
		}
	}
	r.Eval("chanpeer", true)
	r.Count("c17.chanpeer")
	cancel()
	a.FailRead(errInjectedRead)
	b.FailRead(errInjectedRead)
	within(hangTimeout, func() { <-served })
	if n, where := settleGoroutines(base); n > base {
		c17Leaks++
		c17Floor = n
		r.Violate("chanpeer.leak", "schedule", "goroutines of the proxy were left behind after its context was cancelled", in, where, fmt.Sprintf("%d goat goroutines, as before NewProxy", base))
	}
}
