package main

import (
	"context"
	"fmt"
	"io"
	"math/rand"
	"sort"
	"strings"
	"sync"
	"time"

	goat "github.com/avos-io/goat"
	"github.com/avos-io/goat/internal/verifhook"
	"google.golang.org/grpc"
	"google.golang.org/grpc/metadata"
)

func init() { register("C14", runC14) }

// C14 — finishing an RPC releases everything held for it; state stays bounded.
//
//   history     one connection, a long history of RPCs of all four kinds with every outcome (ok, handler
//               error, caller cancel at a random point, deadline, server reset, open / request whose
//               transport write fails), in batches of up to 32 concurrent calls. At every quiescent point
//               the monitor `registryIdle` must hold: client registry empty, server registry empty,
//               goat goroutine census back at the idle level.
//   failedopen  a dedicated connection whose transport refuses every write: opens and unary calls fail;
//               nothing may stay registered.
//   deadconn    a dedicated connection whose read side has failed: calls are refused; nothing registered.
//
// A point is quiescent when every caller has returned AND, counted from hook events, every client
// stream's read loop has run its finishing block, every server stream that was registered has been
// unregistered, every worker that took a request has handed its reply over, the writer has written all
// it took, and each transport end has read all the other wrote. These are awaited (each is predicted to
// happen); only then are the registries and the census sampled.

// ---- event sink (replaces the shared hook log for this property: the histories are long) ----

type c14Sink struct {
	mu        sync.Mutex
	cond      *sync.Cond
	n         map[string]int
	muxReg    map[uint64]struct{}
	srvReg    map[uint64]struct{}
	lastUnreg string
	watch     map[uint64]*c14Watch
	hold      map[uint64]chan struct{}
}

type c14Watch struct{ unregistered, reset bool }

func newC14Sink() *c14Sink {
	s := &c14Sink{n: map[string]int{}, muxReg: map[uint64]struct{}{}, srvReg: map[uint64]struct{}{}, watch: map[uint64]*c14Watch{}, hold: map[uint64]chan struct{}{}}
	s.cond = sync.NewCond(&s.mu)
	return s
}

func (s *c14Sink) emit(site string, id uint64, detail string) {
	s.mu.Lock()
	switch site {
	case "mux.register":
		if detail == "ok" {
			s.muxReg[id] = struct{}{}
		}
		s.n[site+"."+detail]++
	case "mux.unregister":
		delete(s.muxReg, id)
		s.n[site+"."+detail]++
	case "srv.register":
		s.srvReg[id] = struct{}{}
		s.n[site]++
	case "srv.unregister":
		delete(s.srvReg, id)
		s.n[site]++
		s.lastUnreg = detail
		if w := s.watch[id]; w != nil {
			w.unregistered = true
		}
	case "srv.reset":
		s.n[site+"."+detail]++
		if w := s.watch[id]; w != nil {
			w.reset = true
		}
	case "mux.lookup":
		s.n[site+"."+detail]++
	default:
		s.n[site]++
	}
	s.cond.Broadcast()
	s.mu.Unlock()
}

// yield holds the client's read loop in front of the delivery of an envelope of a watched id.
func (s *c14Sink) yield(site string, id uint64) {
	if site != "mux.beforeDeliver" {
		return
	}
	s.mu.Lock()
	ch := s.hold[id]
	s.mu.Unlock()
	if ch != nil {
		c01Wait(ch, hangTimeout)
	}
}

func (s *c14Sink) install() {
	verifhook.SetEmit(s.emit)
	verifhook.SetYield(s.yield)
}

func (s *c14Sink) waitFor(pred func() bool, timeout time.Duration) bool {
	deadline := time.Now().Add(timeout)
	stop := time.AfterFunc(timeout, func() { s.mu.Lock(); s.cond.Broadcast(); s.mu.Unlock() })
	defer stop.Stop()
	s.mu.Lock()
	defer s.mu.Unlock()
	for !pred() {
		if time.Now().After(deadline) {
			return false
		}
		s.cond.Wait()
	}
	return true
}

func (s *c14Sink) count(k string) int {
	s.mu.Lock()
	defer s.mu.Unlock()
	return s.n[k]
}

func c14Keys(m map[uint64]struct{}) []uint64 {
	out := make([]uint64, 0, len(m))
	for k := range m {
		out = append(out, k)
	}
	sort.Slice(out, func(i, j int) bool { return out[i] < out[j] })
	if len(out) > 40 {
		out = out[:40]
	}
	return out
}

// ---- the connection under test ----

// c14Tap wraps the client's transport end: it learns the id of every call from the opening envelope's
// x-tag header, refuses the write of calls tagged W (a transport write that fails), and arms the
// delivery hold for calls tagged R before their opening envelope leaves.
type c14Tap struct {
	end  *End
	sink *c14Sink
	mu   sync.Mutex
	ids  map[string]uint64
}

func c14XTag(r *Rpc) string {
	for _, kv := range r.GetHeader().GetHeaders() {
		if kv.Key == "x-tag" {
			return kv.Value
		}
	}
	return ""
}

func (t *c14Tap) Read(ctx context.Context) (*Rpc, error) { return t.end.Read(ctx) }

func (t *c14Tap) Write(ctx context.Context, r *Rpc) error {
	if tag := c14XTag(r); tag != "" {
		t.mu.Lock()
		t.ids[tag] = r.Id
		t.mu.Unlock()
		switch tag[0] {
		case 'W':
			return errInjectedWrite
		case 'R':
			t.sink.mu.Lock()
			t.sink.watch[r.Id] = &c14Watch{}
			t.sink.hold[r.Id] = make(chan struct{})
			t.sink.mu.Unlock()
		case 'L':
			t.sink.mu.Lock()
			t.sink.watch[r.Id] = &c14Watch{}
			t.sink.mu.Unlock()
		}
	}
	return t.end.Write(ctx, r)
}

func (t *c14Tap) idOf(tag string) (uint64, bool) {
	t.mu.Lock()
	defer t.mu.Unlock()
	id, ok := t.ids[tag]
	return id, ok
}

func (t *c14Tap) tagsOf(ids []uint64) map[uint64]string {
	t.mu.Lock()
	defer t.mu.Unlock()
	out := map[uint64]string{}
	for tag, id := range t.ids {
		for _, want := range ids {
			if id == want {
				out[id] = tag
			}
		}
	}
	return out
}

func (t *c14Tap) forget() {
	t.mu.Lock()
	t.ids = map[string]uint64{}
	t.mu.Unlock()
}

type c14Rig struct {
	impl   *Impl
	srv    *goat.Server
	cc     *goat.ClientConn
	cend   *End
	send   *End
	tap    *c14Tap
	sink   *c14Sink
	served chan error
	ctx    context.Context
	cancel context.CancelFunc
	idle   int
	gate   *c14Gate
}

func newC14Rig(serialise bool) *c14Rig {
	// The goroutines of the previous connection must be gone before this one is set up: they would be
	// counted into its idle census, and their last events would reach its sink.
	settleGoroutines(c14Base)
	sink := newC14Sink()
	sink.install()
	ce, se := NewPipe(4096, serialise, nil)
	impl := &Impl{}
	ctx, cancel := context.WithCancel(context.Background())
	g := &c14Rig{impl: impl, cend: ce, send: se, sink: sink, ctx: ctx, cancel: cancel, gate: newC14Gate()}
	g.startServer()
	g.tap = &c14Tap{end: ce, sink: sink, ids: map[string]uint64{}}
	g.cc = goat.NewClientConn(g.tap, "cli", "srv")
	InstallPrograms(impl, NewHandlerLog(), g.gate.enter)
	return g
}

// startServer serves the server end of the pipe with a new goat.Server (the first one, or the
// successor of one that has been stopped).
func (g *c14Rig) startServer() {
	srv := goat.NewServer("srv")
	srv.RegisterService(&echoDesc, g.impl)
	served := make(chan error, 1)
	g.srv, g.served = srv, served
	go func() { served <- srv.Serve(g.ctx, g.send) }()
}

func (g *c14Rig) close() {
	g.gate.openAll()
	g.srv.Stop()
	g.cancel()
	for _, e := range []*End{g.cend, g.send} {
		e.FailRead(io.ErrClosedPipe)
		e.FailWrite(io.ErrClosedPipe)
	}
	g.cc.Close()
	within(hangTimeout, func() { <-g.served })
}

// warmUp makes one unary call (after which every permanent goroutine of the connection exists: the
// server creates its writer and workers before its first read) and takes the idle census.
func (g *c14Rig) warmUp(r *Run, scen string) bool {
	if _, err := callUnary(context.Background(), g.cc, []byte("warm-up")); err != nil {
		r.Violate(scen+".warmup", "history", "the first unary call on a fresh connection failed", nil, err.Error(), nil)
		return false
	}
	g.sink.waitFor(func() bool { return g.sink.n["srv.writer.write"] >= 1 }, hangTimeout)
	g.idle, _ = goatGoroutines()
	r.CountN("census.idle", g.idle)
	return true
}

// c14Gate holds the unary handlers of calls whose request starts with 'H' until their caller has given up.
type c14Gate struct {
	mu      sync.Mutex
	entered map[string]chan struct{}
	release map[string]chan struct{}
	open    bool
}

func newC14Gate() *c14Gate {
	return &c14Gate{entered: map[string]chan struct{}{}, release: map[string]chan struct{}{}}
}

func c14GateTag(reqOrTag string) string {
	if i := strings.IndexByte(reqOrTag, '|'); i > 0 {
		return reqOrTag[:i]
	}
	return reqOrTag
}

func (g *c14Gate) arm(tag string) (entered, release chan struct{}) {
	entered, release = make(chan struct{}), make(chan struct{})
	g.mu.Lock()
	g.entered[tag], g.release[tag] = entered, release
	g.mu.Unlock()
	return
}

func (g *c14Gate) enter(reqOrTag string) {
	if reqOrTag == "" || reqOrTag[0] != 'H' {
		return
	}
	tag := c14GateTag(reqOrTag)
	g.mu.Lock()
	e, rel := g.entered[tag], g.release[tag]
	delete(g.entered, tag)
	delete(g.release, tag)
	open := g.open
	g.mu.Unlock()
	if e == nil {
		return
	}
	close(e)
	if !open {
		c01Wait(rel, 3*hangTimeout)
	}
}

func (g *c14Gate) disarm(tag string) {
	g.mu.Lock()
	delete(g.entered, tag)
	delete(g.release, tag)
	g.mu.Unlock()
}

func (g *c14Gate) openAll() {
	g.mu.Lock()
	g.open = true
	for _, ch := range g.release {
		select {
		case <-ch:
		default:
			close(ch)
		}
	}
	g.mu.Unlock()
}

// ---- calls ----

type c14Call struct {
	Tag     string `json:"tag"`
	Kind    int    `json:"kind"` // 0 unary, 1 bidi, 2 server stream, 3 client stream
	Outcome string `json:"outcome"`
	NSend   int    `json:"n_send"`
	Cut     int    `json:"cut"`
	Ms      int    `json:"timeout_ms"`
}

var c14Methods = []string{mUnary, mBidi, mSrvStream, mCliStream}

var c14Outcomes = []string{"ok", "error", "cancel", "precancel", "deadline", "reset", "early", "writefail", "latecancel", "sendfail"}

func c14Gen(rng *rand.Rand, seq int, deadlineOneIn int) c14Call {
	c := c14Call{Kind: rng.Intn(4), NSend: 1 + rng.Intn(4)}
	c.Outcome = c14Outcomes[rng.Intn(len(c14Outcomes))]
	if c.Outcome == "deadline" && rng.Intn(deadlineOneIn) != 0 {
		c.Outcome = "cancel"
	}
	if c.Kind == 0 && (c.Outcome == "reset" || c.Outcome == "early") {
		c.Outcome = "error" // resets exist for streams only
	}
	if c.Kind == 0 && c.Outcome == "latecancel" {
		c.Outcome = "cancel"
	}
	if (c.Kind == 0 || c.Kind == 2) && c.Outcome == "sendfail" {
		c.Outcome = "error" // only calls on which the caller sends more than its first message
	}
	c.Cut = rng.Intn(c.NSend + 1)
	c.Ms = 2 + rng.Intn(3)
	prefix := "T"
	switch {
	case c.Outcome == "writefail":
		prefix = "W"
	case c.Outcome == "reset":
		prefix = "R"
	case c.Outcome == "latecancel":
		prefix = "L"
	case c.Kind == 0 && (c.Outcome == "cancel" || c.Outcome == "deadline"):
		prefix = "H"
	}
	c.Tag = fmt.Sprintf("%s%d", prefix, seq)
	return c
}

// c14Exec runs one call to its end and reports whether a client stream object was created (its read
// loop's finishing block is then awaited at the quiescent point).
func c14Exec(g *c14Rig, c c14Call) (stream bool) {
	base := context.Background()
	if c.Kind == 0 {
		req := []byte(c.Tag + "|" + strings.Repeat("p", c.NSend*50))
		md := []string{"x-tag", c.Tag}
		switch c.Outcome {
		case "error":
			md = append(md, "x-prog", "fail:0:9")
		}
		ctx := metadata.AppendToOutgoingContext(base, md...)
		switch c.Outcome {
		case "cancel", "deadline":
			// the handler is held until its caller has given up
			entered, release := g.gate.arm(c.Tag)
			var cancel context.CancelFunc
			if c.Outcome == "cancel" {
				ctx, cancel = context.WithCancel(ctx)
			} else {
				ctx, cancel = context.WithTimeout(ctx, time.Duration(c.Ms)*time.Millisecond)
			}
			done := make(chan struct{})
			go func() {
				defer close(done)
				callUnary(ctx, g.cc, req)
			}()
			if c.Outcome == "cancel" {
				select {
				case <-entered:
				case <-done:
				case <-time.After(hangTimeout):
				}
				cancel()
			}
			c01Wait(done, 3*hangTimeout)
			cancel()
			close(release)
			g.gate.disarm(c.Tag)
		case "precancel":
			ctx, cancel := context.WithCancel(ctx)
			cancel()
			callUnary(ctx, g.cc, req)
		default: // ok, error, writefail
			callUnary(ctx, g.cc, req)
		}
		return false
	}
	method := c14Methods[c.Kind]
	switch c.Outcome {
	case "ok":
		prog := []string{"", "echo", "burst:2", "aftereof:1"}[c.Kind]
		client := []string{"sendall", "pingpong", "conc"}[c.Cut%3]
		return runStreamCall(base, g.cc, method, c.Tag, prog, client, c.NSend, nil).OpenErr == ""
	case "error":
		return runStreamCall(base, g.cc, method, c.Tag, fmt.Sprintf("fail:%d:%d", c.Cut, 3+c.NSend), "sendall", c.NSend, nil).OpenErr == ""
	case "early":
		// the handler returns at once; the caller keeps sending: messages arrive before or after the
		// server has forgotten the stream (then it answers with a reset). Every other call sends EMPTY
		// messages (zero-length encoding): a late empty message is a message, not an open.
		var payload func(int) []byte
		if c.Cut%2 == 1 {
			payload = func(int) []byte { return nil }
		}
		return runStreamCall(base, g.cc, method, c.Tag, "early:0", "sendall", c.NSend+2, payload).OpenErr == ""
	case "writefail":
		return runStreamCall(base, g.cc, method, c.Tag, "echo", "sendall", c.NSend, nil).OpenErr == ""
	case "reset":
		return c14ResetCall(g, c, method)
	case "latecancel":
		return c14LateCancel(g, c, method)
	case "sendfail":
		return c14SendFail(g, c, method)
	}
	// cancel, precancel, deadline
	prog := "hold"
	if c.Kind == 1 && c.Outcome != "deadline" {
		prog = "echo"
	} else if c.Cut%2 == 1 {
		prog = "holdhdr"
	}
	var ctx context.Context
	var cancel context.CancelFunc
	if c.Outcome == "deadline" {
		ctx, cancel = context.WithTimeout(base, time.Duration(c.Ms)*time.Millisecond)
	} else {
		ctx, cancel = context.WithCancel(base)
	}
	defer cancel()
	if c.Outcome == "precancel" {
		cancel()
	}
	ctx = metadata.AppendToOutgoingContext(ctx, "x-tag", c.Tag, "x-prog", prog)
	cs, err := g.cc.NewStream(ctx, descOf(method), method)
	if err != nil {
		return false
	}
	if c.Outcome != "deadline" {
		nSend := c.NSend
		if prog != "echo" && nSend > 1 {
			// A handler that does not read takes one message into its queue; a second one would block the
			// server's read loop in front of the caller's reset (C11's subject, not this property's).
			nSend = 1
		}
		for i := 0; i < nSend; i++ {
			if i == c.Cut {
				cancel()
			}
			if sendB(cs, cliMsg(c.Tag, i)) != nil {
				break
			}
			if prog == "echo" {
				if _, err := recvB(cs); err != nil {
					break
				}
			}
		}
		cancel()
	}
	for {
		if _, err := recvB(cs); err != nil {
			break
		}
	}
	return true
}

// c14ResetCall forces the server's reset path: the handler returns at once (early:0); the delivery of
// its trailer to the client stream is held until the server has forgotten the stream and the caller
// has written one more message, which the server answers with a reset.
func c14ResetCall(g *c14Rig, c c14Call, method string) bool {
	ctx := metadata.AppendToOutgoingContext(context.Background(), "x-tag", c.Tag, "x-prog", "early:0")
	cs, err := g.cc.NewStream(ctx, descOf(method), method)
	id, known := g.tap.idOf(c.Tag)
	s := g.sink
	unhold := func() {
		if !known {
			return
		}
		s.mu.Lock()
		if ch := s.hold[id]; ch != nil {
			close(ch)
			delete(s.hold, id)
		}
		delete(s.watch, id)
		s.mu.Unlock()
	}
	defer unhold()
	if err != nil {
		return false
	}
	if s.waitFor(func() bool { w := s.watch[id]; return w != nil && w.unregistered }, hangTimeout) {
		if sendB(cs, cliMsg(c.Tag, 0)) == nil {
			s.waitFor(func() bool { w := s.watch[id]; return w != nil && w.reset }, hangTimeout)
		}
	}
	unhold()
	for {
		if _, err := recvB(cs); err != nil {
			break
		}
	}
	return true
}

// c14LateCancel: the server has finished the stream and forgotten it while its last message and
// trailer are still unread at the caller (nobody calls RecvMsg); the caller then cancels, and its
// reset reaches a server that no longer knows the id. Nothing may be registered for it again.
func c14LateCancel(g *c14Rig, c c14Call, method string) bool {
	ctx, cancel := context.WithCancel(context.Background())
	defer cancel()
	ctx = metadata.AppendToOutgoingContext(ctx, "x-tag", c.Tag, "x-prog", "aftereof:1")
	cs, err := g.cc.NewStream(ctx, descOf(method), method)
	id, known := g.tap.idOf(c.Tag)
	s := g.sink
	defer func() {
		if known {
			s.mu.Lock()
			delete(s.watch, id)
			s.mu.Unlock()
		}
	}()
	if err != nil {
		return false
	}
	if sendB(cs, cliMsg(c.Tag, 0)) == nil && cs.CloseSend() == nil && known {
		s.waitFor(func() bool { w := s.watch[id]; return w != nil && w.unregistered }, hangTimeout)
	}
	cancel()
	for {
		if _, err := recvB(cs); err != nil {
			break
		}
	}
	return true
}

// c14SendFail: the caller's SendMsg fails on a healthy connection (the codec rejects the message) while
// the handler is still running: per the grpc contract that aborts the stream. The caller does NOT
// cancel its context; it just receives until the stream reports its end. The server must be told.
func c14SendFail(g *c14Rig, c c14Call, method string) bool {
	ctx := metadata.AppendToOutgoingContext(context.Background(), "x-tag", c.Tag, "x-prog", "hold")
	cs, err := g.cc.NewStream(ctx, descOf(method), method)
	if err != nil {
		return false
	}
	if c.Cut%2 == 0 {
		sendB(cs, cliMsg(c.Tag, 0))
	}
	cs.SendMsg("not a proto message")
	for {
		if _, err := recvB(cs); err != nil {
			break
		}
	}
	return true
}

// ---- the monitor ----

type c14State struct {
	started int // client stream objects created so far
}

// quiesce waits for the quiescent point and applies registryIdle. It returns false when the connection
// should not be used any more.
func (g *c14Rig) quiesce(r *Run, scen string, st *c14State, in any) bool {
	s := g.sink
	var why string
	deadline := time.Now().Add(hangTimeout)
	for spin := 0; ; spin++ {
		cr, cw := g.cend.Counts()
		sr, sw := g.send.Counts()
		s.mu.Lock()
		n := s.n
		switch {
		case n["cs.fin.done"] != st.started:
			why = fmt.Sprintf("client stream read loops finished: %d of %d", n["cs.fin.done"], st.started)
		case n["srv.register"] != n["srv.unregister"]:
			why = fmt.Sprintf("server streams registered %d, unregistered %d: ids %v", n["srv.register"], n["srv.unregister"], c14Keys(s.srvReg))
		case n["srv.worker.take"] != n["srv.worker.handoff"]+n["srv.worker.abandon"]:
			why = fmt.Sprintf("workers took %d requests and handed over %d replies", n["srv.worker.take"], n["srv.worker.handoff"])
		case n["srv.writer.take"] != n["srv.writer.write"]:
			why = fmt.Sprintf("the writer took %d envelopes and wrote %d", n["srv.writer.take"], n["srv.writer.write"])
		case cw != sr || sw != cr:
			why = fmt.Sprintf("transport: client wrote %d, server read %d; server wrote %d, client read %d", cw, sr, sw, cr)
		default:
			why = ""
		}
		s.mu.Unlock()
		if why == "" {
			break
		}
		if time.Now().After(deadline) {
			r.Violate(scen+".busy", "history", "all callers have returned but the connection still works for them: "+why, in, goroutineDump(), nil)
			return false
		}
		if spin < 20 {
			time.Sleep(20 * time.Microsecond)
		} else {
			time.Sleep(200 * time.Microsecond)
		}
	}
	ok := true
	if c := g.cc.VerifHandlerCount(); c != 0 {
		s.mu.Lock()
		ids := c14Keys(s.muxReg)
		s.mu.Unlock()
		r.Violate(scen+".client-registry", "history", fmt.Sprintf("%d calls are still registered with the client connection although no RPC is in flight", c), in,
			map[string]any{"ids": ids, "calls": g.tap.tagsOf(ids)}, 0)
		ok = false
	}
	s.mu.Lock()
	srvLeft, last, some := c14Keys(s.srvReg), s.lastUnreg, s.n["srv.unregister"] > 0
	s.mu.Unlock()
	if len(srvLeft) != 0 || (some && last != "0") {
		r.Violate(scen+".server-registry", "history", "the server connection's stream registry is not empty although no RPC is in flight", in,
			map[string]any{"ids": srvLeft, "calls": g.tap.tagsOf(srvLeft), "size_after_last_unregister": last}, 0)
		ok = false
	}
	if n, where := settleGoroutines(g.idle); n != g.idle {
		r.Violate(scen+".goroutines", "history", fmt.Sprintf("%d goroutines of the library are alive although no RPC is in flight; the idle level is %d", n, g.idle), in, where, g.idle)
		ok = false
	}
	g.tap.forget()
	return ok
}

// restart: streams are open when their server goes away; a new server takes over the same transport,
// does not know the streams and answers the callers' next messages with resets. The calls end with the
// peer's reset (or with the old server's last word, if that still got out).
func (g *c14Rig) restart(r *Run, st *c14State, rng *rand.Rand, seq *int, in map[string]any) bool {
	type live struct {
		cs  grpc.ClientStream
		tag string
		id  uint64
	}
	var open []live
	m := 1 + rng.Intn(6)
	for i := 0; i < m; i++ {
		*seq++
		tag := fmt.Sprintf("T%d", *seq)
		method := c14Methods[1+rng.Intn(3)]
		ctx := metadata.AppendToOutgoingContext(context.Background(), "x-tag", tag, "x-prog", "hold")
		cs, err := g.cc.NewStream(ctx, descOf(method), method)
		if err != nil {
			continue
		}
		st.started++
		id, _ := g.tap.idOf(tag)
		open = append(open, live{cs, tag, id})
	}
	in["restart_streams"] = len(open)
	s := g.sink
	if !s.waitFor(func() bool {
		for _, l := range open {
			if _, ok := s.srvReg[l.id]; !ok {
				return false
			}
		}
		return true
	}, hangTimeout) {
		r.Violate("history.busy", "history", "an opened stream was not registered by the server", in, goroutineDump(), nil)
		return false
	}
	g.srv.Stop()
	if !c14WaitErr(g.served, hangTimeout) {
		r.Violate("history.busy", "history", "Serve did not return after Stop", in, goroutineDump(), nil)
		return false
	}
	g.startServer()
	var wg sync.WaitGroup
	for _, l := range open {
		wg.Add(1)
		go func(l live) {
			defer wg.Done()
			sendB(l.cs, cliMsg(l.tag, 0))
			for {
				if _, err := recvB(l.cs); err != nil {
					r.Count("history.restart.terminal." + termOf(err))
					return
				}
			}
		}(l)
	}
	if !within(3*hangTimeout, wg.Wait) {
		r.Violate("history.hang", "history", "a call whose server was replaced did not return", in, goroutineDump(), nil)
		return false
	}
	r.CountN("history.restart.streams", len(open))
	return g.quiesce(r, "history", st, in)
}

func c14WaitErr(ch <-chan error, d time.Duration) bool {
	t := time.NewTimer(d)
	defer t.Stop()
	select {
	case <-ch:
		return true
	case <-t.C:
		return false
	}
}

// c14Base is the number of library goroutines alive when the property starts (0 in its own process;
// when it runs after other workloads in one process, what those left behind).
var c14Base int

func runC14(r *Run) {
	c14Base, _ = goatGoroutines()
	defer hooks.Install() // give the hook seam back to the shared log
	defer hooks.Reset(false)
	// the cheap dedicated connections first; a family that found a violation ends the run (on a broken
	// tree every further quiescent point would cost a hang timeout)
	if r.Want("openls") {
		c14OpenLockstep(r)
	}
	if r.NumViolations() == 0 {
		c14ExpiredUnary(r)
	}
	if r.NumViolations() == 0 {
		c14OwnServeContext(r)
	}
	if r.NumViolations() == 0 {
		c14CancelWithUndeliveredMessage(r)
	}
	if r.Want("failedopen") && r.NumViolations() == 0 {
		c14Dedicated(r, "failedopen")
	}
	if r.Want("deadconn") && r.NumViolations() == 0 {
		c14Dedicated(r, "deadconn")
	}
	if r.Want("history") {
		total := r.Scale(10000, 1000000)
		for i, serialise := range []bool{true, false} {
			if r.NumViolations() > 0 {
				return
			}
			c14History(r, serialise, total/2, i)
		}
	}
}

func c14History(r *Run, serialise bool, total, part int) {
	rng := r.Rand(fmt.Sprintf("c14.history.%v", serialise))
	g := newC14Rig(serialise)
	defer g.close()
	if !g.warmUp(r, "history") {
		return
	}
	st := &c14State{}
	deadlineOneIn := r.Scale(2, 12)
	restartEvery := r.Scale(20, 150)
	seq, batchNo := 0, 0
	for seq < total && r.NumViolations() <= 4 {
		batchNo++
		k := 1 + rng.Intn(32)
		if batchNo%7 == 0 {
			k = 32
		}
		calls := make([]c14Call, k)
		for i := range calls {
			seq++
			calls[i] = c14Gen(rng, seq, deadlineOneIn)
			r.Count(fmt.Sprintf("history.%s.%s", []string{"unary", "bidi", "srvstream", "clistream"}[calls[i].Kind], calls[i].Outcome))
		}
		in := map[string]any{"serialise": serialise, "batch": batchNo, "calls_before": seq - k, "calls": calls, "seed": r.Seed}
		if batchNo%16 == 1 {
			r.Progress("history", in)
			InstallPrograms(g.impl, NewHandlerLog(), g.gate.enter) // a fresh handler log: the old one only grows
		}
		var wg sync.WaitGroup
		var mu sync.Mutex
		start := make(chan struct{})
		for _, c := range calls {
			wg.Add(1)
			go func(c c14Call) {
				defer wg.Done()
				<-start
				if c14Exec(g, c) {
					mu.Lock()
					st.started++
					mu.Unlock()
				}
			}(c)
		}
		close(start)
		if !within(3*hangTimeout, wg.Wait) {
			r.Violate("history.hang", "history", "a call did not return", in, goroutineDump(), nil)
			return
		}
		if !g.quiesce(r, "history", st, in) {
			return
		}
		r.Eval(fmt.Sprintf("history/%v/%d", serialise, batchNo), true)
		if batchNo%restartEvery == 0 {
			in := map[string]any{"serialise": serialise, "after_batch": batchNo, "calls_before": seq, "seed": r.Seed}
			r.Progress("history", in)
			if !g.restart(r, st, rng, &seq, in) {
				return
			}
			r.Eval(fmt.Sprintf("history/%v/restart%d", serialise, batchNo), true)
		}
	}
	r.CountN("history.quiescent_points", batchNo)
	r.CountN("history.rpcs", seq)
	for _, k := range []string{"srv.reset.body", "mux.lookup.unknown", "mux.drop", "mux.register.ok", "mux.unregister.present", "srv.register", "cs.fin.done"} {
		r.CountN("history.events."+k, g.sink.count(k))
	}
}

// c14Dedicated: a connection on which every open fails — because the transport refuses the write
// (failedopen) or because its read side is already known to have failed (deadconn).
func c14Dedicated(r *Run, scen string) {
	rng := r.Rand("c14." + scen)
	rounds := r.Scale(4, 40)
	for round := 0; round < rounds && r.NumViolations() <= 4; round++ {
		serialise := round%2 == 0
		g := newC14Rig(serialise)
		if !g.warmUp(r, scen) {
			g.close()
			return
		}
		st := &c14State{}
		idle := g.idle
		if scen == "failedopen" {
			g.cend.FailWrite(errInjectedWrite)
		} else {
			g.cend.FailRead(errInjectedRead)
			// the client's read loop ends: that is the new idle level
			if !g.sink.waitFor(func() bool { return g.sink.n["mux.fail"] >= 1 }, hangTimeout) {
				r.Violate(scen+".busy", "history", "the client did not notice the failed read", nil, goroutineDump(), nil)
				g.close()
				return
			}
			idle--
		}
		g.idle = idle
		n := 1 + rng.Intn(100)
		in := map[string]any{"round": round, "calls": n, "serialise": serialise, "seed": r.Seed}
		r.Progress(scen, in)
		var wg sync.WaitGroup
		sem := make(chan struct{}, 32)
		var mu sync.Mutex
		for i := 0; i < n; i++ {
			kind := rng.Intn(4)
			tag := fmt.Sprintf("T%d", i)
			wg.Add(1)
			sem <- struct{}{}
			go func() {
				defer wg.Done()
				defer func() { <-sem }()
				ctx := metadata.AppendToOutgoingContext(context.Background(), "x-tag", tag, "x-prog", "echo")
				if kind == 0 {
					callUnary(ctx, g.cc, []byte(tag))
					return
				}
				if cs, err := g.cc.NewStream(ctx, descOf(c14Methods[kind]), c14Methods[kind]); err == nil {
					// not expected on this connection; if it happens the stream is driven to its end
					mu.Lock()
					st.started++
					mu.Unlock()
					cs.CloseSend()
					for {
						if _, err := recvB(cs); err != nil {
							break
						}
					}
				}
			}()
			r.Count(fmt.Sprintf("%s.kind%d", scen, kind))
		}
		if !within(3*hangTimeout, wg.Wait) {
			r.Violate(scen+".hang", "history", "a call on a failed connection did not return", in, goroutineDump(), nil)
			g.close()
			return
		}
		g.quiesce(r, scen, st, in)
		r.Eval(fmt.Sprintf("%s/%d", scen, round), true)
		g.close()
	}
}
