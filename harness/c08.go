package main

import (
	"context"
	"fmt"
	"math"
	"math/big"
	"strconv"
	"strings"
	"sync"
	"time"

	goat "github.com/avos-io/goat"
	"github.com/avos-io/goat/gen/goatorepo"
	"google.golang.org/grpc"
	"google.golang.org/grpc/metadata"
)

func init() { register("C08", runC08) }

var unitNanos = map[byte]int64{'H': int64(time.Hour), 'M': int64(time.Minute), 'S': int64(time.Second), 'm': int64(time.Millisecond), 'u': int64(time.Microsecond), 'n': 1}

func implTimeout(s string) string {
	d, ok := goat.VerifParseGrpcTimeout(s)
	if !ok {
		return "none"
	}
	return fmt.Sprint(int64(d))
}

func allDigits(s string) bool {
	if s == "" {
		return false
	}
	for i := 0; i < len(s); i++ {
		if s[i] < '0' || s[i] > '9' {
			return false
		}
	}
	return true
}

// c08Monitor decides the property on one header value, independently of the model.
func c08Monitor(r *Run, s string) {
	got := implTimeout(s)
	inGrammar := false
	var want *big.Int
	if len(s) >= 2 {
		ds, u := s[:len(s)-1], s[len(s)-1]
		if n, ok := unitNanos[u]; ok && allDigits(ds) {
			v, _ := new(big.Int).SetString(ds, 10)
			want = new(big.Int).Mul(v, big.NewInt(n))
			if want.Cmp(big.NewInt(math.MaxInt64)) > 0 {
				want = big.NewInt(math.MaxInt64)
			}
			inGrammar = len(ds) <= 8
			if !inGrammar {
				// overlong (I1): ignored, or read exactly
				if got != "none" && got != want.String() {
					r.Violate("pure.overlong", "ops", "overlong all-digit timeout value misread", s, got, "none or "+want.String())
				}
				return
			}
		}
	}
	if inGrammar {
		if got != want.String() {
			r.Violate("pure.grammar", "ops", "timeout value of the gRPC grammar not read as exactly that duration (saturating)", s, got, want.String())
		}
		return
	}
	if got != "none" {
		r.Violate("pure.malformed", "ops", "malformed timeout value accepted", s, got, "none")
	}
}

func runC08(r *Run) {
	if r.Want("pure") {
		c08Pure(r)
	}
	if r.Want("headers") {
		c08Headers(r)
	}
	if r.Want("e2e") {
		c08EndToEnd(r)
	}
	c08SlowStats(r)
	c08ExpiresMidSend(r)
	c08ViaProxy(r)
	c08QueuedUnary(r)
	c08WireHeaders(r)
	topoSweep(r, "deadline")
}

func c08Pure(r *Run) {
	rng := r.Rand("c08.pure")
	try := func(class, s string) {
		r.Count("pure." + class)
		r.Case("timeout", hxs(s), implTimeout(s))
		c08Monitor(r, s)
	}
	units := "HMSmun"
	// the boundary table: all six units x all digit counts, minima, maxima, around MaxInt64/unit
	for _, u := range units {
		for n := 1; n <= 8; n++ {
			try("boundary", strings.Repeat("9", n)+string(u))
			try("boundary", "1"+strings.Repeat("0", n-1)+string(u))
			try("boundary", strings.Repeat("0", n)+string(u))
		}
		lim := math.MaxInt64 / unitNanos[byte(u)]
		for _, d := range []int64{-1, 0, 1} {
			try("overflow-edge", fmt.Sprint(lim+d)+string(u))
		}
	}
	n := r.Scale(6000, 400000)
	for i := 0; i < n; i++ {
		u := units[rng.Intn(6)]
		switch rng.Intn(10) {
		case 0, 1, 2, 3: // in the grammar
			k := 1 + rng.Intn(8)
			b := make([]byte, k)
			for j := range b {
				b[j] = byte('0' + rng.Intn(10))
			}
			try("grammar", string(b)+string(u))
		case 4: // overlong
			k := 9 + rng.Intn(14)
			b := make([]byte, k)
			for j := range b {
				b[j] = byte('0' + rng.Intn(10))
			}
			try("overlong", string(b)+string(u))
		case 5: // signed
			try("signed", string("+-"[rng.Intn(2)])+fmt.Sprint(rng.Intn(100000))+string(u))
		case 6: // unit-less or unknown unit
			try("unitless", fmt.Sprint(rng.Intn(100000))+[]string{"", "h", "s", "U", "N", " ", "ms", "0"}[rng.Intn(8)])
		case 7: // non-digit inside
			s := []byte(fmt.Sprint(rng.Intn(10000000)))
			s[rng.Intn(len(s))] = " _.,xe-+"[rng.Intn(8)]
			try("nondigit", string(s)+string(u))
		case 8: // empty and near-empty
			try("empty", []string{"", string(u), " ", "\x00"}[rng.Intn(4)])
		case 9: // random bytes
			b := make([]byte, rng.Intn(6))
			rng.Read(b)
			try("random", string(b))
		}
	}
}

// c08Headers: the client's header for a deadline, and the server's reading of header lists.
func c08Headers(r *Run) {
	rng := r.Rand("c08.headers")
	n := r.Scale(400, 20000)
	for i := 0; i < n; i++ {
		// remaining from -1h to 10^4 h, log-distributed, plus edges
		var rem time.Duration
		switch rng.Intn(6) {
		case 0:
			rem = -time.Duration(rng.Int63n(int64(time.Hour)))
		case 1:
			rem = time.Duration(rng.Int63n(int64(2 * time.Millisecond)))
		case 2:
			rem = time.Duration(rng.Int63n(int64(10000 * time.Hour)))
		default:
			rem = time.Duration(math.Pow(10, 3+rng.Float64()*13))
		}
		t0 := time.Now()
		D := t0.Add(rem)
		ctx, cancel := context.WithDeadline(context.Background(), D)
		kvs := goat.VerifHeadersFromContext(ctx)
		t1 := time.Now()
		cancel()
		var val string
		cnt := 0
		for _, kv := range kvs {
			if strings.ToLower(kv.Key) == "grpc-timeout" {
				val = kv.Value
				cnt++
			}
		}
		r.Count("headers.client")
		if cnt != 1 {
			r.Violate("headers.client", "ops", "expected exactly one grpc-timeout header for a context with a deadline", rem.String(), kvInput(kvs), nil)
			continue
		}
		// the model's encoding of every instant in [t0, t1] brackets the observed value
		lo, hi := D.Sub(t1), D.Sub(t0)
		r.Case("encbetween", fmt.Sprintf("%d,%d,%s", int64(lo), int64(hi), hxs(val)), "in")
		// and the server reads it back as max(1ms, floor to ms) of some instant in the bracket
		d, ok := goat.VerifParseGrpcTimeout(val)
		msLo, msHi := int64(lo/time.Millisecond), int64(hi/time.Millisecond)
		if msLo <= 0 {
			msLo = 1
		}
		if msHi <= 0 {
			msHi = 1
		}
		if !ok || int64(d/time.Millisecond) < msLo || int64(d/time.Millisecond) > msHi || d%time.Millisecond != 0 {
			r.Violate("headers.roundtrip", "ops", "client header value is not read back as the caller's remaining time (floor to ms, min 1ms)", map[string]any{"remaining_ns_lo": int64(lo), "remaining_ns_hi": int64(hi), "header": val}, implTimeout(val), nil)
		}
	}
	// no deadline, no header
	if kvs := goat.VerifHeadersFromContext(context.Background()); len(kvs) != 0 {
		r.Violate("headers.nodeadline", "ops", "header emitted without a deadline", nil, kvInput(kvs), "_")
	}
	// server side: header lists with key-case variants, several entries, malformed first
	keys := []string{"grpc-timeout", "GRPC-Timeout", "Grpc-Timeout", "gRPC-TIMEOUT", "grpc-timeou", "x-grpc-timeout", "other"}
	vals := []string{"5S", "100m", "1H", "99999999H", "-5S", "", "12", "7x", "3u", "00000001n", "0S", "0n", "00000000H", "0m"}
	for i := 0; i < n; i++ {
		k := 1 + rng.Intn(3)
		kvs := make([]*goatorepo.KeyValue, k)
		for j := range kvs {
			kvs[j] = &goatorepo.KeyValue{Key: keys[rng.Intn(len(keys))], Value: vals[rng.Intn(len(vals))]}
		}
		// the input is written down before the call: the code under check is handed the very slice and a
		// version that rearranges it in place must not get to rewrite the question it is asked
		inp := kvInput(kvs)
		keysOf, valsOf := make([]string, k), make([]string, k)
		for j := range kvs {
			keysOf[j], valsOf[j] = kvs[j].Key, kvs[j].Value
		}
		t0 := time.Now()
		ctx, cancel, err := goat.VerifContextFromHeaders(context.Background(), &goatorepo.RequestHeader{Headers: kvs})
		t1 := time.Now()
		out, iv := "none", "-"
		if err != nil {
			out = "ERR"
		} else if dl, ok := ctx.Deadline(); ok {
			out = "in"
			iv = fmt.Sprintf("%d,%d", int64(dl.Sub(t1)), int64(dl.Sub(t0)))
			r.Count("headers.server.deadline")
		} else {
			r.Count("headers.server.nodeadline")
		}
		cancel()
		r.Case("hdrbetween", inp+"|"+iv, out)
		// a well-formed timeout header conveys a deadline, also when the time left is zero and whatever
		// other headers stand before or after it
		nT, wfT := 0, false
		for j := range keysOf {
			if strings.EqualFold(keysOf[j], "grpc-timeout") {
				nT++
				_, wfT = map[string]bool{"5S": true, "100m": true, "1H": true, "99999999H": true, "3u": true, "00000001n": true, "0S": true, "0n": true, "00000000H": true, "0m": true}[valsOf[j]]
			}
		}
		// … and a malformed entry is ignored, not obeyed: a well-formed one after it still counts
		wfAny := false
		wfSet := map[string]bool{"5S": true, "100m": true, "1H": true, "99999999H": true, "3u": true, "00000001n": true, "0S": true, "0n": true, "00000000H": true, "0m": true}
		for j := range keysOf {
			if strings.EqualFold(keysOf[j], "grpc-timeout") && wfSet[valsOf[j]] {
				wfAny = true
			}
		}
		if wfAny && err == nil && out != "in" {
			r.Violate("headers.server.nodeadline", "ops", "the request carries a well-formed grpc-timeout header (after a malformed one, which is to be ignored) but the handler's context has no deadline", inp, out, "a deadline")
		} else if nT == 1 && wfT && err == nil && out != "in" {
			r.Violate("headers.server.nodeadline", "ops", "a well-formed grpc-timeout header did not give the handler's context a deadline", inp, out, "a deadline")
		}
	}
}

func c08EndToEnd(r *Run) {
	rng := r.Rand("c08.e2e")
	rig := NewRig(RigOpt{Serialise: true})
	defer rig.Close()
	type obs struct {
		has    bool
		dl     time.Time
		tSeen  time.Time
		called bool
	}
	// every call carries its number: a handler that runs late (its caller's deadline was so short that the
	// caller gave up first) must not be taken for the handler of the next call
	var omu sync.Mutex
	seen := map[string]obs{}
	record := func(ctx context.Context) {
		now := time.Now()
		dl, has := ctx.Deadline()
		omu.Lock()
		seen[mdGet(ctx, "x-call")] = obs{has: has, dl: dl, tSeen: now, called: true}
		omu.Unlock()
	}
	rig.Impl.SetUnary(func(ctx context.Context, req []byte) ([]byte, error) {
		record(ctx)
		return req, nil
	})
	rig.Impl.SetStream(func(method string, ss grpc.ServerStream) error {
		record(ss.Context())
		return nil
	})
	n := r.Scale(60, 2000)
	for i := 0; i < n; i++ {
		var rem time.Duration
		noDeadline := false
		switch rng.Intn(7) {
		case 0:
			noDeadline = true
		case 1:
			rem = -time.Duration(rng.Int63n(int64(time.Second)))
		case 2:
			rem = time.Duration(rng.Int63n(int64(time.Millisecond)))
		case 3:
			rem = time.Duration(rng.Int63n(int64(10000 * time.Hour)))
		default:
			rem = time.Duration(math.Pow(10, 6+rng.Float64()*10))
		}
		stream := i%2 == 1
		callNo := strconv.Itoa(i)
		t0 := time.Now()
		D := t0.Add(rem)
		ctx, cancel := metadata.AppendToOutgoingContext(context.Background(), "x-call", callNo), context.CancelFunc(func() {})
		if !noDeadline {
			ctx, cancel = context.WithDeadline(ctx, D)
		}
		in := map[string]any{"remaining": rem.String(), "no_deadline": noDeadline, "stream": stream}
		r.Progress("e2e", in)
		if stream {
			cs, err := rig.CC.NewStream(ctx, descBidi, mBidi)
			if err == nil {
				cs.CloseSend()
				recvB(cs)
			}
		} else {
			callUnary(ctx, rig.CC, []byte("x"))
		}
		cancel()
		r.Eval(fmt.Sprintf("e2e/%v/%v/%d", noDeadline, stream, rem), true)
		omu.Lock()
		o := seen[callNo]
		omu.Unlock()
		if !o.called {
			r.Count("e2e.not_delivered") // an expired caller may never reach the server
			continue
		}
		r.Count("e2e.delivered")
		switch {
		case noDeadline:
			if o.has {
				r.Violate("e2e.nodeadline", "ops", "handler has a deadline although the caller has none", in, o.dl.String(), nil)
			}
		case !o.has:
			r.Violate("e2e.lost", "ops", "caller's deadline did not reach the handler", in, nil, nil)
		case rem >= time.Millisecond && D.Sub(t0) >= time.Millisecond:
			transit := o.tSeen.Sub(t0)
			// a deadline that had less than 1 ms left when the header was written is conveyed as 1 ms
			if o.dl.Before(D.Add(-time.Millisecond)) {
				r.Violate("e2e.early", "ops", "handler deadline earlier than the caller's minus 1ms", in, o.dl.Sub(D).String(), nil)
			}
			if o.dl.After(D.Add(transit)) && o.dl.After(o.tSeen.Add(time.Millisecond)) {
				r.Violate("e2e.late", "ops", "handler deadline later than the caller's plus transit", in, o.dl.Sub(D).String(), transit.String())
			}
		default:
			// expired or sub-millisecond: conveyed as one millisecond from some instant of the transit
			if o.dl.After(o.tSeen.Add(time.Millisecond)) || o.dl.Before(t0) {
				r.Violate("e2e.expired", "ops", "expired / sub-millisecond deadline not conveyed as one millisecond", in, o.dl.Sub(t0).String(), nil)
			}
		}
	}
}
