package main

import (
	"context"
	"fmt"
	"io"
	"sync/atomic"
	"time"

	goat "github.com/avos-io/goat"
	"github.com/avos-io/goat/gen/goatorepo"
	"google.golang.org/grpc"
	"google.golang.org/protobuf/types/known/wrapperspb"
)

// c10ExpiredThenEnd: streams opened with a short grpc-timeout whose handlers overrun it (they do work
// that does not watch the context); the connection ends (read failure, write side dead as well, or
// Stop) while they are still running, and only then do they return. Serve has to return once they
// have — nobody is left to take their trailers — and not before.
func c10ExpiredThenEnd(r *Run) {
	for i, fault := range []string{"read", "stop", "readwrite", "read", "stop", "readwrite"} {
		if !r.Want("serve.expired") {
			return
		}
		sc := NewScript(0)
		sc.Out = make(chan *Rpc, 256)
		srv := goat.NewServer("srv")
		impl := &Impl{}
		release := make(chan struct{})
		var entered, exited atomic.Int32
		impl.SetUnary(func(ctx context.Context, req []byte) ([]byte, error) { return req, nil })
		impl.SetStream(func(method string, ss grpc.ServerStream) error {
			entered.Add(1)
			<-release
			exited.Add(1)
			return ss.Context().Err()
		})
		srv.RegisterService(&echoDesc, impl)
		hooks.Reset(true)
		served := make(chan error, 1)
		var exitedAtReturn int32 = -1
		go func() {
			err := srv.Serve(context.Background(), sc)
			atomic.StoreInt32(&exitedAtReturn, exited.Load())
			served <- err
		}()
		nStreams := 1 + i%3
		in := map[string]any{"fault": fault, "streams": nStreams, "grpc-timeout": "20m"}
		r.Progress("serve.expired", in)
		ok := within(hangTimeout, func() {
			for id := 1; id <= nStreams; id++ {
				h := &goatorepo.RequestHeader{Method: mBidi, Destination: "srv", Source: "c"}
				// one stream without a deadline rides along when there are several
				if id == 1 || id == 3 {
					h.Headers = []*goatorepo.KeyValue{{Key: "grpc-timeout", Value: "20m"}}
				}
				sc.In <- &Rpc{Id: uint64(id), Header: h}
			}
			for entered.Load() < int32(nStreams) {
				time.Sleep(time.Millisecond)
			}
		})
		if !ok {
			r.Violate("serve.expired.setup", "schedule", "the handlers were not started", in, goroutineDump(), nil)
			close(release)
			srv.Stop()
			sc.FailRead(io.EOF)
			hooks.Reset(false)
			return
		}
		time.Sleep(40 * time.Millisecond) // the deadlines pass
		switch fault {
		case "read":
			sc.FailRead(io.EOF)
		case "readwrite":
			sc.FailWrite(errInjectedWrite)
			sc.FailRead(io.ErrUnexpectedEOF)
		case "stop":
			srv.Stop()
		}
		early := false
		select {
		case err := <-served:
			early = true
			served <- err
		case <-time.After(150 * time.Millisecond):
		}
		close(release)
		if !within(hangTimeout, func() { <-served }) {
			r.Violate("serve.expired.hang", "schedule", "Serve did not return although the connection had ended and every handler had returned (the handlers had overrun their grpc-timeout)", in, goroutineDump(), nil)
			sc.FailRead(io.EOF)
		}
		r.Eval(fmt.Sprintf("serve.expired/%s/%d", fault, nStreams), true)
		r.Count("c10.expired-then-end")
		if early || (atomic.LoadInt32(&exitedAtReturn) != int32(nStreams) && atomic.LoadInt32(&exitedAtReturn) >= 0) {
			r.Violate("serve.expired.early", "schedule", "Serve returned while a streaming handler of the connection was still running", in,
				fmt.Sprintf("handlers finished when Serve returned: %d of %d", atomic.LoadInt32(&exitedAtReturn), nStreams), "all")
		}
		hooks.Reset(false)
		settleGoroutines(0)
	}
}

// c10ParkedThenEnd: a streaming handler that neither receives nor returns has one message in its queue;
// the peer's next message for that stream holds the connection's read loop in the hand-off (the
// documented head-of-line situation). THEN the connection ends — by Stop, or by a transport write that
// fails (the reply of a unary call that finishes at that moment). Serve returns all the same, and the
// handler's context is done.
func c10ParkedThenEnd(r *Run) {
	for i, fault := range []string{"stop", "writefail", "stop", "writefail"} {
		if !r.Want("serve.parked") {
			return
		}
		in := map[string]any{"fault": fault, "state": "read loop held in the hand-off to a handler that does not receive", "rep": i}
		r.Progress("serve.parked", in)
		sc := NewScript(0)
		sc.Out = make(chan *Rpc, 64)
		impl := &Impl{}
		hctx := make(chan context.Context, 1)
		gate := make(chan struct{})
		impl.SetUnary(func(ctx context.Context, req []byte) ([]byte, error) { <-gate; return req, nil })
		impl.SetStream(func(m string, ss grpc.ServerStream) error {
			hctx <- ss.Context()
			<-ss.Context().Done()
			return ss.Context().Err()
		})
		srv := goat.NewServer("srv")
		srv.RegisterService(&echoDesc, impl)
		served := make(chan error, 1)
		go func() { served <- srv.Serve(context.Background(), sc) }()
		hdr := func(m string) *goatorepo.RequestHeader {
			return &goatorepo.RequestHeader{Method: m, Destination: "srv", Source: "c"}
		}
		body, _ := goat_marshal(&wrapperspb.BytesValue{Value: []byte("m")})
		ok := within(hangTimeout, func() {
			sc.In <- &Rpc{Id: 1, Header: hdr(mBidi)}
			sc.In <- &Rpc{Id: 1, Header: hdr(mBidi), Body: &goatorepo.Body{Data: body}}
			sc.In <- &Rpc{Id: 2, Header: hdr(mUnary), Body: &goatorepo.Body{Data: body}}
		})
		var hc context.Context
		if ok {
			select {
			case hc = <-hctx:
			case <-time.After(hangTimeout):
				ok = false
			}
		}
		if !ok {
			r.Violate("serve.parked.setup", "schedule", "the requests were not taken", in, goroutineDump(), nil)
			close(gate)
			srv.Stop()
			sc.FailRead(io.EOF)
			return
		}
		// the message that parks the read loop
		go func() {
			select {
			case sc.In <- &Rpc{Id: 1, Header: hdr(mBidi), Body: &goatorepo.Body{Data: body}}:
			case <-time.After(3 * hangTimeout):
			}
		}()
		time.Sleep(30 * time.Millisecond)
		switch fault {
		case "stop":
			srv.Stop()
		case "writefail":
			sc.FailWrite(errInjectedWrite)
		}
		close(gate) // the unary handler finishes: its reply is written (and, for writefail, fails)
		returned := within(hangTimeout, func() { <-served })
		r.Eval(fmt.Sprintf("serve.parked/%s/%d", fault, i), true)
		r.Count("c10.parked-then-end")
		if !returned {
			r.Violate("serve.parked.hang", "schedule", "Serve did not return after the connection ended ("+fault+") while its read loop was held by a handler that does not receive", in, goroutineDump(), nil)
			sc.FailRead(io.EOF)
		} else {
			select {
			case <-hc.Done():
			case <-time.After(hangTimeout):
				r.Violate("serve.parked.ctx", "schedule", "Serve returned but the streaming handler's context is still live", in, nil, "done")
			}
		}
		sc.FailRead(io.EOF)
		settleGoroutines(0)
	}
}

// c10BusyWorkersThenEnd: all eight unary workers of a connection are in handlers that wait for their
// context, a ninth unary request has been read and waits for a worker, a streaming handler is open.
// THEN the connection ends — by Stop, or by a transport write that fails (one handler is let go and its
// reply cannot be written). Serve returns, and the streaming handler's context is done.
func c10BusyWorkersThenEnd(r *Run) {
	for i, fault := range []string{"stop", "writefail", "stop", "writefail"} {
		if !r.Want("serve.busy") {
			return
		}
		in := map[string]any{"fault": fault, "state": "8 unary handlers waiting for their context, a ninth request waiting for a worker", "rep": i}
		r.Progress("serve.busy", in)
		sc := NewScript(0)
		sc.Out = make(chan *Rpc, 64)
		impl := &Impl{}
		hctx := make(chan context.Context, 1)
		gate := make(chan struct{})
		entered := make(chan struct{}, 16)
		impl.SetUnary(func(ctx context.Context, req []byte) ([]byte, error) {
			entered <- struct{}{}
			select {
			case <-ctx.Done():
				return nil, ctx.Err()
			case <-gate:
				return req, nil
			}
		})
		impl.SetStream(func(m string, ss grpc.ServerStream) error {
			hctx <- ss.Context()
			<-ss.Context().Done()
			return ss.Context().Err()
		})
		srv := goat.NewServer("srv")
		srv.RegisterService(&echoDesc, impl)
		served := make(chan error, 1)
		go func() { served <- srv.Serve(context.Background(), sc) }()
		hdr := func(m string) *goatorepo.RequestHeader {
			return &goatorepo.RequestHeader{Method: m, Destination: "srv", Source: "c"}
		}
		body, _ := goat_marshal(&wrapperspb.BytesValue{Value: []byte("m")})
		var hc context.Context
		ok := within(hangTimeout, func() {
			sc.In <- &Rpc{Id: 1, Header: hdr(mBidi)}
			hc = <-hctx
			for k := 0; k < 8; k++ {
				sc.In <- &Rpc{Id: uint64(2 + k), Header: hdr(mUnary), Body: &goatorepo.Body{Data: body}}
			}
			for k := 0; k < 8; k++ {
				<-entered
			}
			sc.In <- &Rpc{Id: 10, Header: hdr(mUnary), Body: &goatorepo.Body{Data: body}} // read, and now waits for a worker
		})
		if !ok {
			r.Violate("serve.busy.setup", "schedule", "the requests were not taken", in, goroutineDump(), nil)
			srv.Stop()
			sc.FailRead(io.EOF)
			return
		}
		time.Sleep(30 * time.Millisecond)
		switch fault {
		case "stop":
			srv.Stop()
		case "writefail":
			sc.FailWrite(errInjectedWrite)
			select {
			case gate <- struct{}{}: // exactly one handler finishes: its reply cannot be written
			case <-time.After(hangTimeout):
			}
		}
		returned := within(hangTimeout, func() { <-served })
		r.Eval(fmt.Sprintf("serve.busy/%s/%d", fault, i), true)
		r.Count("c10.busy-then-end")
		if !returned {
			r.Violate("serve.busy.hang", "schedule", "Serve did not return after the connection ended ("+fault+") while all unary workers were busy and a request was waiting for one", in, goroutineDump(), nil)
		} else {
			select {
			case <-hc.Done():
			case <-time.After(hangTimeout):
				r.Violate("serve.busy.ctx", "schedule", "Serve returned but the streaming handler's context is still live", in, nil, "done")
			}
		}
		close(gate)
		sc.FailRead(io.EOF)
		settleGoroutines(0)
	}
}
