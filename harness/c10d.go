package main

import (
	"context"
	"fmt"
	"io"
	"sync/atomic"
	"time"

	goat "github.com/avos-io/goat"
	"github.com/avos-io/goat/gen/goatorepo"
	"google.golang.org/grpc"
)

// c10ExpiredThenEnd: streams opened with a short grpc-timeout whose handlers overrun it (they do work
// that does not watch the context); the connection ends (read failure, write side dead as well, or
// Stop) while they are still running, and only then do they return. Serve has to return once they
// have — nobody is left to take their trailers — and not before.
func c10ExpiredThenEnd(r *Run) {
	for i, fault := range []string{"read", "stop", "readwrite", "read", "stop", "readwrite"} {
		if !r.Want("serve.expired") {
			return
		}
		sc := NewScript(0)
		sc.Out = make(chan *Rpc, 256)
		srv := goat.NewServer("srv")
		impl := &Impl{}
		release := make(chan struct{})
		var entered, exited atomic.Int32
		impl.SetUnary(func(ctx context.Context, req []byte) ([]byte, error) { return req, nil })
		impl.SetStream(func(method string, ss grpc.ServerStream) error {
			entered.Add(1)
			<-release
			exited.Add(1)
			return ss.Context().Err()
		})
		srv.RegisterService(&echoDesc, impl)
		hooks.Reset(true)
		served := make(chan error, 1)
		var exitedAtReturn int32 = -1
		go func() {
			err := srv.Serve(context.Background(), sc)
			atomic.StoreInt32(&exitedAtReturn, exited.Load())
			served <- err
		}()
		nStreams := 1 + i%3
		in := map[string]any{"fault": fault, "streams": nStreams, "grpc-timeout": "20m"}
		r.Progress("serve.expired", in)
		ok := within(hangTimeout, func() {
			for id := 1; id <= nStreams; id++ {
				h := &goatorepo.RequestHeader{Method: mBidi, Destination: "srv", Source: "c"}
				// one stream without a deadline rides along when there are several
				if id == 1 || id == 3 {
					h.Headers = []*goatorepo.KeyValue{{Key: "grpc-timeout", Value: "20m"}}
				}
				sc.In <- &Rpc{Id: uint64(id), Header: h}
			}
			for entered.Load() < int32(nStreams) {
				time.Sleep(time.Millisecond)
			}
		})
		if !ok {
			r.Violate("serve.expired.setup", "schedule", "the handlers were not started", in, goroutineDump(), nil)
			close(release)
			srv.Stop()
			sc.FailRead(io.EOF)
			hooks.Reset(false)
			return
		}
		time.Sleep(40 * time.Millisecond) // the deadlines pass
		switch fault {
		case "read":
			sc.FailRead(io.EOF)
		case "readwrite":
			sc.FailWrite(errInjectedWrite)
			sc.FailRead(io.ErrUnexpectedEOF)
		case "stop":
			srv.Stop()
		}
		early := false
		select {
		case err := <-served:
			early = true
			served <- err
		case <-time.After(150 * time.Millisecond):
		}
		close(release)
		if !within(hangTimeout, func() { <-served }) {
			r.Violate("serve.expired.hang", "schedule", "Serve did not return although the connection had ended and every handler had returned (the handlers had overrun their grpc-timeout)", in, goroutineDump(), nil)
			sc.FailRead(io.EOF)
		}
		r.Eval(fmt.Sprintf("serve.expired/%s/%d", fault, nStreams), true)
		r.Count("c10.expired-then-end")
		if early || (atomic.LoadInt32(&exitedAtReturn) != int32(nStreams) && atomic.LoadInt32(&exitedAtReturn) >= 0) {
			r.Violate("serve.expired.early", "schedule", "Serve returned while a streaming handler of the connection was still running", in,
				fmt.Sprintf("handlers finished when Serve returned: %d of %d", atomic.LoadInt32(&exitedAtReturn), nStreams), "all")
		}
		hooks.Reset(false)
		settleGoroutines(0)
	}
}
