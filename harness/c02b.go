package main

import (
	"context"
	"fmt"
	"io"
	"time"

	goat "github.com/avos-io/goat"
	"github.com/avos-io/goat/gen/goatorepo"
	"google.golang.org/grpc/status"
	"google.golang.org/protobuf/proto"
	"google.golang.org/protobuf/types/known/anypb"
	"google.golang.org/protobuf/types/known/wrapperspb"
)

// c02CompletedThenConnFail: a stream completes successfully — every message and the OK trailer have
// been read from the client's transport — while the caller is slow to read (the last message is still
// being offered to it, the trailer is queued behind it). THEN the connection fails. The stream did
// complete: the caller must still get every message and io.EOF, not the connection's error.
func c02CompletedThenConnFail(r *Run) { c02CompletedThenConnFailWith(r, false) }

// withStatus (C03): the trailer that was read before the connection failed carries, in turn, OK, a
// plain status and a status with details; the caller must be told exactly that, not the connection's error.
func c02CompletedThenConnFailWith(r *Run, withStatus bool) {
	if !r.Want("completed") {
		return
	}
	det, _ := anypb.New(&wrapperspb.StringValue{Value: "detail-0"})
	statuses := []*goatorepo.ResponseStatus{
		{Code: 0, Message: "OK"},
		{Code: 5, Message: "gone"},
		{Code: 9, Message: "precondition \x00 é", Details: []*anypb.Any{det}},
	}
	body := func(i int) *goatorepo.Body {
		b, _ := goat_marshal(&wrapperspb.BytesValue{Value: srvMsg(i)})
		return &goatorepo.Body{Data: b}
	}
	reps := r.Scale(4, 60)
	for rep := 0; rep < reps && r.NumViolations() <= 4; rep++ {
		for k := 1; k <= 3; k++ {
			for _, fail := range []error{io.EOF, io.ErrUnexpectedEOF, errInjectedRead} {
				st := statuses[0]
				if withStatus {
					st = statuses[(rep+k)%len(statuses)]
				}
				in := map[string]any{"messages": k, "read_error": fmt.Sprint(fail), "rep": rep, "status_code": st.Code, "status_message": st.Message, "details": len(st.Details)}
				r.Progress("completed", in)
				hooks.Reset(true)
				sc := NewScript(0)
				sc.Out = make(chan *Rpc, 64)
				cc := goat.NewClientConn(sc, "c", "s")
				cs, err := cc.NewStream(context.Background(), descBidi, mBidi)
				if err != nil {
					r.Violate("completed.open", "history", "stream could not be opened", in, err.Error(), nil)
					hooks.Reset(false)
					return
				}
				open := <-sc.Out
				feed := func(e *Rpc) bool {
					select {
					case sc.In <- e:
						return true
					case <-time.After(hangTimeout):
						r.Violate("completed.stall", "history", "the client stopped reading its transport", in, goroutineDump(), nil)
						return false
					}
				}
				hdr := func() *goatorepo.RequestHeader { return &goatorepo.RequestHeader{Method: mBidi} }
				var got [][]byte
				ok := true
				// the caller keeps up with all but the last message
				for i := 0; i < k && ok; i++ {
					ok = feed(&Rpc{Id: open.Id, Header: hdr(), Body: body(i)})
					if ok && i < k-1 {
						b, err := recvB(cs)
						if err != nil {
							r.Violate("completed.recv", "history", "RecvMsg failed on a healthy stream", in, err.Error(), nil)
							ok = false
						}
						got = append(got, b)
					}
				}
				// the OK trailer: read from the transport, queued behind the message the caller has not taken
				ok = ok && feed(&Rpc{Id: open.Id, Header: hdr(), Status: proto.Clone(st).(*goatorepo.ResponseStatus), Trailer: &goatorepo.Trailer{}})
				if ok && !sc.WaitReads(k+2, hangTimeout) {
					r.Violate("completed.stall", "history", "the client's read loop did not come back for more input", in, goroutineDump(), nil)
					ok = false
				}
				if ok {
					sc.FailRead(fail)
					if !hooks.WaitFor(siteIs("mux.fail", 0), hangTimeout) {
						r.Violate("completed.stall", "history", "the client did not notice the failed read", in, goroutineDump(), nil)
						ok = false
					}
				}
				if ok {
					var term error
					if !within(hangTimeout, func() {
						for {
							b, err := recvB(cs)
							if err != nil {
								term = err
								return
							}
							got = append(got, b)
						}
					}) {
						r.Violate("completed.hang", "history", "RecvMsg did not return after the connection failed", in, goroutineDump(), nil)
					} else {
						want := make([][]byte, k)
						for i := range want {
							want[i] = srvMsg(i)
						}
						if !seqEqual(got, want) {
							r.Violate("completed.s2c", "history", "caller received something other than exactly what was delivered before the connection failed", in, seqStr(got), seqStr(want))
						}
						if st.Code != 0 {
							gs := status.Convert(term)
							same := term != io.EOF && int32(gs.Code()) == st.Code && gs.Message() == st.Message && len(gs.Proto().GetDetails()) == len(st.Details)
							for i := 0; same && i < len(st.Details); i++ {
								same = proto.Equal(gs.Proto().GetDetails()[i], st.Details[i])
							}
							if !same {
								r.Violate("completed.status", "history", "the stream's status trailer had been read before the connection failed, but the caller was told something else", in, fmt.Sprint(term), fmt.Sprintf("code=%d message=%q details=%d", st.Code, st.Message, len(st.Details)))
							}
							r.Count("completed.status")
						} else if term != io.EOF {
							r.Violate("completed.eof", "history", "a stream whose messages and OK trailer had all been read before the connection failed was reported to the caller as failed", in, fmt.Sprint(term), "EOF")
						}
					}
				}
				r.Eval(fmt.Sprintf("completed/%d/%v/%d", k, fail, rep), true)
				r.Count("completed.connfail")
				sc.FailRead(io.ErrUnexpectedEOF)
				hooks.Reset(false)
				if !ok {
					return
				}
			}
		}
	}
}

// c02CutMidStream: the connection's read side fails — also with a bare io.EOF, which is what a cleanly
// closed byte-stream transport reports — while a stream is still open (messages delivered, no trailer):
// the caller gets what was delivered and then an ERROR; a stream that did not complete is never
// reported as complete.
func c02CutMidStream(r *Run) {
	if !r.Want("cut") {
		return
	}
	for rep, reps := 0, r.Scale(3, 40); rep < reps && r.NumViolations() <= 4; rep++ {
		for k := 0; k <= 2; k++ {
			for _, fail := range []error{io.EOF, fmt.Errorf("wrapped: %w", io.EOF), io.ErrUnexpectedEOF, errInjectedRead} {
				in := map[string]any{"messages_delivered": k, "read_error": fmt.Sprint(fail), "rep": rep}
				r.Progress("cut", in)
				hooks.Reset(true)
				sc := NewScript(0)
				sc.Out = make(chan *Rpc, 64)
				cc := goat.NewClientConn(sc, "c", "s")
				cs, err := cc.NewStream(context.Background(), descBidi, mBidi)
				if err != nil {
					hooks.Reset(false)
					return
				}
				open := <-sc.Out
				ok := true
				for i := 0; i < k && ok; i++ {
					b, _ := goat_marshal(&wrapperspb.BytesValue{Value: srvMsg(i)})
					select {
					case sc.In <- &Rpc{Id: open.Id, Header: &goatorepo.RequestHeader{Method: mBidi}, Body: &goatorepo.Body{Data: b}}:
						if _, err := recvB(cs); err != nil {
							ok = false
						}
					case <-time.After(hangTimeout):
						ok = false
					}
				}
				if ok {
					sc.FailRead(fail)
					var term error
					if !within(hangTimeout, func() { _, term = recvB(cs) }) {
						r.Violate("cut.hang", "history", "RecvMsg did not return after the connection failed", in, goroutineDump(), nil)
					} else if term == nil || term == io.EOF {
						r.Violate("cut.eof", "history", "a stream cut off by a connection failure (no trailer was ever received) was reported to the caller as complete", in, fmt.Sprint(term), "an error other than io.EOF")
					}
				}
				r.Eval(fmt.Sprintf("cut/%d/%v/%d", k, fail, rep), true)
				r.Count("cut.connfail")
				sc.FailRead(io.ErrUnexpectedEOF)
				hooks.Reset(false)
			}
		}
	}
}
