package main

import (
	"sort"
	"time"
)

func init() { register("C15", runC15) }

// runC15 runs the workloads of the other properties (C01–C04, C06, C07, C09–C11, C13, C14, C16–C18, C20 —
// whichever are registered) in one process. It is meant to be built with -race: a report of the race
// detector is what the check script looks for. The other properties' monitors are silenced here; each
// has its own check.
func runC15(r *Run) {
	r.quiet = true
	settleFast = true
	scaleCapped = true
	ids := make([]string, 0, len(props))
	for id := range props {
		if id != "C15" && id != "C08" && id != "C12" && id != "C19" {
			ids = append(ids, id)
		}
	}
	sort.Strings(ids)
	for _, id := range ids {
		if !r.Want(id) {
			continue
		}
		r.Progress("workload", id)
		before := r.evals
		t0 := time.Now()
		props[id](r)
		r.mu.Lock()
		r.dist["workload."+id] += r.evals - before
		r.distinct["workload/"+id] = struct{}{}
		r.mu.Unlock()
		r.CountN("workload.seconds."+id, int(time.Since(t0).Seconds()+0.5))
		r.Sample(map[string]any{"workload": id, "executions": r.evals - before, "seconds": time.Since(t0).Seconds()})
	}
	if r.Want("apiuse") {
		c15APIUse(r)
	}
	r.quiet = false
}
