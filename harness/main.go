package main

import (
	"flag"
	"fmt"
	"os"
	"runtime"
	"sort"
	"time"

	"github.com/rs/zerolog"
)

var props = map[string]func(*Run){}

func register(id string, f func(*Run)) { props[id] = f }

func main() {
	prop := flag.String("prop", "", "property id, e.g. C04")
	tier := flag.String("tier", "quick", "quick | thorough")
	seed := flag.Int64("seed", 1, "PRNG seed")
	out := flag.String("out", "", "output directory")
	only := flag.String("only", "", "run only scenarios with this name prefix (replay)")
	procs := flag.Int("procs", 0, "GOMAXPROCS (0 = default)")
	list := flag.Bool("list", false, "list properties")
	flag.Parse()

	if *list {
		ids := make([]string, 0, len(props))
		for id := range props {
			ids = append(ids, id)
		}
		sort.Strings(ids)
		for _, id := range ids {
			fmt.Println(id)
		}
		return
	}
	f, ok := props[*prop]
	if !ok || *out == "" {
		fmt.Fprintln(os.Stderr, "usage: goatharness -prop Cxx -out dir [-tier quick|thorough] [-seed n] [-only scenario]")
		os.Exit(2)
	}
	if *procs > 0 {
		runtime.GOMAXPROCS(*procs)
	}
	zerolog.SetGlobalLevel(zerolog.Disabled)
	hooks.Install()
	hooks.Reset(false)

	r, err := NewRun(*prop, *tier, *seed, *out, *only)
	if err != nil {
		fmt.Fprintln(os.Stderr, err)
		os.Exit(2)
	}
	start := time.Now()
	f(r)
	if err := r.Finish(time.Since(start)); err != nil {
		fmt.Fprintln(os.Stderr, err)
		os.Exit(2)
	}
	fmt.Printf("harness %s: evaluations=%d violations=%d\n", *prop, r.evals, len(r.violations))
}
