package main

import (
	"context"
	"fmt"
	"io"
	"math/rand"
	"runtime"
	"strings"
	"sync"
	"sync/atomic"
	"time"

	goat "github.com/avos-io/goat"
	"github.com/avos-io/goat/gen/goatorepo"
	"google.golang.org/grpc"
	"google.golang.org/grpc/status"
	"google.golang.org/protobuf/types/known/wrapperspb"
)

func init() { register("TRACECS", func(r *Run) { csTraceScenario(r, 0) }) }

// csTraceScenario (strand C for ONE client stream): a real clientStream on a real connection over a
// scripted transport, a scripted peer, user goroutines calling RecvMsg / SendMsg / CloseSend /
// Header / Trailer, and one disturbance (the caller's cancel, a transport read failure, a transport
// write failure). The hook events of the stream, the call/return pseudo-events of the user calls and
// the transport tap's events are handed, in log order, to the Lean driver, which replays them
// against Goat.ClientStream.step (op "cstrace", Goat/Drv/CsReplay.lean).
func csTraceScenario(r *Run, variant int) {
	rounds := r.Scale(100, 5000)
	for round := 0; round < rounds; round++ {
		rng := r.Rand(fmt.Sprintf("cstrace/%d/%d", variant, round))
		settleGoroutines(csLeaked)
		hooks.Reset(true)
		csYieldJitter(rand.New(rand.NewSource(rng.Int63())))
		ok := csTraceOne(r, round, rng)
		hooks.Reset(false)
		if !ok || r.NumViolations() > 4 {
			return
		}
	}
}

// csLeaked: goroutines of the library (or user calls parked inside it) that a reported hang left behind.
var csLeaked int

// csYieldJitter makes the library's yield sites of the stream and of the multiplexer's hand-over random
// scheduling points (variety only): a call that has passed its done-check, the read loop about to enter
// its finishing block, the multiplexer about to deliver.
func csYieldJitter(rng *rand.Rand) {
	var mu sync.Mutex
	f := func(uint64) {
		mu.Lock()
		k, d := rng.Intn(8), rng.Intn(300)
		mu.Unlock()
		switch {
		case k < 4:
		case k < 6:
			runtime.Gosched()
		default:
			time.Sleep(time.Duration(5+d) * time.Microsecond)
		}
	}
	for _, site := range []string{"cs.recv.afterDoneCheck", "cs.send.afterDoneCheck", "cs.fin.beforeLock", "cs.rl.beforeRead", "mux.beforeDeliver"} {
		hooks.OnYield(site, f)
	}
}

// csTap forwards to the scripted transport and logs, in the goroutine that wrote and after the
// transport accepted it, what kind of envelope went out.
type csTap struct{ inner *Script }

func (t *csTap) Read(ctx context.Context) (*Rpc, error) { return t.inner.Read(ctx) }

func (t *csTap) Write(ctx context.Context, r *Rpc) error {
	err := t.inner.Write(ctx, r)
	if err == nil {
		switch {
		case r.GetReset_() != nil:
			hooks.Inject("w", r.Id, "r")
		case r.Body != nil:
			hooks.Inject("w", r.Id, "b:"+hx(r.Body.Data))
		case r.Trailer != nil:
			hooks.Inject("w", r.Id, "h")
		default:
			hooks.Inject("w", r.Id, "o")
		}
	}
	return err
}

// csErr renders an error exactly as the library's verifErr does.
func csErr(err error) string {
	switch {
	case err == nil:
		return "nil"
	case err == io.EOF:
		return "eof"
	default:
		return fmt.Sprintf("c%d", int(status.Code(err)))
	}
}

// csTermName renders csErr's output the way the model names terminal statuses (CsReplay.showTerm).
func csTermName(e string) string {
	switch e {
	case "nil", "eof":
		return e
	case "c14":
		return "unavailable"
	case "c1", "c4":
		return "ctxErr"
	case "c2":
		return "muxErr"
	case "c13":
		return "internalMeta"
	}
	return "status" + strings.TrimPrefix(e, "c")
}

// csClass mirrors the library's verifClass: the harness's own rendering of what it sent.
func csClass(r *Rpc) string {
	var fl strings.Builder
	for _, kv := range r.GetHeader().GetHeaders() {
		if strings.HasSuffix(strings.ToLower(kv.Key), "-bin") && kv.Value == "!!" {
			fl.WriteByte('m')
			break
		}
	}
	if r.GetReset_() != nil {
		fl.WriteByte('r')
	}
	if r.Trailer != nil {
		fl.WriteByte('t')
		for _, kv := range r.Trailer.GetMetadata() {
			if strings.HasSuffix(strings.ToLower(kv.Key), "-bin") && kv.Value == "!!" {
				fl.WriteByte('x')
				break
			}
		}
		if r.Trailer.GetMetadata() == nil {
			fl.WriteByte('e')
		}
	}
	if r.Header == nil {
		fl.WriteByte('n')
	}
	if fl.Len() == 0 {
		fl.WriteByte('-')
	}
	body := "_"
	if r.Body != nil {
		body = hx(r.Body.Data)
	}
	return fmt.Sprintf("%s:%d:%s", fl.String(), r.GetStatus().GetCode(), body)
}

func csBodyData(tag string) []byte {
	b, _ := goat_marshal(&wrapperspb.BytesValue{Value: []byte(tag)})
	return b
}

// csPeerScript draws what the peer sends: envelopes for the stream (id), for a decoy stream and for
// ids nobody owns; possibly a terminal envelope; possibly more after it.
func csPeerScript(rng *rand.Rand, id, decoy uint64) []*Rpc {
	hdr := func(md int) *goatorepo.RequestHeader {
		h := &goatorepo.RequestHeader{Method: mBidi, Source: "s", Destination: "c"}
		switch md {
		case 1:
			h.Headers = []*goatorepo.KeyValue{{Key: "k", Value: "v"}}
		case 2:
			h.Headers = []*goatorepo.KeyValue{{Key: "k-bin", Value: "!!"}}
		}
		return h
	}
	nb := 0
	body := func() *goatorepo.Body {
		nb++
		return &goatorepo.Body{Data: csBodyData(fmt.Sprintf("p%d", nb))}
	}
	var out []*Rpc
	one := func(target uint64) *Rpc {
		switch k := rng.Intn(20); {
		case k < 9:
			return &Rpc{Id: target, Header: hdr(rng.Intn(2)), Body: body()}
		case k < 11:
			return &Rpc{Id: target, Body: body()} // no header at all
		case k < 13:
			return &Rpc{Id: target, Header: hdr(1)} // header only
		case k < 14:
			return &Rpc{Id: target, Header: hdr(0)}
		case k < 15:
			return &Rpc{Id: target, Header: hdr(2), Body: body()} // undecodable metadata (fatal only when first)
		case k < 16:
			return &Rpc{Id: target, Header: hdr(0), Status: &goatorepo.ResponseStatus{Code: 7, Message: "m"}} // status without trailer: ignored
		case k < 17:
			return &Rpc{Id: target} // nothing at all
		default:
			return &Rpc{Id: target, Header: hdr(rng.Intn(2)), Body: body()}
		}
	}
	n := rng.Intn(10)
	if rng.Intn(6) == 0 {
		n = 0
	}
	if rng.Intn(10) == 0 { // the very first envelope of the stream carries undecodable metadata
		e := &Rpc{Id: id, Header: hdr(2)}
		if rng.Intn(2) == 0 {
			e.Body = body()
		}
		out = append(out, e)
	}
	for i := 0; i < n; i++ {
		switch k := rng.Intn(10); {
		case k == 0:
			out = append(out, one(id+5+uint64(rng.Intn(3)))) // nobody's id
		case k == 1 && decoy != 0:
			out = append(out, one(decoy))
		default:
			out = append(out, one(id))
		}
	}
	codes := []int32{3, 5, 7, 9, 10, 11}
	switch k := rng.Intn(12); {
	case k < 3: // OK trailer
		tr := &goatorepo.Trailer{}
		if rng.Intn(2) == 0 {
			tr.Metadata = []*goatorepo.KeyValue{{Key: "t", Value: "v"}}
		}
		e := &Rpc{Id: id, Header: hdr(0), Trailer: tr}
		if rng.Intn(2) == 0 {
			e.Status = &goatorepo.ResponseStatus{Code: 0, Message: "OK"}
		}
		if rng.Intn(5) == 0 {
			e.Body = body() // a body riding on the trailer is never delivered
		}
		out = append(out, e)
	case k < 5: // error status
		tr := &goatorepo.Trailer{}
		if rng.Intn(2) == 0 {
			tr.Metadata = []*goatorepo.KeyValue{{Key: "t", Value: "v"}}
		}
		out = append(out, &Rpc{Id: id, Header: hdr(0), Trailer: tr, Status: &goatorepo.ResponseStatus{Code: codes[rng.Intn(len(codes))], Message: "m"}})
	case k < 6: // reset as the server sends it
		out = append(out, &Rpc{Id: id, Header: hdr(0), Trailer: &goatorepo.Trailer{}, Reset_: &goatorepo.Reset{Type: "RST_STREAM"}})
	case k < 7: // reset without trailer
		out = append(out, &Rpc{Id: id, Header: hdr(0), Reset_: &goatorepo.Reset{Type: "RST_STREAM"}})
	case k < 8: // trailer with undecodable metadata
		out = append(out, &Rpc{Id: id, Header: hdr(0), Status: &goatorepo.ResponseStatus{Code: 0}, Trailer: &goatorepo.Trailer{Metadata: []*goatorepo.KeyValue{{Key: "t-bin", Value: "!!"}}}})
	default: // the peer never ends the stream
	}
	for i := rng.Intn(3); i > 0; i-- { // the peer goes on after the end
		out = append(out, one(id))
	}
	return out
}

// csJitter is a random short pause between two steps of an actor (variety only; nothing depends on it).
func csJitter(rng *rand.Rand) {
	switch rng.Intn(6) {
	case 0, 1:
	case 2, 3:
		runtime.Gosched()
	case 4:
		time.Sleep(time.Duration(1+rng.Intn(40)) * time.Microsecond)
	default:
		time.Sleep(time.Duration(50+rng.Intn(300)) * time.Microsecond)
	}
}

type csUser struct {
	cs   grpc.ClientStream
	id   uint64
	seq  *atomic.Int64
	msgs *atomic.Int64
}

func (u *csUser) recv() error {
	hooks.Inject("rc", u.id, "")
	b, err := recvB(u.cs)
	if err == nil {
		u.msgs.Add(1)
		hooks.Inject("rr", u.id, "msg:"+hx(csBodyData(string(b))))
	} else {
		hooks.Inject("rr", u.id, "err:"+csErr(err))
	}
	return err
}

func (u *csUser) send(tag string) {
	hooks.Inject("sc", u.id, hx(csBodyData(tag)))
	err := sendB(u.cs, []byte(tag))
	hooks.Inject("sr", u.id, csErr(err))
}

func (u *csUser) sendBad() {
	hooks.Inject("sc", u.id, "bad")
	err := u.cs.SendMsg(struct{}{}) // not a proto.Message: Marshal fails
	hooks.Inject("sr", u.id, csErr(err))
}

func (u *csUser) closeSend() {
	hooks.Inject("cc", u.id, "")
	err := u.cs.CloseSend()
	if err == nil {
		hooks.Inject("cr", u.id, "nil")
	} else {
		hooks.Inject("cr", u.id, "err")
	}
}

func (u *csUser) header() {
	k := u.seq.Add(1)
	hooks.Inject("hc", u.id, fmt.Sprint(k))
	md, err := u.cs.Header()
	hooks.Inject("hr", u.id, fmt.Sprintf("%d:%d:%s", k, b2i(md != nil), csErr(err)))
}

func (u *csUser) trailer() {
	k := u.seq.Add(1)
	hooks.Inject("tc", u.id, fmt.Sprint(k))
	md := u.cs.Trailer()
	if md == nil {
		hooks.Inject("tr", u.id, fmt.Sprintf("%d:nil", k))
	} else {
		hooks.Inject("tr", u.id, fmt.Sprintf("%d:md", k))
	}
}

// csPrograms draws the user programs: op letters r (RecvMsg) s (SendMsg) b (SendMsg of an
// unmarshalable message) c (CloseSend) h (Header) t (Trailer), for 1 to 3 goroutines. RecvMsg is
// only ever called from one goroutine, SendMsg/CloseSend from one goroutine.
func csPrograms(rng *rand.Rand) []string {
	var recv, send, aux []byte
	for i := rng.Intn(11); i > 0; i-- {
		switch k := rng.Intn(10); {
		case k < 8:
			recv = append(recv, 'r')
		case k < 9:
			recv = append(recv, 'h')
		default:
			recv = append(recv, 't')
		}
	}
	closed := false
	for i := rng.Intn(8); i > 0; i-- {
		switch k := rng.Intn(20); {
		case k < 12 && !closed:
			send = append(send, 's')
		case k < 13 && !closed:
			send = append(send, 'b')
		case k < 16 && !closed:
			send = append(send, 'c')
			closed = true
		case k < 18:
			send = append(send, 'h')
		default:
			send = append(send, 't')
		}
	}
	for i := rng.Intn(4); i > 0; i-- {
		aux = append(aux, "ht"[rng.Intn(2)])
	}
	switch rng.Intn(3) {
	case 0: // one goroutine: a random merge
		var all []byte
		rs, ss := recv, append(send, aux...)
		for len(rs)+len(ss) > 0 {
			if len(ss) == 0 || (len(rs) > 0 && rng.Intn(2) == 0) {
				all = append(all, rs[0])
				rs = rs[1:]
			} else {
				all = append(all, ss[0])
				ss = ss[1:]
			}
		}
		return []string{string(all)}
	case 1:
		return []string{string(recv), string(append(send, aux...))}
	default:
		return []string{string(recv), string(send), string(aux)}
	}
}

func csTraceOne(r *Run, round int, rng *rand.Rand) bool {
	sc := NewScript(0)
	sc.Out = make(chan *Rpc, 1<<12)
	cc := goat.NewClientConn(&csTap{sc}, "c", "s")
	stop := make(chan struct{})
	var bg sync.WaitGroup
	decoyCtx, decoyCancel := context.WithCancel(context.Background())
	ctx, cancel := context.WithCancel(context.Background())
	cleanup := func() {
		close(stop)
		decoyCancel() // a decoy nobody reads from would otherwise park the connection's read loop (known finding #10)
		cancel()
		sc.FailRead(io.ErrClosedPipe)
		sc.FailWrite(io.ErrClosedPipe)
		cc.Close()
		bg.Wait()
		settleGoroutines(csLeaked)
	}
	hung := func(what string, input any) bool {
		r.Violate("cstrace.hang", "history", what, input, goroutineDump(), nil)
		hooks.Reset(false)
		close(stop)
		decoyCancel()
		cancel()
		sc.FailRead(io.ErrClosedPipe)
		sc.FailWrite(io.ErrClosedPipe)
		cc.Close()
		bg.Wait()
		// whatever is still parked inside the library now stays there: later rounds tolerate it
		time.Sleep(20 * time.Millisecond)
		csLeaked, _ = goatGoroutines()
		return true
	}
	// sometimes another stream, or a unary call, has used the connection before: the id is not 1
	var decoy uint64
	switch rng.Intn(4) {
	case 0:
		if _, err := cc.NewStream(decoyCtx, descBidi, mBidi); err == nil {
			decoy = 1
		}
	case 1:
		c, cancel := context.WithCancel(context.Background())
		cancel()
		callUnary(c, cc, []byte("x")) // fails at once; uses up id 1
	}
	cs, err := cc.NewStream(ctx, descBidi, mBidi)
	if err != nil {
		r.Violate("cstrace.open", "history", "stream could not be opened: "+err.Error(), round, nil, nil)
		cleanup()
		return false
	}
	var id uint64
	for _, e := range hooks.Events() {
		if e.Site == "mux.alloc" && e.Detail == "stream" {
			id = e.ID
		}
	}
	script := csPeerScript(rng, id, decoy)
	progs := csPrograms(rng)
	disturb := rng.Intn(20) // 0-6 nothing, 7-12 cancel, 13-15 read failure, 16-17 write failure, 18-19 write failure then cancel
	disturbAt := rng.Intn(60)
	input := map[string]any{"round": round, "seed": r.Seed, "progs": progs, "disturb": disturb, "at": disturbAt, "envelopes": len(script)}
	r.Progress("cstrace", input)

	// the peer
	var sentClasses []string
	var sentMu sync.Mutex
	feederDone := make(chan struct{})
	bg.Add(1)
	frng := rand.New(rand.NewSource(rng.Int63()))
	go func() {
		defer bg.Done()
		defer close(feederDone)
		for _, e := range script {
			csJitter(frng)
			if e.Id == id {
				sentMu.Lock()
				sentClasses = append(sentClasses, csClass(e))
				sentMu.Unlock()
			}
			select {
			case sc.In <- e:
			case <-stop:
				return
			}
		}
	}()

	// the users
	u := &csUser{cs: cs, id: id, seq: new(atomic.Int64), msgs: new(atomic.Int64)}
	var users sync.WaitGroup
	for g, prog := range progs {
		users.Add(1)
		urng := rand.New(rand.NewSource(rng.Int63()))
		go func(g int, prog string) {
			defer users.Done()
			for i, op := range prog {
				csJitter(urng)
				switch op {
				case 'r':
					u.recv()
				case 's':
					u.send(fmt.Sprintf("u%d.%d", g, i))
				case 'b':
					u.sendBad()
				case 'c':
					u.closeSend()
				case 'h':
					u.header()
				case 't':
					u.trailer()
				}
			}
		}(g, prog)
	}
	usersDone := make(chan struct{})
	go func() { users.Wait(); close(usersDone) }()

	// the disturbance, after a random number of logged events (or when nothing more happens)
	cancelled, wfail := false, false
	doCancel := func() {
		cancelled = true
		hooks.Inject("cancel", id, "")
		cancel()
		hooks.Inject("cancelled", id, "")
	}
	if disturb >= 7 {
		hooks.WaitFor(func(Event) bool { return len(hooks.eventsUnlocked()) >= disturbAt }, 2*time.Millisecond)
		switch {
		case disturb <= 12:
			doCancel()
		case disturb <= 15:
			sc.FailRead([]error{io.EOF, errInjectedRead, io.ErrUnexpectedEOF, fmt.Errorf("transport: %w", io.EOF)}[rng.Intn(4)])
		case disturb <= 17:
			wfail = true
			sc.FailWrite(errInjectedWrite)
		default:
			wfail = true
			sc.FailWrite(errInjectedWrite)
			csJitter(rng)
			doCancel()
		}
	}
	finished := func() bool {
		return hooks.WaitFor(siteIs("cs.fin.done", id), 0)
	}
	// let the run play out; if the stream does not end by itself, the caller cancels
	grace := time.After(time.Duration(1+rng.Intn(3)) * time.Millisecond)
	select {
	case <-usersDone:
		select {
		case <-feederDone:
		case <-grace:
		}
	case <-grace:
	}
	if !cancelled && !finished() {
		doCancel()
	}
	if !within(hangTimeout, func() { <-usersDone }) {
		return hung("a user call did not return after the stream was cancelled", input)
	}
	if !hooks.WaitFor(siteIs("cs.fin.done", id), hangTimeout) {
		return hung("the stream's read loop did not finish", input)
	}
	// post-mortem probes: how the stream ended, as every later call must report it
	var probeErr string
	if !within(hangTimeout, func() {
		probeErr = csErr(u.recv())
		for i := rng.Intn(3); i > 0; i-- {
			switch rng.Intn(4) {
			case 0:
				u.header()
			case 1:
				u.trailer()
			case 2:
				u.closeSend()
			default:
				u.send("late")
			}
		}
	}) {
		return hung("a call on the finished stream did not return", input)
	}
	evs := hooks.Events()
	hooks.Reset(false)
	cleanup()

	// what the wire saw
	resets := 0
	for len(sc.Out) > 0 {
		if o := <-sc.Out; o.Id == id && o.GetReset_() != nil {
			resets++
		}
	}
	var parts, gets []string
	for _, e := range evs {
		if e.ID != id {
			continue
		}
		switch e.Site {
		case "cs.rl.get":
			parts = append(parts, "get:"+e.Detail)
			gets = append(gets, e.Detail)
		case "cs.rl.read":
			parts = append(parts, "rd")
		case "cs.rl.readerr":
			parts = append(parts, "rerr:"+e.Detail)
		case "cs.rl.ctx":
			parts = append(parts, "rlctx")
		case "cs.rl.put":
			parts = append(parts, "put")
		case "cs.fin.closeRCh":
			parts = append(parts, "closerch")
		case "mux.unregister":
			parts = append(parts, "unreg:"+e.Detail)
		case "cs.fin.teardown":
			parts = append(parts, "teardown:"+e.Detail)
		case "cs.fin.done":
			parts = append(parts, "findone")
		case "w":
			if e.Detail != "o" {
				parts = append(parts, "w:"+e.Detail)
			}
		case "rc", "cc", "cancel", "cancelled":
			parts = append(parts, e.Site)
		case "cs.recv.checked":
			parts = append(parts, "rchk")
		case "cs.recv.ret":
			parts = append(parts, "rret:"+e.Detail)
		case "cs.send.checked":
			parts = append(parts, "schk")
		case "cs.send.fail":
			parts = append(parts, "sfail:"+e.Detail)
		case "cs.send.ret":
			parts = append(parts, "sret:"+e.Detail)
		case "cs.close.checked":
			parts = append(parts, "cchk")
		case "cs.close.ret":
			parts = append(parts, "cret:"+e.Detail)
		case "rr", "sc", "sr", "cr", "hc", "hr", "tc", "tr":
			parts = append(parts, e.Site+":"+e.Detail)
		}
	}
	// the read loop got the envelopes the peer sent for this id, in order (a monitor of the harness's
	// own: the replay takes the shapes from the library's events)
	sentMu.Lock()
	for i, g := range gets {
		if i >= len(sentClasses) || sentClasses[i] != g {
			r.Violate("cstrace.inbox", "history", "the read loop reports an envelope the peer did not send at that position", input, gets, sentClasses)
			break
		}
	}
	sentMu.Unlock()
	opts := "-"
	rst := fmt.Sprint(resets)
	if wfail {
		opts, rst = "w", "?"
	}
	r.Case("cstrace", opts+"|"+strings.Join(parts, ";"), fmt.Sprintf("accept:msgs=%d,rst=%s,end=%s", u.msgs.Load(), rst, csTermName(probeErr)))
	r.Trace()
	r.CountN("cstrace.events", len(parts))
	r.Count(fmt.Sprintf("cstrace.goroutines%d", len(progs)))
	r.Count("cstrace.end." + csTermName(probeErr))
	kind := "none"
	switch {
	case disturb >= 18:
		kind = "writefail+cancel"
	case disturb >= 16:
		kind = "writefail"
	case disturb >= 13:
		kind = "readfail"
	case disturb >= 7:
		kind = "cancel"
	}
	r.Count("cstrace.disturb." + kind)
	if resets > 0 {
		r.Count("cstrace.reset")
	}
	return true
}
