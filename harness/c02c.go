package main

import (
	"context"
	"fmt"
	"sync/atomic"
	"time"

	"github.com/avos-io/goat/gen/goatorepo"
)

// c02ViaProxy: the stream workloads relayed client – goat.Proxy – Demux – Server, with an interceptor
// (free to take its time: an address lookup, a cold cache) that is slow for ONE envelope of a stream and
// fast for the next ones. Whatever the proxy does internally, each side receives exactly what the other
// sent, in order (C02), and the per-call order of envelopes is preserved (C05). Message counts stay far
// below the proxy's per-destination buffer.
func c02ViaProxy(r *Run) {
	if !r.Want("viaproxy") {
		return
	}
	reps := r.Scale(1, 12)
	for rep := 0; rep < reps && r.NumViolations() <= 4; rep++ {
		for slowAt := 0; slowAt < 4; slowAt++ {
			var seen atomic.Int64
			c01ProxyIntercept = func(h *goatorepo.RequestHeader) error {
				if h.GetSource() == "c0" && int(seen.Add(1)-1) == slowAt {
					time.Sleep(40 * time.Millisecond)
				}
				return nil
			}
			n := c01Proxy(rep%2 == 0, 1)
			c01ProxyIntercept = nil
			log := NewHandlerLog()
			InstallPrograms(n.impl, log, nil)
			cases := []struct{ method, prog, client string }{
				{mBidi, "echo", "sendall"}, {mCliStream, "aftereof:1", "sendall"}, {mBidi, "burst:3", "conc"},
			}
			c := cases[(rep+slowAt)%len(cases)]
			tag := fmt.Sprintf("vp%d-%d", rep, slowAt)
			in := map[string]any{"topology": "client-proxy-demux-server", "interceptor_slow_for_envelope": slowAt, "method": c.method, "handler": c.prog, "client": c.client, "messages": 4}
			r.Progress("viaproxy", in)
			var o *StreamObs
			if !within(3*hangTimeout, func() {
				ctx, cancel := context.WithTimeout(context.Background(), 2*hangTimeout)
				defer cancel()
				o = runStreamCall(ctx, n.ccs[0], c.method, tag, c.prog, c.client, 4, nil)
			}) {
				r.Violate("viaproxy.hang", "history", "a stream relayed by the proxy did not finish", in, goroutineDump(), nil)
				n.close()
				return
			}
			checkStream(r, "viaproxy", o, log, in)
			r.Eval(fmt.Sprintf("viaproxy/%d/%d", rep, slowAt), true)
			r.Count("viaproxy.streams")
			n.close()
		}
	}
}
