package main

import (
	"context"
	"fmt"
	"io"
	"sync"
	"sync/atomic"
	"time"

	"github.com/avos-io/goat/gen/goatorepo"
	"google.golang.org/grpc"
	"google.golang.org/grpc/metadata"
	"google.golang.org/protobuf/types/known/wrapperspb"
)

// c02ViaProxy: the stream workloads relayed client – goat.Proxy – Demux – Server, with an interceptor
// (free to take its time: an address lookup, a cold cache) that is slow for ONE envelope of a stream and
// fast for the next ones. Whatever the proxy does internally, each side receives exactly what the other
// sent, in order (C02), and the per-call order of envelopes is preserved (C05). Message counts stay far
// below the proxy's per-destination buffer.
func c02ViaProxy(r *Run) {
	if !r.Want("viaproxy") {
		return
	}
	reps := r.Scale(1, 12)
	for rep := 0; rep < reps && r.NumViolations() <= 4; rep++ {
		for slowAt := 0; slowAt < 4; slowAt++ {
			var seen atomic.Int64
			c01ProxyIntercept = func(h *goatorepo.RequestHeader) error {
				if h.GetSource() == "c0" && int(seen.Add(1)-1) == slowAt {
					time.Sleep(40 * time.Millisecond)
				}
				return nil
			}
			n := c01Proxy(rep%2 == 0, 1)
			c01ProxyIntercept = nil
			log := NewHandlerLog()
			InstallPrograms(n.impl, log, nil)
			cases := []struct{ method, prog, client string }{
				{mBidi, "echo", "sendall"}, {mCliStream, "aftereof:1", "sendall"}, {mBidi, "burst:3", "conc"},
			}
			c := cases[(rep+slowAt)%len(cases)]
			tag := fmt.Sprintf("vp%d-%d", rep, slowAt)
			in := map[string]any{"topology": "client-proxy-demux-server", "interceptor_slow_for_envelope": slowAt, "method": c.method, "handler": c.prog, "client": c.client, "messages": 4}
			r.Progress("viaproxy", in)
			var o *StreamObs
			if !within(3*hangTimeout, func() {
				ctx, cancel := context.WithTimeout(context.Background(), 2*hangTimeout)
				defer cancel()
				o = runStreamCall(ctx, n.ccs[0], c.method, tag, c.prog, c.client, 4, nil)
			}) {
				r.Violate("viaproxy.hang", "history", "a stream relayed by the proxy did not finish", in, goroutineDump(), nil)
				n.close()
				return
			}
			checkStream(r, "viaproxy", o, log, in)
			r.Eval(fmt.Sprintf("viaproxy/%d/%d", rep, slowAt), true)
			r.Count("viaproxy.streams")
			n.close()
		}
	}
}

// c02ReusedMessage: both sides pass ONE message object to every RecvMsg of a stream (legal: RecvMsg
// must overwrite it), and the sequence contains messages whose encoding is empty (the zero message)
// after non-empty ones. Each side still receives exactly the sequence the other side sent.
func c02ReusedMessage(r *Run) {
	if !r.Want("reusedmsg") {
		return
	}
	seq := [][]byte{[]byte("7"), nil, []byte("3"), nil, nil, []byte("9"), nil, []byte("abc"), nil}
	for _, serialise := range []bool{true, false} {
		for _, method := range []string{mBidi, mCliStream} {
			in := map[string]any{"method": method, "serialise": serialise, "messages": seqStr(seq), "receivers_reuse_one_message_object": true}
			r.Progress("reusedmsg", in)
			rig := NewRig(RigOpt{Serialise: serialise})
			var hgot [][]byte
			hdone := make(chan struct{})
			rig.Impl.SetStream(func(m string, ss grpc.ServerStream) error {
				defer close(hdone)
				msg := new(wrapperspb.BytesValue) // reused for every RecvMsg
				for {
					if err := ss.RecvMsg(msg); err != nil {
						break
					}
					hgot = append(hgot, append([]byte{}, msg.Value...))
					if m == mBidi {
						if err := ss.SendMsg(&wrapperspb.BytesValue{Value: msg.Value}); err != nil {
							return err
						}
					}
				}
				if m == mCliStream {
					return ss.SendMsg(&wrapperspb.BytesValue{Value: []byte("sum")})
				}
				return nil
			})
			var cgot [][]byte
			var term error
			ok := within(3*hangTimeout, func() {
				ctx, cancel := context.WithTimeout(context.Background(), 2*hangTimeout)
				defer cancel()
				cs, err := rig.CC.NewStream(ctx, descOf(method), method)
				if err != nil {
					term = err
					return
				}
				msg := new(wrapperspb.BytesValue) // reused for every RecvMsg
				for _, p := range seq {
					if err := cs.SendMsg(&wrapperspb.BytesValue{Value: p}); err != nil {
						term = err
						return
					}
					if method == mBidi {
						if err := cs.RecvMsg(msg); err != nil {
							term = err
							return
						}
						cgot = append(cgot, append([]byte{}, msg.Value...))
					}
				}
				cs.CloseSend()
				for {
					if err := cs.RecvMsg(msg); err != nil {
						term = err
						break
					}
				}
				<-hdone
			})
			r.Eval(fmt.Sprintf("reusedmsg/%s/%v", method, serialise), true)
			r.Count("reusedmsg.streams")
			norm := func(l [][]byte) [][]byte {
				o := make([][]byte, len(l))
				for i, b := range l {
					o[i] = append([]byte{}, b...)
				}
				return o
			}
			if !ok {
				r.Violate("reusedmsg.hang", "history", "the stream did not finish", in, goroutineDump(), nil)
			} else {
				if !seqEqual(norm(hgot), norm(seq)) {
					r.Violate("reusedmsg.c2s", "history", "the handler (reusing one message object for RecvMsg) did not receive exactly what the caller sent", in, seqStr(hgot), seqStr(seq))
				}
				if method == mBidi && !seqEqual(norm(cgot), norm(seq)) {
					r.Violate("reusedmsg.s2c", "history", "the caller (reusing one message object for RecvMsg) did not receive exactly what the handler sent", in, seqStr(cgot), seqStr(seq))
				}
				if term == nil || term.Error() != "EOF" {
					r.Violate("reusedmsg.eof", "history", "the stream did not end with io.EOF", in, fmt.Sprint(term), "EOF")
				}
			}
			rig.Close()
		}
	}
}

// c02HttpManyStreams: two dozen client-streaming calls on one connection over the HTTP transport, whose
// handlers do not start receiving for a while (so the peer's read loop is held and their POSTs pile up
// inside ServeHTTP), then all run to their end. Every stream that completed successfully delivered
// exactly what its caller sent.
func c02HttpManyStreams(r *Run) {
	if !r.Want("httpmany") {
		return
	}
	t, err := newTopo("http", nil, nil)
	if err != nil {
		r.Count("httpmany.no_listener")
		return
	}
	defer t.close()
	const streams = 24
	in := map[string]any{"transport": "http", "concurrent_client_streams": streams, "handlers": "wait 300 ms before their first receive"}
	r.Progress("httpmany", in)
	gate := make(chan struct{})
	var mu sync.Mutex
	got := map[string][]string{}
	t.impl.SetStream(func(m string, ss grpc.ServerStream) error {
		who := mdGet(ss.Context(), "x-who")
		<-gate
		for {
			b, err := recvB(ss)
			if err != nil {
				break
			}
			mu.Lock()
			got[who] = append(got[who], string(b))
			mu.Unlock()
		}
		return sendB(ss, []byte("sum"))
	})
	type res struct {
		who  string
		sent []string
		err  error
	}
	out := make(chan res, streams)
	for k := 0; k < streams; k++ {
		go func(k int) {
			who := fmt.Sprintf("s%02d", k)
			x := res{who: who}
			ctx, cancel := context.WithTimeout(metadata.AppendToOutgoingContext(context.Background(), "x-who", who), 3*hangTimeout)
			defer cancel()
			cs, err := t.cc.NewStream(ctx, descCli, mCliStream)
			if err != nil {
				x.err = err
				out <- x
				return
			}
			for i := 1; i <= 2; i++ {
				p := fmt.Sprintf("%s-m%d", who, i)
				if err := sendB(cs, []byte(p)); err != nil {
					x.err = err
					out <- x
					return
				}
				x.sent = append(x.sent, p)
			}
			cs.CloseSend()
			for {
				if _, err := recvB(cs); err != nil {
					if err != io.EOF {
						x.err = err
					}
					break
				}
			}
			out <- x
		}(k)
	}
	time.Sleep(300 * time.Millisecond)
	close(gate)
	completed := 0
	for k := 0; k < streams; k++ {
		select {
		case x := <-out:
			if x.err != nil {
				r.Violate("httpmany.failed", "history", "a client-streaming call over the HTTP transport failed although nothing was cancelled and the peer was merely slow to start reading", in, fmt.Sprint(x.who, ": ", x.err), "completes")
				continue
			}
			completed++
			mu.Lock()
			g := fmt.Sprint(got[x.who])
			mu.Unlock()
			if g != fmt.Sprint(x.sent) {
				r.Violate("httpmany.c2s", "history", "a stream completed successfully, but its handler did not receive exactly what the caller sent", in, fmt.Sprintf("%s: handler received %s", x.who, g), fmt.Sprint(x.sent))
			}
		case <-time.After(4 * hangTimeout):
			r.Violate("httpmany.hang", "history", "streams over the HTTP transport did not finish", in, goroutineDump(), nil)
			return
		}
	}
	r.Eval("httpmany", true)
	r.CountN("c02.httpmany.completed", completed)
}

// c02DemuxLongBurst: a client-streaming call of 200 messages through the demultiplexer (client – Demux –
// Server) whose handler reads three messages, pauses 300 ms while the caller sends on, then reads to the
// end. However much the demultiplexer holds for a connection that is not reading, the handler receives
// the caller's sequence exactly.
func c02DemuxLongBurst(r *Run) {
	if !r.Want("demuxburst") {
		return
	}
	for _, serialise := range []bool{true, false} {
		n := c01Demux(serialise, 1)
		const msgs = 200
		in := map[string]any{"topology": "client-demux-server", "messages": msgs, "handler": "reads 3, pauses 300 ms, reads on", "serialise": serialise}
		r.Progress("demuxburst", in)
		var got [][]byte
		hdone := make(chan struct{})
		n.impl.SetStream(func(m string, ss grpc.ServerStream) error {
			defer close(hdone)
			for i := 0; ; i++ {
				if i == 3 {
					time.Sleep(300 * time.Millisecond)
				}
				b, err := recvB(ss)
				if err != nil {
					break
				}
				got = append(got, b)
			}
			return sendB(ss, []byte("sum"))
		})
		var want [][]byte
		var term error
		ok := within(4*hangTimeout, func() {
			ctx, cancel := context.WithTimeout(context.Background(), 3*hangTimeout)
			defer cancel()
			cs, err := n.ccs[0].NewStream(ctx, descCli, mCliStream)
			if err != nil {
				term = err
				return
			}
			for i := 0; i < msgs; i++ {
				p := []byte(fmt.Sprintf("burst-%03d", i))
				if err := sendB(cs, p); err != nil {
					term = err
					return
				}
				want = append(want, p)
			}
			cs.CloseSend()
			for {
				if _, err := recvB(cs); err != nil {
					term = err
					break
				}
			}
			<-hdone
		})
		r.Eval(fmt.Sprintf("demuxburst/%v", serialise), true)
		r.Count("c02.demuxburst")
		if !ok {
			r.Violate("demuxburst.hang", "history", "the stream did not finish", in, goroutineDump(), nil)
		} else {
			if !seqEqual(got, want) {
				r.Violate("demuxburst.c2s", "history", "the handler behind the demultiplexer did not receive exactly what the caller sent, in order", in, fmt.Sprintf("%d messages: %s", len(got), seqStr(got)), fmt.Sprintf("%d messages", len(want)))
			}
			if term != io.EOF {
				r.Violate("demuxburst.eof", "history", "the stream did not end with io.EOF", in, fmt.Sprint(term), "EOF")
			}
		}
		n.close()
		if !ok {
			return
		}
	}
}
