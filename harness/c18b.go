package main

import (
	"context"
	"fmt"
	"time"

	goat "github.com/avos-io/goat"
	"github.com/avos-io/goat/gen/goatorepo"
)

// c18WriteThenCancel: a logical connection's Write returns nil as soon as the demultiplexer has taken the
// envelope; the caller then ends the context it used for that call (the ordinary `defer cancel()` of a
// per-call context) while the shared transport has not accepted the envelope yet (nobody drains it).
// An envelope accepted by Write is written to the shared transport all the same, and later writes on
// the connection keep working.
func c18WriteThenCancel(r *Run) {
	if !r.Want("writecancel") {
		return
	}
	for rep, reps := 0, r.Scale(4, 40); rep < reps && r.NumViolations() <= 4; rep++ {
		in := map[string]any{"rep": rep, "envelopes": 3}
		r.Progress("writecancel", in)
		shared := NewScript(0) // unbuffered Out: the shared transport accepts an envelope only when drained
		ctx, cancel := context.WithCancel(context.Background())
		conns := make(chan goat.RpcReadWriter, 4)
		dm := goat.NewDemux(ctx, shared, func(e *Rpc) string { return e.GetHeader().GetSource() }, func(rw goat.RpcReadWriter) { conns <- rw })
		ran := make(chan struct{})
		go func() { defer close(ran); dm.Run() }()
		shared.In <- &Rpc{Id: 1, Header: &goatorepo.RequestHeader{Source: "k"}}
		var lc goat.RpcReadWriter
		select {
		case lc = <-conns:
		case <-time.After(hangTimeout):
			r.Violate("writecancel.setup", "ops", "no logical connection announced", in, nil, nil)
			cancel()
			return
		}
		good := true
		for i := 1; i <= 3 && good; i++ {
			wctx, wcancel := context.WithCancel(context.Background())
			var err error
			if !within(hangTimeout, func() {
				err = lc.Write(wctx, &Rpc{Id: uint64(100 + i), Header: &goatorepo.RequestHeader{Source: "srv", Destination: "k"}})
			}) {
				r.Violate("writecancel.hang", "ops", fmt.Sprintf("logical Write %d did not return (the connection's writer is gone?)", i), in, goroutineDump(), nil)
				good = false
				wcancel()
				break
			}
			wcancel() // the per-call context ends as soon as Write has returned
			if err != nil {
				r.Violate("writecancel.err", "ops", fmt.Sprintf("logical Write %d failed on a live connection", i), in, err.Error(), nil)
				good = false
				break
			}
			time.Sleep(2 * time.Millisecond) // the transport is drained late
			select {
			case got := <-shared.Out:
				if got.Id != uint64(100+i) {
					r.Violate("writecancel.order", "ops", "the shared transport was handed another envelope than the one accepted", in, got.Id, 100+i)
					good = false
				}
			case <-time.After(hangTimeout):
				r.Violate("writecancel.lost", "ops", fmt.Sprintf("envelope %d was accepted by the logical connection's Write but never reached the shared transport", i), in, goroutineDump(), nil)
				good = false
			}
		}
		r.Eval(fmt.Sprintf("writecancel/%d", rep), true)
		r.Count("c18.writecancel")
		dm.Stop()
		cancel()
		shared.FailRead(errInjectedRead)
		shared.FailWrite(errInjectedWrite)
		within(hangTimeout, func() { <-ran })
		if !good {
			return
		}
	}
}
