package main

import (
	"context"
	"fmt"
	"io"
	"strconv"
	"strings"
	"sync"
	"time"

	goat "github.com/avos-io/goat"
	"github.com/avos-io/goat/gen/goatorepo"
	"google.golang.org/grpc"
	"google.golang.org/grpc/metadata"
	"google.golang.org/protobuf/types/known/wrapperspb"
)

// c08ViaProxy: the caller's deadline also reaches the handler when the call is relayed by a proxy (an
// envelope crosses it unchanged but for its routing fields): (a) calls of the library's own client with
// deadlines from 50 ms to hours — the handler's deadline is not earlier than the caller's minus one
// millisecond; (b) requests of a foreign peer attached to the proxy whose timeout header uses the
// coarse units of the wire format (S, M, H): the handler's deadline lies between "sent + value" and
// "seen + value".
func c08ViaProxy(r *Run) {
	if !r.Want("viaproxy") {
		return
	}
	ctx, cancel := context.WithCancel(context.Background())
	proxy := goat.NewProxy(ctx, "proxy", func(id string) (goat.RpcReadWriter, error) { return nil, fmt.Errorf("no such peer %q", id) }, nil, nil)
	served := make(chan struct{})
	go func() { defer close(served); proxy.Serve() }()
	type obs struct {
		has   bool
		dl    time.Time
		tSeen time.Time
	}
	var mu sync.Mutex
	seen := map[string]obs{}
	record := func(c context.Context) {
		now := time.Now()
		dl, has := c.Deadline()
		mu.Lock()
		seen[mdGet(c, "x-call")] = obs{has, dl, now}
		mu.Unlock()
	}
	impl := &Impl{}
	impl.SetUnary(func(c context.Context, req []byte) ([]byte, error) { record(c); return req, nil })
	impl.SetStream(func(m string, ss grpc.ServerStream) error { record(ss.Context()); return nil })
	srv := goat.NewServer("srv")
	srv.RegisterService(&echoDesc, impl)
	ss, ps := NewPipe(256, true, nil)
	proxy.AddClient("srv", ps)
	srvDone := make(chan struct{})
	go func() { defer close(srvDone); srv.Serve(ctx, ss) }()
	ce, pe := NewPipe(256, true, nil)
	proxy.AddClient("c0", pe)
	cc := goat.NewClientConn(ce, "c0", "srv")
	raw := NewScript(64)
	proxy.AddClient("raw", raw)
	defer func() {
		cancel()
		srv.Stop()
		for _, e := range []*End{ss, ps, ce, pe} {
			e.FailRead(io.ErrClosedPipe)
			e.FailWrite(io.ErrClosedPipe)
		}
		raw.FailRead(io.ErrClosedPipe)
		cc.Close()
		within(hangTimeout, func() { <-served; <-srvDone })
	}()

	rng := r.Rand("c08.viaproxy")
	// (a) the library's client
	n := r.Scale(30, 600)
	for i := 0; i < n && r.NumViolations() <= 4; i++ {
		rem := time.Duration(50+rng.Intn(4000)) * time.Millisecond
		if i%5 == 4 {
			rem = time.Duration(1+rng.Intn(1000)) * time.Hour
		}
		callNo := "a" + strconv.Itoa(i)
		t0 := time.Now()
		D := t0.Add(rem)
		cctx, ccancel := context.WithDeadline(metadata.AppendToOutgoingContext(context.Background(), "x-call", callNo), D)
		in := map[string]any{"topology": "client-proxy-server", "remaining": rem.String(), "stream": i%2 == 1}
		r.Progress("viaproxy", in)
		if i%2 == 1 {
			if cs, err := cc.NewStream(cctx, descBidi, mBidi); err == nil {
				cs.CloseSend()
				recvB(cs)
			}
		} else {
			callUnary(cctx, cc, []byte("x"))
		}
		ccancel()
		mu.Lock()
		o, called := seen[callNo]
		mu.Unlock()
		r.Eval(fmt.Sprintf("viaproxy/a/%d", i), true)
		switch {
		case !called:
			r.Violate("viaproxy.lost", "ops", "the call did not reach its handler", in, nil, nil)
		case !o.has:
			r.Violate("viaproxy.lost", "ops", "caller's deadline did not reach the handler", in, nil, nil)
		case o.dl.Before(D.Add(-time.Millisecond)):
			r.Violate("viaproxy.early", "ops", "handler deadline earlier than the caller's minus 1ms (the call was relayed by a proxy)", in, o.dl.Sub(D).String(), nil)
		case o.dl.After(D.Add(o.tSeen.Sub(t0))):
			r.Violate("viaproxy.late", "ops", "handler deadline later than the caller's plus the transit time", in, o.dl.Sub(D).String(), o.tSeen.Sub(t0).String())
		}
		r.Count("viaproxy.client")
	}
	// (b) a foreign peer with coarse units
	body, _ := goat_marshal(&wrapperspb.BytesValue{Value: []byte("x")})
	vals := []struct {
		v string
		d time.Duration
	}{{"2S", 2 * time.Second}, {"3M", 3 * time.Minute}, {"2H", 2 * time.Hour}, {"1S", time.Second}, {"7000m", 7 * time.Second}, {"5000000u", 5 * time.Second}, {"1H", time.Hour}}
	for i, tv := range vals {
		if r.NumViolations() > 4 {
			return
		}
		callNo := "b" + strconv.Itoa(i)
		in := map[string]any{"topology": "raw peer-proxy-server", "GRPC-Timeout": tv.v}
		r.Progress("viaproxy", in)
		tSent := time.Now()
		raw.In <- &Rpc{Id: uint64(1000 + i), Header: &goatorepo.RequestHeader{Method: mUnary, Source: "raw", Destination: "srv",
			Headers: []*goatorepo.KeyValue{{Key: "x-call", Value: callNo}, {Key: "GRPC-Timeout", Value: tv.v}}}, Body: &goatorepo.Body{Data: body}}
		select {
		case <-raw.Out:
		case <-time.After(hangTimeout):
			r.Violate("viaproxy.raw", "ops", "a unary request relayed by the proxy was not answered", in, goroutineDump(), nil)
			return
		}
		mu.Lock()
		o, called := seen[callNo]
		mu.Unlock()
		r.Eval("viaproxy/b/"+tv.v, true)
		r.Count("viaproxy.raw")
		if !called || !o.has {
			r.Violate("viaproxy.lost", "ops", "the timeout header did not give the handler a deadline", in, nil, nil)
			continue
		}
		if o.dl.Before(tSent.Add(tv.d)) || o.dl.After(o.tSeen.Add(tv.d)) {
			r.Violate("viaproxy.value", "ops", "a timeout header relayed by the proxy was not read as exactly its value", in,
				fmt.Sprintf("handler deadline = sent + %v", o.dl.Sub(tSent)), fmt.Sprintf("between sent + %v and seen + %v", tv.d, tv.d))
		}
	}
}

// c08WireHeaders: the server-side reading of timeout headers, END TO END: a scripted peer sends unary
// requests and stream opens whose header lists are drawn like those of the `hdrbetween` lock-step
// (timeout keys in several cases, malformed and well-formed values, other headers around them) to a
// real Serve; the handler reports whether its context has a deadline. A well-formed timeout entry
// anywhere in the list gives a deadline (malformed ones are ignored); no timeout entry, no deadline.
func c08WireHeaders(r *Run) {
	if !r.Want("wireheaders") {
		return
	}
	rng := r.Rand("c08.wireheaders")
	sc := NewScript(0)
	sc.Out = make(chan *Rpc, 4096)
	impl := &Impl{}
	type obs struct {
		has bool
		rem time.Duration
	}
	seen := make(chan obs, 4)
	impl.SetUnary(func(ctx context.Context, req []byte) ([]byte, error) {
		dl, has := ctx.Deadline()
		seen <- obs{has, time.Until(dl)}
		return req, nil
	})
	impl.SetStream(func(m string, ss grpc.ServerStream) error {
		dl, has := ss.Context().Deadline()
		seen <- obs{has, time.Until(dl)}
		return nil
	})
	srv := goat.NewServer("srv")
	srv.RegisterService(&echoDesc, impl)
	served := make(chan error, 1)
	go func() { served <- srv.Serve(context.Background(), sc) }()
	defer func() {
		srv.Stop()
		sc.FailRead(io.ErrClosedPipe)
		within(hangTimeout, func() { <-served })
	}()
	keys := []string{"grpc-timeout", "GRPC-Timeout", "Grpc-Timeout", "x-other", "other"}
	vals := []string{"30S", "100m", "1H", "soon", "", "12", "7x", "-5S", "5000"}
	wf := map[string]time.Duration{"30S": 30 * time.Second, "100m": 100 * time.Millisecond, "1H": time.Hour}
	body, _ := goat_marshal(&wrapperspb.BytesValue{Value: []byte("x")})
	n := r.Scale(120, 4000)
	for i := 0; i < n && r.NumViolations() <= 4; i++ {
		k := 1 + rng.Intn(3)
		var kvs []*goatorepo.KeyValue
		var firstWF time.Duration
		anyWF, anyT := false, false
		for j := 0; j < k; j++ {
			key, val := keys[rng.Intn(len(keys))], vals[rng.Intn(len(vals))]
			kvs = append(kvs, &goatorepo.KeyValue{Key: key, Value: val})
			if strings.EqualFold(key, "grpc-timeout") {
				anyT = true
				if d, ok := wf[val]; ok && !anyWF {
					anyWF, firstWF = true, d
				}
			}
		}
		stream := i%3 == 2
		in := map[string]any{"headers": kvInput(kvs), "stream": stream}
		r.Progress("wireheaders", in)
		e := &Rpc{Id: uint64(i + 1), Header: &goatorepo.RequestHeader{Method: mUnary, Source: "peer", Destination: "srv", Headers: kvs}, Body: &goatorepo.Body{Data: body}}
		if stream {
			e = &Rpc{Id: uint64(i + 1), Header: &goatorepo.RequestHeader{Method: mBidi, Source: "peer", Destination: "srv", Headers: kvs}}
		}
		select {
		case sc.In <- e:
		case <-time.After(hangTimeout):
			r.Violate("wireheaders.stall", "ops", "the server stopped reading", in, goroutineDump(), nil)
			return
		}
		select {
		case o := <-seen:
			r.Eval(fmt.Sprintf("wireheaders/%d", i), true)
			switch {
			case anyWF && !o.has:
				r.Violate("wireheaders.lost", "ops", "the request carries a well-formed grpc-timeout header but the handler's context has no deadline", in, "no deadline", firstWF.String())
			case anyWF && (o.rem > firstWF || o.rem < firstWF-5*time.Second):
				r.Violate("wireheaders.value", "ops", "the handler's deadline is not the FIRST well-formed timeout value of the request", in, o.rem.String(), firstWF.String())
			case !anyT && o.has:
				r.Violate("wireheaders.invented", "ops", "the handler has a deadline although the request carries no timeout header", in, o.rem.String(), "no deadline")
			case anyT && !anyWF && o.has:
				r.Violate("wireheaders.misread", "ops", "a malformed timeout value gave the handler a deadline", in, o.rem.String(), "no deadline")
			}
			r.Count("c08.wireheaders")
		case <-time.After(hangTimeout):
			r.Violate("wireheaders.none", "ops", "a well-routed request did not reach its handler", in, goroutineDump(), nil)
			return
		}
	}
}

// c08QueuedUnary: a unary call with a deadline that has to wait for one of the connection's unary
// workers (eight other unary calls are in their handlers when it arrives). Its handler's deadline is
// still the caller's: not earlier than the caller's minus 1 ms, not later than the caller's plus the
// time the request took to reach the handler (the wait included).
func c08QueuedUnary(r *Run) {
	if !r.Want("queued") {
		return
	}
	for rep, reps := 0, r.Scale(2, 12); rep < reps && r.NumViolations() <= 4; rep++ {
		wait := time.Duration(100+150*(rep%3)) * time.Millisecond
		rem := time.Duration(3+rep) * time.Second
		in := map[string]any{"busy_unary_calls": 8, "released_after": wait.String(), "remaining": rem.String()}
		r.Progress("queued", in)
		rig := NewRig(RigOpt{Serialise: rep%2 == 0})
		release := make(chan struct{})
		entered := make(chan struct{}, 16)
		type obs struct {
			has   bool
			dl    time.Time
			tSeen time.Time
		}
		got := make(chan obs, 1)
		rig.Impl.SetUnary(func(c context.Context, req []byte) ([]byte, error) {
			if string(req) == "block" {
				entered <- struct{}{}
				<-release
				return req, nil
			}
			dl, has := c.Deadline()
			got <- obs{has, dl, time.Now()}
			return req, nil
		})
		var wg sync.WaitGroup
		for i := 0; i < 8; i++ {
			wg.Add(1)
			go func() { defer wg.Done(); callUnary(context.Background(), rig.CC, []byte("block")) }()
		}
		busy := within(hangTimeout, func() {
			for i := 0; i < 8; i++ {
				<-entered
			}
		})
		t0 := time.Now()
		D := t0.Add(rem)
		cctx, ccancel := context.WithDeadline(context.Background(), D)
		done := make(chan struct{})
		go func() { defer close(done); callUnary(cctx, rig.CC, []byte("x")) }()
		time.Sleep(wait)
		close(release)
		ok := within(hangTimeout, func() { <-done; wg.Wait() })
		ccancel()
		r.Eval(fmt.Sprintf("queued/%d", rep), true)
		switch {
		case !busy || !ok:
			r.Violate("queued.hang", "ops", "unary calls on one connection did not finish", in, goroutineDump(), nil)
		default:
			select {
			case o := <-got:
				switch {
				case !o.has:
					r.Violate("queued.lost", "ops", "caller's deadline did not reach the handler", in, nil, nil)
				case o.dl.Before(D.Add(-time.Millisecond)):
					r.Violate("queued.early", "ops", "handler deadline earlier than the caller's minus 1ms (the request waited for a unary worker)", in, o.dl.Sub(D).String(), "waited about "+o.tSeen.Sub(t0).String())
				case o.dl.After(D.Add(o.tSeen.Sub(t0))):
					r.Violate("queued.late", "ops", "handler deadline later than the caller's plus the transit time", in, o.dl.Sub(D).String(), o.tSeen.Sub(t0).String())
				}
			default:
				r.Violate("queued.lost", "ops", "the call did not reach its handler", in, nil, nil)
			}
		}
		r.Count("c08.queued")
		rig.Close()
	}
}
