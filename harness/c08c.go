package main

import (
	"context"
	"fmt"
	"io"
	"strconv"
	"sync"
	"time"

	goat "github.com/avos-io/goat"
	"github.com/avos-io/goat/gen/goatorepo"
	"google.golang.org/grpc"
	"google.golang.org/grpc/metadata"
	"google.golang.org/protobuf/types/known/wrapperspb"
)

// c08ViaProxy: the caller's deadline also reaches the handler when the call is relayed by a proxy (an
// envelope crosses it unchanged but for its routing fields): (a) calls of the library's own client with
// deadlines from 50 ms to hours — the handler's deadline is not earlier than the caller's minus one
// millisecond; (b) requests of a foreign peer attached to the proxy whose timeout header uses the
// coarse units of the wire format (S, M, H): the handler's deadline lies between "sent + value" and
// "seen + value".
func c08ViaProxy(r *Run) {
	if !r.Want("viaproxy") {
		return
	}
	ctx, cancel := context.WithCancel(context.Background())
	proxy := goat.NewProxy(ctx, "proxy", func(id string) (goat.RpcReadWriter, error) { return nil, fmt.Errorf("no such peer %q", id) }, nil, nil)
	served := make(chan struct{})
	go func() { defer close(served); proxy.Serve() }()
	type obs struct {
		has   bool
		dl    time.Time
		tSeen time.Time
	}
	var mu sync.Mutex
	seen := map[string]obs{}
	record := func(c context.Context) {
		now := time.Now()
		dl, has := c.Deadline()
		mu.Lock()
		seen[mdGet(c, "x-call")] = obs{has, dl, now}
		mu.Unlock()
	}
	impl := &Impl{}
	impl.SetUnary(func(c context.Context, req []byte) ([]byte, error) { record(c); return req, nil })
	impl.SetStream(func(m string, ss grpc.ServerStream) error { record(ss.Context()); return nil })
	srv := goat.NewServer("srv")
	srv.RegisterService(&echoDesc, impl)
	ss, ps := NewPipe(256, true, nil)
	proxy.AddClient("srv", ps)
	srvDone := make(chan struct{})
	go func() { defer close(srvDone); srv.Serve(ctx, ss) }()
	ce, pe := NewPipe(256, true, nil)
	proxy.AddClient("c0", pe)
	cc := goat.NewClientConn(ce, "c0", "srv")
	raw := NewScript(64)
	proxy.AddClient("raw", raw)
	defer func() {
		cancel()
		srv.Stop()
		for _, e := range []*End{ss, ps, ce, pe} {
			e.FailRead(io.ErrClosedPipe)
			e.FailWrite(io.ErrClosedPipe)
		}
		raw.FailRead(io.ErrClosedPipe)
		cc.Close()
		within(hangTimeout, func() { <-served; <-srvDone })
	}()

	rng := r.Rand("c08.viaproxy")
	// (a) the library's client
	n := r.Scale(30, 600)
	for i := 0; i < n && r.NumViolations() <= 4; i++ {
		rem := time.Duration(50+rng.Intn(4000)) * time.Millisecond
		if i%5 == 4 {
			rem = time.Duration(1+rng.Intn(1000)) * time.Hour
		}
		callNo := "a" + strconv.Itoa(i)
		t0 := time.Now()
		D := t0.Add(rem)
		cctx, ccancel := context.WithDeadline(metadata.AppendToOutgoingContext(context.Background(), "x-call", callNo), D)
		in := map[string]any{"topology": "client-proxy-server", "remaining": rem.String(), "stream": i%2 == 1}
		r.Progress("viaproxy", in)
		if i%2 == 1 {
			if cs, err := cc.NewStream(cctx, descBidi, mBidi); err == nil {
				cs.CloseSend()
				recvB(cs)
			}
		} else {
			callUnary(cctx, cc, []byte("x"))
		}
		ccancel()
		mu.Lock()
		o, called := seen[callNo]
		mu.Unlock()
		r.Eval(fmt.Sprintf("viaproxy/a/%d", i), true)
		switch {
		case !called:
			r.Violate("viaproxy.lost", "ops", "the call did not reach its handler", in, nil, nil)
		case !o.has:
			r.Violate("viaproxy.lost", "ops", "caller's deadline did not reach the handler", in, nil, nil)
		case o.dl.Before(D.Add(-time.Millisecond)):
			r.Violate("viaproxy.early", "ops", "handler deadline earlier than the caller's minus 1ms (the call was relayed by a proxy)", in, o.dl.Sub(D).String(), nil)
		case o.dl.After(D.Add(o.tSeen.Sub(t0))):
			r.Violate("viaproxy.late", "ops", "handler deadline later than the caller's plus the transit time", in, o.dl.Sub(D).String(), o.tSeen.Sub(t0).String())
		}
		r.Count("viaproxy.client")
	}
	// (b) a foreign peer with coarse units
	body, _ := goat_marshal(&wrapperspb.BytesValue{Value: []byte("x")})
	vals := []struct {
		v string
		d time.Duration
	}{{"2S", 2 * time.Second}, {"3M", 3 * time.Minute}, {"2H", 2 * time.Hour}, {"1S", time.Second}, {"7000m", 7 * time.Second}, {"5000000u", 5 * time.Second}, {"1H", time.Hour}}
	for i, tv := range vals {
		if r.NumViolations() > 4 {
			return
		}
		callNo := "b" + strconv.Itoa(i)
		in := map[string]any{"topology": "raw peer-proxy-server", "GRPC-Timeout": tv.v}
		r.Progress("viaproxy", in)
		tSent := time.Now()
		raw.In <- &Rpc{Id: uint64(1000 + i), Header: &goatorepo.RequestHeader{Method: mUnary, Source: "raw", Destination: "srv",
			Headers: []*goatorepo.KeyValue{{Key: "x-call", Value: callNo}, {Key: "GRPC-Timeout", Value: tv.v}}}, Body: &goatorepo.Body{Data: body}}
		select {
		case <-raw.Out:
		case <-time.After(hangTimeout):
			r.Violate("viaproxy.raw", "ops", "a unary request relayed by the proxy was not answered", in, goroutineDump(), nil)
			return
		}
		mu.Lock()
		o, called := seen[callNo]
		mu.Unlock()
		r.Eval("viaproxy/b/"+tv.v, true)
		r.Count("viaproxy.raw")
		if !called || !o.has {
			r.Violate("viaproxy.lost", "ops", "the timeout header did not give the handler a deadline", in, nil, nil)
			continue
		}
		if o.dl.Before(tSent.Add(tv.d)) || o.dl.After(o.tSeen.Add(tv.d)) {
			r.Violate("viaproxy.value", "ops", "a timeout header relayed by the proxy was not read as exactly its value", in,
				fmt.Sprintf("handler deadline = sent + %v", o.dl.Sub(tSent)), fmt.Sprintf("between sent + %v and seen + %v", tv.d, tv.d))
		}
	}
}
