package main

import (
	"context"
	"fmt"
	"io"
	"time"

	goat "github.com/avos-io/goat"
	"github.com/avos-io/goat/gen/goatorepo"
	"google.golang.org/grpc/stats"
	"google.golang.org/protobuf/types/known/wrapperspb"
)

// c13Surplus: a peer answers ONE unary call with several replies (k = 2..4). The call takes the first;
// while it is still busy returning (held inside its stats handler's InHeader callback), the surplus
// replies arrive: one is queued for the call, the next parks the connection's read loop. When the call
// then returns and unregisters, the surplus must vanish with it: the NEXT unary call on the connection
// reports success only with the body of the envelope addressed to IT, sent after its request.
func c13Surplus(r *Run) {
	if !r.Want("surplus") {
		return
	}
	body := func(s string) *goatorepo.Body {
		b, _ := goat_marshal(&wrapperspb.BytesValue{Value: []byte(s)})
		return &goatorepo.Body{Data: b}
	}
	reps := r.Scale(3, 40)
	for rep := 0; rep < reps && r.NumViolations() == 0; rep++ {
		for k := 2; k <= 4 && r.NumViolations() == 0; k++ {
			in := map[string]any{"replies_to_first_call": k, "rep": rep}
			r.Progress("surplus", in)
			hooks.Reset(true)
			sc := NewScript(0)
			sc.Out = make(chan *Rpc, 64)
			hold := &c13HoldStats{entered: make(chan struct{}, 8), release: make(chan struct{})}
			cc := goat.NewClientConn(sc, "c", "s", goat.WithStatsHandler(hold))
			fail := func(what string, obs any) {
				r.Violate("surplus."+what, "ops", map[string]string{
					"stall": "the client stopped reading its transport or a call never returned",
					"owner": "a unary call reported success with data of an envelope that was not addressed to it",
				}[what], in, obs, nil)
			}
			type ares struct {
				out []byte
				err error
			}
			call := func(payload string) chan ares {
				ch := make(chan ares, 1)
				go func() {
					out, err := callUnary(context.Background(), cc, []byte(payload))
					ch <- ares{out, err}
				}()
				return ch
			}
			aDone := call("a")
			var req *Rpc
			select {
			case req = <-sc.Out:
			case <-time.After(hangTimeout):
				fail("stall", goroutineDump())
				hooks.Reset(false)
				return
			}
			reply := func(id uint64, s string) *Rpc {
				return &Rpc{Id: id, Header: &goatorepo.RequestHeader{Method: mUnary}, Body: body(s), Trailer: &goatorepo.Trailer{}}
			}
			sc.In <- reply(req.Id, "a-reply-0")
			// the call is now inside its stats handler
			if !within(hangTimeout, func() { <-hold.entered }) {
				fail("stall", goroutineDump())
				hooks.Reset(false)
				return
			}
			fed := make(chan struct{})
			go func() {
				defer close(fed)
				for i := 1; i < k; i++ {
					select {
					case sc.In <- reply(req.Id, fmt.Sprintf("a-reply-%d", i)):
					case <-time.After(hangTimeout):
						return
					}
				}
			}()
			// the read loop has looked the call up for every surplus reply it can get to (the second is queued, the third parks it)
			want, seen := k, 0
			if want > 3 {
				want = 3
			}
			hooks.WaitFor(func(e Event) bool {
				if e.Site == "mux.lookup" && e.ID == req.Id {
					seen++
				}
				return seen >= want
			}, hangTimeout)
			close(hold.release)
			var a ares
			select {
			case a = <-aDone:
			case <-time.After(hangTimeout):
				fail("stall", goroutineDump())
				hooks.Reset(false)
				return
			}
			if a.err != nil || string(a.out) != "a-reply-0" {
				fail("owner", fmt.Sprintf("first call: out=%q err=%v", a.out, a.err))
			}
			if !within(hangTimeout, func() { <-fed }) {
				fail("stall", "the read loop stayed parked behind a call that has returned")
				hooks.Reset(false)
				return
			}
			// the next call
			hold.release = make(chan struct{})
			close(hold.release)
			bDone := call("b")
			var reqB *Rpc
			select {
			case reqB = <-sc.Out:
			case <-time.After(hangTimeout):
				fail("stall", goroutineDump())
				hooks.Reset(false)
				return
			}
			select {
			case b := <-bDone:
				fail("owner", fmt.Sprintf("second call returned before its reply was sent: out=%q err=%v", b.out, b.err))
			case <-time.After(2 * time.Millisecond):
				sc.In <- reply(reqB.Id, "b-reply")
				select {
				case b := <-bDone:
					if b.err != nil || string(b.out) != "b-reply" {
						fail("owner", fmt.Sprintf("second call: out=%q err=%v", b.out, b.err))
					}
				case <-time.After(hangTimeout):
					fail("stall", goroutineDump())
				}
			}
			r.Eval(fmt.Sprintf("surplus/%d/%d", k, rep), true)
			r.Count(fmt.Sprintf("surplus.replies%d", k))
			sc.FailRead(io.ErrUnexpectedEOF)
			hooks.Reset(false)
		}
	}
}

// c13HoldStats blocks the first InHeader callback until released.
type c13HoldStats struct {
	entered chan struct{}
	release chan struct{}
}

func (h *c13HoldStats) TagRPC(ctx context.Context, _ *stats.RPCTagInfo) context.Context { return ctx }
func (h *c13HoldStats) HandleRPC(_ context.Context, s stats.RPCStats) {
	if _, ok := s.(*stats.InHeader); ok {
		select {
		case h.entered <- struct{}{}:
		default:
		}
		<-h.release
	}
}
func (h *c13HoldStats) TagConn(ctx context.Context, _ *stats.ConnTagInfo) context.Context {
	return ctx
}
func (h *c13HoldStats) HandleConn(context.Context, stats.ConnStats) {}
