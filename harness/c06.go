package main

import (
	"context"
	"errors"
	"fmt"
	"io"
	"math/rand"
	"strings"
	"sync"
	"time"

	goat "github.com/avos-io/goat"
	"google.golang.org/grpc"

	"github.com/avos-io/goat/gen/goatorepo"
	"github.com/avos-io/goat/internal/server"
	"google.golang.org/grpc/codes"
	"google.golang.org/grpc/metadata"
	"google.golang.org/grpc/status"
	"google.golang.org/protobuf/proto"
	"google.golang.org/protobuf/types/known/wrapperspb"
)

func init() { register("C06", runC06) }

func goat_marshal(m proto.Message) ([]byte, error) { return proto.Marshal(m) }

// shapeOf renders an envelope as the driver's Shape.
func shapeOf(e *Rpc) string {
	var fl strings.Builder
	if e.Header != nil {
		fl.WriteByte('h')
	}
	if e.Body != nil {
		fl.WriteByte('b')
	}
	if e.Trailer != nil {
		fl.WriteByte('t')
	}
	if e.Status != nil {
		fl.WriteByte('s')
		if e.Status.Code == 0 {
			fl.WriteByte('o')
		}
	}
	if e.Reset_ != nil {
		fl.WriteByte('r')
	}
	if len(e.GetHeader().GetHeaders()) > 0 {
		fl.WriteByte('m')
	}
	if fl.Len() == 0 {
		fl.WriteByte('-')
	}
	h := e.GetHeader()
	return fmt.Sprintf("%s:%s:%s:%s", fl.String(), hxs(h.GetMethod()), hxs(h.GetSource()), hxs(h.GetDestination()))
}

// checkWire is the C06 monitor on one wire log: per id and direction the projection must be accepted
// by the protocol automaton (decided by the Lean driver: one accC / accS case per projection), the
// server must emit only for ids it has received, and responses must swap source and destination.
func checkWire(r *Run, scen string, evs []WireEv, in any) {
	type proj struct{ c2s, s2c []*Rpc }
	ids := map[uint64]*proj{}
	var order []uint64
	seenC := map[uint64]bool{}
	for _, e := range evs {
		p := ids[e.Rpc.Id]
		if p == nil {
			p = &proj{}
			ids[e.Rpc.Id] = p
			order = append(order, e.Rpc.Id)
		}
		if e.Dir == "c2s" {
			p.c2s = append(p.c2s, e.Rpc)
			seenC[e.Rpc.Id] = true
		} else {
			if !seenC[e.Rpc.Id] {
				r.Violate(scen+".unsolicited", "history", "server emitted an envelope for an id it had not received", in, shapeOf(e.Rpc), nil)
			}
			p.s2c = append(p.s2c, e.Rpc)
		}
	}
	for _, id := range order {
		p := ids[id]
		// a unary exchange is exactly one request carrying a header AND a body — a present one, also when
		// the request message encodes to zero bytes (README: "body: always specified, but may be empty")
		if len(p.c2s) > 0 && strings.TrimPrefix(p.c2s[0].GetHeader().GetMethod(), "/") == strings.TrimPrefix(mUnary, "/") {
			if len(p.c2s) != 1 || p.c2s[0].Body == nil {
				sh := make([]string, len(p.c2s))
				for i, e := range p.c2s {
					sh[i] = shapeOf(e)
				}
				r.Violate(scen+".unary_request", "history", "a unary call's request is not exactly one envelope with header and body", in, strings.Join(sh, ";"), "one envelope: header + body")
			}
		}
		if len(p.c2s) > 0 {
			sh := make([]string, len(p.c2s))
			for i, e := range p.c2s {
				sh[i] = shapeOf(e)
			}
			r.Case("accC", strings.Join(sh, ";"), "accept")
			r.Count("wire.c2s.projections")
			r.CountN("wire.envelopes", len(sh))
		}
		if len(p.s2c) > 0 {
			unary := len(p.c2s) > 0 && (p.c2s[0].Body != nil || strings.TrimPrefix(p.c2s[0].GetHeader().GetMethod(), "/") == strings.TrimPrefix(mUnary, "/"))
			sh := make([]string, len(p.s2c))
			for i, e := range p.s2c {
				sh[i] = shapeOf(e)
			}
			u := "stream"
			if unary {
				u = "unary"
			}
			r.Case("accS", u+"|"+strings.Join(sh, ";"), "accept")
			r.Count("wire.s2c.projections")
			r.CountN("wire.envelopes", len(sh))
			// responses swap source and destination of the request
			if len(p.c2s) > 0 && p.c2s[0].Header != nil {
				q := p.c2s[0].Header
				for _, e := range p.s2c {
					if e.Header == nil || e.Header.Source != q.Destination || e.Header.Destination != q.Source {
						r.Violate(scen+".route", "history", "response does not swap the request's source and destination", in, shapeOf(e), shapeOf(p.c2s[0]))
						break
					}
				}
			}
		}
	}
}

func runC06(r *Run) {
	if r.Want("ssrun") {
		c06ServerStreamLockstep(r)
	}
	if r.Want("wire") {
		c06Workloads(r)
	}
	if r.Want("sendcancel") {
		c06CancelDuringSend(r)
	}
	c06CancelInsideCloseSend(r)
	c06ConcurrentHeaderAndSend(r)
	c06ResetWithoutOpen(r)
	c06UnknownMethodStream(r)
	if r.Want("resetrace") {
		c06ResetVersusTrailer(r)
	}
	if r.Want("replies") {
		c06ReplyEnvelopes(r)
	}
	if r.Want("ssrecv") {
		c06ServerRecvLockstep(r)
	}
}

type feedRW struct{ in []*Rpc }

func (f *feedRW) Read(ctx context.Context) (*Rpc, error) {
	if len(f.in) == 0 {
		return nil, context.Canceled
	}
	r := f.in[0]
	f.in = f.in[1:]
	return r, nil
}
func (f *feedRW) Write(ctx context.Context, r *Rpc) error { return nil }

// c06ServerRecvLockstep: the handler side's RecvMsg on the real serverStream, fed with envelope
// sequences, against the model (bodies up to the first trailer, then EOF or the status).
func c06ServerRecvLockstep(r *Run) {
	rng := r.Rand("c06.ssrecv")
	n := r.Scale(500, 30000)
	for i := 0; i < n; i++ {
		k := rng.Intn(7)
		var parts []string
		rw := &feedRW{}
		for j := 0; j < k; j++ {
			e := &Rpc{Id: 3, Header: &goatorepo.RequestHeader{}}
			switch rng.Intn(6) {
			case 0:
				parts = append(parts, "h")
			case 1:
				c := rng.Intn(17)
				e.Status = &goatorepo.ResponseStatus{Code: int32(c)}
				e.Trailer = &goatorepo.Trailer{}
				parts = append(parts, fmt.Sprintf("t%d", c))
			case 2:
				e.Trailer = &goatorepo.Trailer{}
				parts = append(parts, "T")
			default:
				p := []byte(genTextValue(rng))
				pb, _ := goat_marshal(&wrapperspb.BytesValue{Value: p})
				e.Body = &goatorepo.Body{Data: pb}
				parts = append(parts, "b"+hx(p))
			}
			rw.in = append(rw.in, e)
		}
		ss, _ := server.NewServerStream(context.Background(), 3, "", "", "", rw, nil)
		var got []string
		term := "pending"
		for {
			m := new(wrapperspb.BytesValue)
			err := ss.RecvMsg(m)
			if err == nil {
				got = append(got, hx(m.Value))
				continue
			}
			if err == io.EOF {
				term = "eof"
			} else if st, ok := status.FromError(errors.Unwrap(err)); ok && st.Code() != codes.OK {
				term = fmt.Sprintf("status%d", st.Code())
			} else if st2 := status.Convert(errCause(err)); st2.Code() != codes.Unknown && st2.Code() != codes.OK {
				term = fmt.Sprintf("status%d", st2.Code())
			} else if strings.Contains(err.Error(), "code = ") {
				term = "status" + statusCodeFromText(err.Error())
			}
			break
		}
		in := "_"
		if len(parts) > 0 {
			in = strings.Join(parts, ",")
		}
		out := "_"
		if len(got) > 0 {
			out = strings.Join(got, ",")
		}
		r.Case("ssrecv", in, out+"|"+term)
	}
}

func errCause(err error) error {
	type causer interface{ Cause() error }
	for err != nil {
		c, ok := err.(causer)
		if !ok {
			break
		}
		err = c.Cause()
	}
	return err
}

func statusCodeFromText(s string) string {
	i := strings.Index(s, "code = ")
	if i < 0 {
		return "?"
	}
	name := s[i+7:]
	if j := strings.Index(name, " "); j >= 0 {
		name = name[:j]
	}
	for c := codes.Code(0); c <= 16; c++ {
		if c.String() == name {
			return fmt.Sprint(int(c))
		}
	}
	return "?"
}

func routeCanon(e *Rpc) string {
	h := e.GetHeader()
	rst := "none"
	if e.Reset_ != nil {
		rst = hxs(e.Reset_.Type)
	}
	return fmt.Sprintf("id=%d~method=%s~src=%s~dst=%s~next=%s~reset=%s", e.Id, hxs(h.GetMethod()), hxs(h.GetSource()), hxs(h.GetDestination()), hxList(h.GetProxyNext()), rst)
}

// c06ReplyEnvelopes: the unary reply and the reset envelope, field by field, against the model
// (id echoed, source/destination swapped, return route = proxy record without its last hop, response
// metadata and trailer metadata, status only on failure, body only on success).
func c06ReplyEnvelopes(r *Run) {
	rng := r.Rand("c06.replies")
	n := r.Scale(300, 20000)
	sc := NewScript(0)
	sc.Out = make(chan *Rpc, 64)
	srv := goat.NewServer("srv")
	impl := &Impl{}
	var hm, tm metadata.MD
	var herr error
	impl.SetUnary(func(ctx context.Context, req []byte) ([]byte, error) {
		if len(hm) > 0 {
			grpc.SetHeader(ctx, hm)
		}
		if len(tm) > 0 {
			grpc.SetTrailer(ctx, tm)
		}
		if herr != nil {
			return nil, herr
		}
		return req, nil
	})
	impl.SetStream(func(method string, ss grpc.ServerStream) error { return nil })
	srv.RegisterService(&echoDesc, impl)
	ctx, cancel := context.WithCancel(context.Background())
	defer cancel()
	served := make(chan error, 1)
	go func() { served <- srv.Serve(ctx, sc) }()
	for i := 0; i < n; i++ {
		id := uint64(1 + rng.Intn(1000))
		src := []string{"c", "client-7", "", "x/y"}[rng.Intn(4)]
		method := []string{mUnary, "verif.Echo/Unary"}[rng.Intn(2)]
		var record []string
		for j, k := 0, rng.Intn(4); j < k; j++ {
			record = append(record, fmt.Sprintf("p%d", rng.Intn(3)))
		}
		hm, tm = genSmallMD(rng), genSmallMD(rng)
		kind, code, msg := "nil", 0, ""
		herr = nil
		switch rng.Intn(4) {
		case 0:
			kind, code, msg = "status", 1+rng.Intn(16), "failed"
			herr = status.Error(codes.Code(code), msg)
		case 1:
			kind, msg = "plain", "plain failure"
			herr = fmt.Errorf("%s", msg)
		}
		payload := []byte(genTextValue(rng))
		pb, _ := goat_marshal(&wrapperspb.BytesValue{Value: payload})
		req := &Rpc{Id: id, Header: &goatorepo.RequestHeader{Method: method, Source: src, Destination: "srv", ProxyRecord: record}, Body: &goatorepo.Body{Data: pb}}
		in := fmt.Sprintf("%d|%s|%s|%s|%s|%s|%d|%s|%s|%s|%s", id, hxs(mUnary), hxs(src), hxs("srv"), hxList(record), kind, code, hxs(msg), mdInput(hm), mdInput(tm), hx(payload))
		r.Progress("replies", in)
		var rep *Rpc
		ok := within(hangTimeout, func() { sc.In <- req; rep = <-sc.Out })
		if !ok {
			r.Violate("replies.hang", "ops", "no reply", in, nil, nil)
			return
		}
		r.Case("unaryreply", in, routeCanon(rep)+"~"+envCanon(rep))
		r.Count("replies.unary." + kind)
		// the same request with metadata that does not decode: the early Internal reply
		if i%4 == 1 {
			q := proto.Clone(req).(*Rpc)
			q.Header.Headers = []*goatorepo.KeyValue{{Key: "x-bin", Value: "!!"}}
			ok := within(hangTimeout, func() { sc.In <- q; rep = <-sc.Out })
			if !ok {
				r.Violate("replies.hang", "ops", "no reply to a request with malformed metadata", in, nil, nil)
				return
			}
			code := "none"
			if rep.Status != nil {
				code = fmt.Sprint(rep.Status.Code)
			}
			r.Case("badmetareply", fmt.Sprintf("%d|%s|%s|%s|%s", id, hxs(mUnary), hxs(src), hxs("srv"), hxList(record)),
				fmt.Sprintf("%s~code=%s~body=%d~trailer=%d", routeCanon(rep), code, b2i(rep.Body != nil), b2i(rep.Trailer != nil)))
			r.Count("replies.badmeta")
			if rep.Id != id || rep.GetHeader().GetSource() != "srv" || rep.GetHeader().GetDestination() != src || rep.GetStatus().GetCode() == 0 {
				r.Violate("replies.badmeta.route", "ops", "the reply to a unary request with malformed metadata is not a non-OK status addressed back to the caller (same id, source and destination swapped)", in, routeCanon(rep), fmt.Sprintf("id=%d src=srv dst=%s", id, src))
			}
		}
		// a body for a stream the server does not know: the reset envelope
		if i%3 == 0 {
			q := &Rpc{Id: id + 5000, Header: &goatorepo.RequestHeader{Method: mBidi, Source: src, Destination: "srv", ProxyRecord: record}, Body: &goatorepo.Body{}}
			ok := within(hangTimeout, func() { sc.In <- q; rep = <-sc.Out })
			if !ok {
				r.Violate("replies.hang", "ops", "no reset", in, nil, nil)
				return
			}
			r.Case("resetreply", fmt.Sprintf("%d|%s|%s|%s|%s", id+5000, hxs(mBidi), hxs(src), hxs("srv"), hxList(record)), routeCanon(rep)+"~"+envCanon(rep))
			r.Count("replies.reset")
		}
	}
}

// gateRW is a server-side transport that holds the first trailer it is asked to write until released,
// and lets every other write through at once (a slow peer, from the library's point of view).
type gateRW struct {
	in       chan *Rpc
	mu       sync.Mutex
	wire     []*Rpc
	held     chan struct{}
	release  chan struct{}
	heldOnce bool
	wrote    chan struct{}
}

func (g *gateRW) Read(ctx context.Context) (*Rpc, error) {
	select {
	case r := <-g.in:
		return r, nil
	case <-ctx.Done():
		return nil, ctx.Err()
	}
}

func (g *gateRW) Write(ctx context.Context, r *Rpc) error {
	g.mu.Lock()
	hold := r.Trailer != nil && r.Reset_ == nil && !g.heldOnce
	if hold {
		g.heldOnce = true
	}
	g.mu.Unlock()
	if hold {
		close(g.held)
		select {
		case <-g.release:
		case <-ctx.Done():
			return ctx.Err()
		}
	}
	g.mu.Lock()
	g.wire = append(g.wire, proto.Clone(r).(*Rpc))
	g.mu.Unlock()
	select {
	case g.wrote <- struct{}{}:
	default:
	}
	return nil
}

// c06ResetVersusTrailer (forced schedule, the search for a failing input of the reset/trailer order):
// a handler finishes, its trailer is on its way through a slow transport, the peer sends one more
// message for the finished stream. The reset that answers it must not reach the wire before the trailer.
func c06ResetVersusTrailer(r *Run) {
	n := r.Scale(6, 60)
	for i := 0; i < n; i++ {
		settleGoroutines(0)
		hooks.Reset(true)
		g := &gateRW{in: make(chan *Rpc), held: make(chan struct{}), release: make(chan struct{}), wrote: make(chan struct{}, 16)}
		srv := goat.NewServer("srv")
		impl := &Impl{}
		impl.SetStream(func(method string, ss grpc.ServerStream) error {
			if i%2 == 1 {
				return status.Error(codes.Aborted, "x")
			}
			return nil
		})
		impl.SetUnary(func(ctx context.Context, req []byte) ([]byte, error) { return req, nil })
		srv.RegisterService(&echoDesc, impl)
		ctx, cancel := context.WithCancel(context.Background())
		served := make(chan error, 1)
		go func() { served <- srv.Serve(ctx, g) }()
		hdr := &goatorepo.RequestHeader{Method: mBidi, Destination: "srv", Source: "c"}
		in := map[string]any{"round": i}
		r.Progress("resetrace", in)
		ok := within(hangTimeout, func() {
			g.in <- &Rpc{Id: 1, Header: hdr}
			<-g.held // the trailer is in the writer's hands, inside the transport
		})
		ok = ok && hooks.WaitFor(siteIs("srv.unregister", 1), hangTimeout)
		if ok {
			ok = within(hangTimeout, func() { g.in <- &Rpc{Id: 1, Header: hdr, Body: &goatorepo.Body{}} })
		}
		ok = ok && hooks.WaitFor(siteIs("srv.reset", 1), hangTimeout)
		if !ok {
			r.Violate("resetrace.setup", "schedule", "the scenario could not be set up (server stalled)", in, goroutineDump(), nil)
			cancel()
			hooks.Reset(false)
			return
		}
		// give a reset that does NOT go through the writer the chance to overtake (this wait only
		// affects the chance of exposing a defect, never the verdict on correct code)
		select {
		case <-g.wrote:
		case <-time.After(150 * time.Millisecond):
		}
		close(g.release)
		// both envelopes reach the wire
		deadline := time.After(hangTimeout)
		for {
			g.mu.Lock()
			k := len(g.wire)
			g.mu.Unlock()
			if k >= 2 {
				break
			}
			select {
			case <-g.wrote:
			case <-deadline:
			}
			if k < 2 {
				g.mu.Lock()
				k = len(g.wire)
				g.mu.Unlock()
				if k < 2 {
					select {
					case <-deadline:
						r.Violate("resetrace.missing", "schedule", "trailer and reset did not both reach the wire", in, k, 2)
					default:
						continue
					}
					break
				}
			}
		}
		g.mu.Lock()
		wire := append([]*Rpc(nil), g.wire...)
		g.mu.Unlock()
		var evs []WireEv
		evs = append(evs, WireEv{"c2s", &Rpc{Id: 1, Header: hdr}}, WireEv{"c2s", &Rpc{Id: 1, Header: hdr, Body: &goatorepo.Body{}}})
		ri, ti := -1, -1
		for j, e := range wire {
			evs = append(evs, WireEv{"s2c", e})
			if e.Reset_ != nil && ri < 0 {
				ri = j
			}
			if e.Trailer != nil && e.Reset_ == nil && ti < 0 {
				ti = j
			}
		}
		r.Eval(fmt.Sprintf("resetrace/%d", i), true)
		r.Count("resetrace")
		if ri >= 0 && ti >= 0 && ri < ti {
			r.Violate("resetrace.order", "schedule", "the server's reset for a finished stream reached the wire before that stream's trailer", in, fmt.Sprintf("reset at %d, trailer at %d", ri, ti), "trailer first")
		}
		checkWire(r, "resetrace.wire", evs, in)
		cancel()
		srv.Stop()
		within(hangTimeout, func() { <-served })
		hooks.Reset(false)
	}
}

// c06CancelDuringSend (forced schedule): the caller's context ends while a SendMsg has already passed
// its done-check. The SendMsg is held at the yield point, the context is cancelled, the read loop
// finishes the stream (it writes the one reset), then the SendMsg is released and fails on the
// cancelled context. The client direction of the wire must still hold a single, final reset.
func c06CancelDuringSend(r *Run) {
	n := r.Scale(12, 200)
	for i := 0; i < n; i++ {
		settleGoroutines(0)
		hooks.Reset(true)
		rig := NewRig(RigOpt{Serialise: true})
		log := NewHandlerLog()
		InstallPrograms(rig.Impl, log, nil)
		ctx, cancel := context.WithCancel(context.Background())
		defer cancel()
		ctx = metadata.AppendToOutgoingContext(ctx, "x-tag", fmt.Sprintf("sc%d", i), "x-prog", "hold")
		method := []string{mBidi, mCliStream}[i%2]
		cs, err := rig.CC.NewStream(ctx, descOf(method), method)
		if err != nil {
			r.Violate("sendcancel.open", "ops", "open failed", i, err.Error(), nil)
			rig.Close()
			continue
		}
		for j := 0; j < i%3; j++ {
			sendB(cs, []byte("m"))
		}
		held := make(chan struct{})
		releaseSend := make(chan struct{})
		hooks.OnYield("cs.send.afterDoneCheck", func(id uint64) {
			close(held)
			<-releaseSend
		})
		sendDone := make(chan error, 1)
		go func() { sendDone <- sendB(cs, []byte("late")) }()
		ok := within(hangTimeout, func() { <-held })
		hooks.OnYield("cs.send.afterDoneCheck", nil)
		cancel()
		fin := hooks.WaitFor(siteIs("cs.fin.done", 0), hangTimeout)
		close(releaseSend)
		var serr error
		ok = ok && within(hangTimeout, func() { serr = <-sendDone })
		r.Eval(fmt.Sprintf("sendcancel/%d", i), true)
		r.Count("sendcancel")
		in := map[string]any{"round": i, "method": method, "sent_before": i % 3}
		if !ok || !fin {
			r.Violate("sendcancel.hang", "schedule", "the stream did not finish / SendMsg did not return after the cancellation", in, goroutineDump(), nil)
		} else if serr == nil {
			r.Violate("sendcancel.send", "schedule", "SendMsg on a cancelled stream reported success", in, nil, "an error")
		}
		// everything the client will ever write for this stream is on the wire once SendMsg has returned
		evs := rig.Wire.Snapshot()
		resets, after := 0, 0
		for _, e := range evs {
			if e.Dir != "c2s" {
				continue
			}
			if resets > 0 {
				after++
			}
			if e.Rpc.Reset_ != nil {
				resets++
			}
		}
		if resets != 1 || after != 0 {
			r.Violate("sendcancel.reset", "schedule", "the client must emit a single, final reset for a cancelled stream", in, fmt.Sprintf("resets=%d envelopes-after-first-reset=%d", resets, after), "resets=1 after=0")
		}
		checkWire(r, "sendcancel.wire", evs, in)
		hooks.Reset(false)
		rig.Close()
	}
}

// scriptedRW is an RpcReadWriter whose writes succeed or fail as scripted.
type scriptedRW struct {
	ok  bool
	out []*Rpc
}

func (s *scriptedRW) Read(ctx context.Context) (*Rpc, error) { <-ctx.Done(); return nil, ctx.Err() }
func (s *scriptedRW) Write(ctx context.Context, r *Rpc) error {
	if !s.ok {
		return errInjectedWrite
	}
	s.out = append(s.out, proto.Clone(r).(*Rpc))
	return nil
}

func envCanon(e *Rpc) string {
	h := "nohdr"
	if e.Header != nil {
		h = "hdrs=" + kvGrouped(e.Header.Headers)
	}
	b := "nobody"
	if e.Body != nil {
		m := new(wrapperspb.BytesValue)
		proto.Unmarshal(e.Body.Data, m)
		b = "body=" + hx(m.Value)
	}
	st := "nostatus"
	if e.Status != nil {
		st = fmt.Sprintf("status=%d:%s:_", e.Status.Code, hxs(e.Status.Message))
	}
	tr := "notrailer"
	if e.Trailer != nil {
		tr = "trailer=" + kvGrouped(e.Trailer.Metadata)
	}
	return strings.Join([]string{h, b, st, tr}, "~")
}

// c06ServerStreamLockstep drives the real serverStream object with random handler programs and
// compares, operation by operation, what it writes and returns with the Lean ServerStream model.
func c06ServerStreamLockstep(r *Run) {
	rng := r.Rand("c06.ss")
	n := r.Scale(600, 40000)
	for i := 0; i < n; i++ {
		rw := &scriptedRW{}
		ss, _ := server.NewServerStream(context.Background(), 7, "", "", "", rw, nil)
		var ops, outs []string
		k := rng.Intn(8)
		allOK := true
		for j := 0; j < k; j++ {
			w := rng.Intn(5) != 0
			allOK = allOK && w
			suffix := map[bool]string{true: "+", false: "!"}[w]
			rw.ok = w
			before := len(rw.out)
			var err error
			switch rng.Intn(4) {
			case 0:
				md := genSmallMD(rng)
				ops = append(ops, "H"+mdInput(md))
				err = ss.SetHeader(md)
			case 1:
				md := genSmallMD(rng)
				ops = append(ops, "S"+mdInput(md)+suffix)
				err = ss.SendHeader(md)
			case 2:
				b := []byte{byte(j)}
				ops = append(ops, "M"+hx(b)+suffix)
				err = ss.SendMsg(&wrapperspb.BytesValue{Value: b})
			case 3:
				md := genSmallMD(rng)
				ops = append(ops, "T"+mdInput(md))
				ss.SetTrailer(md)
			}
			o := "-"
			if len(rw.out) > before {
				o = envCanon(rw.out[len(rw.out)-1])
			}
			if err == nil {
				o += "^ok"
			} else {
				o += "^err"
			}
			outs = append(outs, o)
		}
		w := rng.Intn(6) != 0
		allOK = allOK && w
		rw.ok = w
		code := rng.Intn(17)
		var herr error
		msg := "OK"
		if code != 0 {
			msg = "e"
			herr = status.Error(codes.Code(code), msg)
		}
		before := len(rw.out)
		ss.SendTrailer(herr)
		ops = append(ops, fmt.Sprintf("F%d:%s%s", code, hxs(msg), map[bool]string{true: "+", false: "!"}[w]))
		o := "-"
		if len(rw.out) > before {
			o = envCanon(rw.out[len(rw.out)-1])
		}
		outs = append(outs, o)
		r.Case("ssrun", strings.Join(ops, "/"), strings.Join(outs, " "))
		r.CountN("ssrun.ops", len(ops))
		// the property's own monitor on what this handler program put on the wire (when every write was
		// accepted by the transport: a refused write leaves a hole that is the transport's doing)
		if allOK && len(rw.out) > 0 {
			sh := make([]string, len(rw.out))
			for i, e := range rw.out {
				sh[i] = shapeOf(e)
			}
			r.Case("accS", "stream|"+strings.Join(sh, ";"), "accept")
			r.Count("ssrun.wire.projections")
		}
	}
}

func genSmallMD(rng *rand.Rand) metadata.MD {
	md := metadata.MD{}
	for i, n := 0, rng.Intn(3); i < n; i++ {
		k := []string{"a", "b", "k-bin", "x.y"}[rng.Intn(4)]
		if k == "k-bin" {
			md[k] = append(md[k], genBinValue(rng))
		} else {
			md[k] = append(md[k], genTextValue(rng))
		}
	}
	return md
}

// c06Workloads runs the stream/unary workloads of C01-C04, C07 and C11 over a direct connection and
// hands every per-id projection of the wire to the automata.
func c06Workloads(r *Run) {
	rng := r.Rand("c06.wire")
	rounds := r.Scale(2, 30)
	for round := 0; round < rounds; round++ {
		for _, serialise := range []bool{true, false} {
			rig := NewRig(RigOpt{Serialise: serialise})
			log := NewHandlerLog()
			InstallPrograms(rig.Impl, log, nil)
			var wg sync.WaitGroup
			progs := []string{"echo", "burst:3", "aftereof:2", "early:1", "fail:1:5", "fail:0:13", "burst:0", "early:0", "fail:0:1", "ownctx:1", "fail:1:4"}
			clients := []string{"sendall", "pingpong", "conc", "earlyclose"}
			methods := []string{mBidi, mSrvStream, mCliStream}
			tag := 0
			for _, m := range methods {
				for _, p := range progs {
					c := clients[rng.Intn(len(clients))]
					tag++
					t := fmt.Sprintf("r%d-%d", round, tag)
					wg.Add(1)
					go func(m, p, c, t string) {
						defer wg.Done()
						runStreamCall(context.Background(), rig.CC, m, t, p, c, 1+len(t)%4, nil)
					}(m, p, c, t)
				}
			}
			for i := 0; i < 12; i++ {
				wg.Add(1)
				go func(i int) {
					defer wg.Done()
					ctx := context.Background()
					if i%4 == 3 {
						ctx = metadata.AppendToOutgoingContext(ctx, "x-prog", "fail:0:7")
					}
					if i%6 == 5 {
						callUnary(ctx, rig.CC, nil) // a request message that encodes to zero bytes
						return
					}
					callUnary(ctx, rig.CC, []byte(fmt.Sprintf("u%d-%d", round, i)))
				}(i)
			}
			// methods spelled without the leading slash (the server accepts both spellings): the route of
			// such a stream is as constant as any other's
			for i := 0; i < 3; i++ {
				wg.Add(1)
				go func(i int) {
					defer wg.Done()
					bare := strings.TrimPrefix(mBidi, "/")
					ctx := metadata.AppendToOutgoingContext(context.Background(), "x-tag", fmt.Sprintf("bare%d-%d", round, i), "x-prog", "echo")
					if i == 2 {
						out := new(wrapperspb.BytesValue)
						rig.CC.Invoke(ctx, strings.TrimPrefix(mUnary, "/"), &wrapperspb.BytesValue{Value: []byte("bare")}, out)
						return
					}
					cctx, cancel := context.WithCancel(ctx)
					defer cancel()
					cs, err := rig.CC.NewStream(cctx, descBidi, bare)
					if err != nil {
						return
					}
					sendB(cs, []byte("one"))
					recvB(cs)
					if i == 0 {
						cs.CloseSend()
						recvB(cs)
					} else {
						cancel()
						recvB(cs)
					}
				}(i)
			}
			// a stream cancelled while its handler is still sending: the messages already under way arrive
			// after the client has reset and forgotten the stream — its reset stays its last envelope
			for i := 0; i < 2; i++ {
				wg.Add(1)
				go func(i int) {
					defer wg.Done()
					ctx, cancel := context.WithCancel(context.Background())
					defer cancel()
					ctx = metadata.AppendToOutgoingContext(ctx, "x-tag", fmt.Sprintf("busy%d-%d", round, i), "x-prog", "burst:40")
					cs, err := rig.CC.NewStream(ctx, descBidi, mBidi)
					if err != nil {
						return
					}
					recvB(cs)
					cancel()
					for {
						if _, err := recvB(cs); err != nil {
							return
						}
					}
				}(i)
			}
			// cancellations: a held stream cancelled by its caller, one with a deadline
			for i := 0; i < 3; i++ {
				wg.Add(1)
				go func(i int) {
					defer wg.Done()
					ctx, cancel := context.WithCancel(context.Background())
					if i == 2 {
						ctx, cancel = context.WithTimeout(context.Background(), 30*time.Millisecond)
					}
					defer cancel()
					ctx = metadata.AppendToOutgoingContext(ctx, "x-tag", fmt.Sprintf("hold%d-%d", round, i), "x-prog", "hold")
					cs, err := rig.CC.NewStream(ctx, descBidi, mBidi)
					if err != nil {
						return
					}
					sendB(cs, []byte("one"))
					if i < 2 {
						cancel()
					}
					recvB(cs)
					recvB(cs)
				}(i)
			}
			if !within(3*hangTimeout, wg.Wait) {
				r.Violate("wire.hang", "history", "workload did not finish", round, goroutineDump(), nil)
			}
			// let resets and trailers of the cancelled streams reach the wire
			settleGoroutines(2 + 2 + 8)
			evs := rig.Wire.Snapshot()
			r.Eval(fmt.Sprintf("wire/%d/%v", round, serialise), true)
			checkWire(r, "wire", evs, map[string]any{"round": round, "serialise": serialise})
			rig.Close()
			r.Trace()
		}
	}
	_ = goatorepo.Rpc{}
}

func protoUnmarshal(b []byte, m proto.Message) error { return proto.Unmarshal(b, m) }
