package main

import (
	"context"
	"fmt"

	goat "github.com/avos-io/goat"
	"github.com/avos-io/goat/gen/goatorepo"
)

// c10PendingReset: the connection ends while resets the server owes the peer are still pending — the
// peer sent messages for streams the server does not know (or opens with undecodable metadata), it
// does not read, so the connection's writer is parked in the transport's Write and the next reset
// waits for the writer. Then the transport's write fails, or the server is stopped. Serve must
// return and nothing started for the connection may remain.
func c10PendingReset(r *Run) {
	if !r.Want("serve.pendingreset") {
		return
	}
	body := &goatorepo.Body{Data: []byte{}}
	for i, fault := range []string{"write", "stop", "write", "stop", "write", "stop"} {
		k := 2 + i%3
		kind := []string{"body", "badopen"}[i%2]
		in := map[string]any{"fault": fault, "pending": k, "provoked_by": kind}
		r.Progress("serve.pendingreset", in)
		settleGoroutines(0)
		baseline, _ := goatGoroutines()
		sc := NewScript(0) // unbuffered, nobody reads Out: the first response parks the writer
		srv := goat.NewServer("srv")
		impl := &Impl{}
		impl.SetUnary(func(ctx context.Context, req []byte) ([]byte, error) { return req, nil })
		srv.RegisterService(&echoDesc, impl)
		served := make(chan error, 1)
		go func() { served <- srv.Serve(context.Background(), sc) }()
		fed := 0
		for j := 0; j < k; j++ {
			e := &Rpc{Id: uint64(500 + j), Header: &goatorepo.RequestHeader{Method: mBidi, Source: "peer", Destination: "srv"}}
			if kind == "body" {
				e.Body = body
			} else {
				e.Header.Headers = []*goatorepo.KeyValue{{Key: "x-bin", Value: "!!"}}
			}
			// the read loop takes a message only when it is back in Read: with the writer parked, the second
			// reset parks the read loop too (that is fine), so the third message may not be taken
			d := hangTimeout / 20
			if j == 0 {
				d = hangTimeout // the first one must be read; the later ones may find the read loop parked
			}
			if !within(d, func() { sc.In <- e }) {
				break
			}
			fed++
		}
		if fed == 0 {
			r.Violate("serve.pendingreset.setup", "history", "the server did not read its first request", in, goroutineDump(), nil)
			return
		}
		switch fault {
		case "write":
			sc.FailWrite(errInjectedWrite)
		case "stop":
			srv.Stop()
		}
		if !within(hangTimeout, func() { <-served }) {
			r.Violate("serve.pendingreset.serve-hangs", "history", "Serve did not return after the "+fault+" fault with resets pending", in, c10Events(), goroutineDump())
			sc.FailRead(errInjectedRead)
			sc.FailWrite(errInjectedWrite)
			srv.Stop()
			return
		}
		sc.FailRead(errInjectedRead)
		if n, where := settleGoroutines(baseline); n > baseline {
			r.Violate("serve.pendingreset.goroutines", "history", "goroutines started for the connection remain after Serve returned", in,
				map[string]any{"remaining": n, "baseline": baseline, "where": where}, fmt.Sprintf("%d", baseline))
			return
		}
		r.Eval(fmt.Sprintf("pendingreset/%s/%d/%s", fault, k, kind), true)
		r.Count("c10.pendingreset." + fault)
	}
}
