package main

import (
	"context"
	"fmt"
	"time"

	goat "github.com/avos-io/goat"
	"github.com/avos-io/goat/gen/goatorepo"
	"google.golang.org/protobuf/types/known/wrapperspb"
)

// c16Foreign: a foreign (scripted) client behind the proxy talks to a real server behind the proxy
// (proxy – Demux keyed by source – Serve). Every request that gets an answer on a direct connection
// must get the same answer through the proxy: a good unary request, a unary request whose metadata
// does not decode (the server's early Internal reply), a stream open whose metadata does not decode
// (reset), a body for a stream the server does not know (reset). The direct answers are taken from
// the same server object over a second, direct transport.
func c16Foreign(r *Run) {
	rng := r.Rand("c16.foreign")
	rounds := r.Scale(6, 60)
	for round := 0; round < rounds && r.NumViolations() <= 4; round++ {
		serialise := round%2 == 0
		ctx, cancel := context.WithCancel(context.Background())
		host := newC16Host(ctx, "s1", serialise)
		proxy := goat.NewProxy(ctx, "px", func(id string) (goat.RpcReadWriter, error) { return nil, errPxUnknown }, nil, nil)
		proxy.AddClient("s1", host.pEnd)
		served := make(chan struct{})
		go func() { defer close(served); proxy.Serve() }()
		f := NewScript(64)
		f.Out = make(chan *Rpc, 64)
		proxy.AddClient("f1", f)
		// the same server, directly
		d := NewScript(64)
		d.Out = make(chan *Rpc, 64)
		dserved := make(chan struct{})
		go func() { defer close(dserved); host.srv.Serve(ctx, d) }()

		pb, _ := goat_marshal(&wrapperspb.BytesValue{Value: []byte(fmt.Sprintf("probe-%d", round))})
		bad := []*goatorepo.KeyValue{{Key: "x-bin", Value: "!!"}}
		mk := func(kind string, id uint64) *Rpc {
			h := &goatorepo.RequestHeader{Source: "f1", Destination: "s1"}
			e := &Rpc{Id: id, Header: h}
			switch kind {
			case "unary":
				h.Method, e.Body = mUnary, &goatorepo.Body{Data: pb}
			case "unary.badmeta":
				h.Method, h.Headers, e.Body = mUnary, bad, &goatorepo.Body{Data: pb}
			case "open.badmeta":
				h.Method, h.Headers = mBidi, bad
			case "body.unknown":
				h.Method, e.Body = mBidi, &goatorepo.Body{Data: pb}
			}
			return e
		}
		kinds := []string{"unary", "unary.badmeta", "open.badmeta", "body.unknown"}
		rng.Shuffle(len(kinds), func(i, j int) { kinds[i], kinds[j] = kinds[j], kinds[i] })
		for k, kind := range kinds {
			id := uint64(10 + k)
			in := map[string]any{"round": round, "kind": kind, "id": id, "serialise": serialise}
			r.Progress("foreign", in)
			shape := func(e *Rpc) string {
				if e == nil {
					return "nothing"
				}
				return fmt.Sprintf("id=%d status=%d body=%x reset=%q trailer=%v", e.Id, e.GetStatus().GetCode(), e.GetBody().GetData(), e.GetReset_().GetType(), e.Trailer != nil)
			}
			recv := func(s *Script) *Rpc {
				select {
				case e := <-s.Out:
					return e
				case <-time.After(hangTimeout):
					return nil
				}
			}
			d.In <- mk(kind, id)
			direct := recv(d)
			f.In <- mk(kind, id)
			via := recv(f)
			r.Eval("foreign/"+kind, true)
			r.Count("foreign." + kind)
			if direct == nil {
				r.Violate("foreign.direct", "ops", "the server did not answer on a direct connection", in, nil, nil)
				break
			}
			if shape(via) != shape(direct) {
				r.Violate("foreign.differs", "ops", "a request answered on a direct connection is answered differently (or not at all) through the proxy", in, shape(via), shape(direct))
				break
			}
			if via.GetHeader().GetSource() != "s1" || via.GetHeader().GetDestination() != "f1" {
				r.Violate("foreign.route", "ops", "the answer relayed by the proxy is not addressed from the server to the caller", in, routeCanon(via), "src=s1 dst=f1")
				break
			}
		}
		cancel()
		f.FailRead(errInjectedRead)
		d.FailRead(errInjectedRead)
		host.hEnd.FailRead(errInjectedRead)
		host.pEnd.FailRead(errInjectedRead)
		// Serve ends with its transport or with Server.Stop (its context argument only parents the handlers' contexts)
		host.srv.Stop()
		if !within(hangTimeout, func() { <-served; <-dserved; host.done.Wait() }) {
			r.Violate("foreign.teardown", "ops", "the proxy, the demultiplexer or a Serve did not end after Stop", nil, goroutineDump(), nil)
		}
	}
}
