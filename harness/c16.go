package main

import (
	"context"
	"errors"
	"fmt"
	"io"
	"math/rand"
	"sort"
	"strings"
	"sync"
	"time"

	goat "github.com/avos-io/goat"
	"github.com/avos-io/goat/gen/goatorepo"
	"github.com/avos-io/goat/internal/verifhook"
	"google.golang.org/grpc"
	"google.golang.org/grpc/codes"
	"google.golang.org/grpc/metadata"
	"google.golang.org/grpc/status"
	"google.golang.org/protobuf/proto"
)

// C16 — a proxy delivers each accepted envelope once, in order, to the right peer.
//
// Scenarios
//   lockstep   real goat.NewProxy, peers are scripted transports; envelopes are fed one at a time,
//              the harness waits for the one hook event each of them must produce, reads what the
//              destination is handed, and writes the whole scenario as a `pxseq` case for the Lean
//              model; the proxyDelivery monitor is evaluated on the same observations.
//   burst      the same, with one destination that is not drained: the 17th envelope queued behind a
//              stuck writer is dropped silently (known finding proxy-drop-above-buffer); a drop with
//              room in the queue is a violation.
//   e2e        clients – proxy – goat.NewDemux keyed by source – one Serve per client, the C01–C04
//              workloads with at most 12 envelopes outstanding per destination; monitors: pairing,
//              checkStream, status, metadata, no drop event, proxyDelivery on the pipes' wire taps.
//   foreign    a scripted foreign client behind the proxy: requests the server answers by itself (malformed
//              metadata, unknown stream) get the same answer through the proxy as on a direct connection.
//   relayburst a 40-message server stream towards a client that does not read: drops are counted by
//              the hook events; loss explained by them is the known finding, any other loss a violation.

func init() { register("C16", runC16) }

func runC16(r *Run) {
	if r.Want("lockstep") {
		c16Lockstep(r)
	}
	if r.Want("burst") {
		c16Burst(r)
	}
	if r.Want("e2e") {
		c16E2E(r)
	}
	if r.Want("relayburst") {
		c16RelayBurst(r)
	}
	if r.Want("foreign") {
		c16Foreign(r)
	}
	c16SlowReader(r)
	// the server side demultiplexed per client: clients come and go with calls in flight (c18c.go)
	c18CancelWithUnaryInFlight(r)
	// calls of the library's client relayed to the library's server over pipes and over the library's
	// channel transport: statuses arrive, a stream the server resets is not a completed one (c03b.go)
	c03ViaProxy(r)
	// dial on demand AGAIN after the dialled connection has failed: the envelope the proxy then accepts
	// for the name reaches the newly dialled connection
	if r.Want("redial") {
		c17RunAll(r, []c17Scenario{c17DialledFails("redial")})
	}
}

// ---------------------------------------------------------------- envelope text (Goat/Drv/PxOps.lean)

func pxKVText(kvs []*goatorepo.KeyValue) string {
	if len(kvs) == 0 {
		return "_"
	}
	p := make([]string, len(kvs))
	for i, kv := range kvs {
		p[i] = hxs(kv.GetKey()) + "=" + hxs(kv.GetValue())
	}
	return strings.Join(p, ";")
}

func pxEnvText(e *Rpc) string {
	h := "nohdr"
	if e.Header != nil {
		h = strings.Join([]string{"h", hxs(e.Header.Method), hxs(e.Header.Source), hxs(e.Header.Destination),
			pxKVText(e.Header.Headers), hxList(e.Header.ProxyRecord), hxList(e.Header.ProxyNext)}, ":")
	}
	b := "nobody"
	if e.Body != nil {
		b = "body=" + hx(e.Body.Data)
	}
	st := "nostatus"
	if e.Status != nil {
		st = fmt.Sprintf("status=%d:%s", e.Status.Code, hxs(e.Status.Message))
	}
	tr := "notrailer"
	if e.Trailer != nil {
		tr = "trailer=" + pxKVText(e.Trailer.Metadata)
	}
	rs := "noreset"
	if e.Reset_ != nil {
		rs = "reset=" + hxs(e.Reset_.Type)
	}
	return fmt.Sprintf("%d~%s~%s~%s~%s~%s", e.Id, h, b, st, tr, rs)
}

// ---------------------------------------------------------------- interceptor family

type pxIcept struct {
	Kind string // none | rw | rf
	A, B string
	Nil  bool // kind none passed as a nil function
}

func (i pxIcept) text() string {
	switch i.Kind {
	case "rw":
		return "rw:" + hxs(i.A) + ":" + hxs(i.B)
	case "rf":
		return "rf:" + hxs(i.A)
	}
	return "none"
}

var errPxRefused = errors.New("refused by the interceptor")

func (i pxIcept) fn() goat.RpcIntercepter {
	switch i.Kind {
	case "rw":
		return func(h *goatorepo.RequestHeader) error {
			if h.Destination == i.A {
				h.Destination = i.B
			}
			return nil
		}
	case "rf":
		return func(h *goatorepo.RequestHeader) error {
			if h.Destination == i.A {
				return errPxRefused
			}
			return nil
		}
	}
	if i.Nil {
		return nil
	}
	return func(h *goatorepo.RequestHeader) error { return nil }
}

// pxExpect is the property's own reading of "accepts" and of the routing fields (DESIGN C16): it
// says whether the proxy named name must forward e read from the connection attached under
// sender, and if so to whom and in what form.
func pxExpect(name string, ic pxIcept, sender string, e *Rpc) (dest string, fwd *Rpc, accepted bool) {
	if e.Header == nil || e.Header.Source != sender {
		return "", nil, false
	}
	f := proto.Clone(e).(*Rpc)
	switch ic.Kind {
	case "rw":
		if f.Header.Destination == ic.A {
			f.Header.Destination = ic.B
		}
	case "rf":
		if f.Header.Destination == ic.A {
			return "", nil, false
		}
	}
	dest = f.Header.Destination
	f.Header.ProxyRecord = append(f.Header.ProxyRecord, name)
	if n := len(f.Header.ProxyNext); n > 0 {
		dest = f.Header.ProxyNext[n-1]
		f.Header.ProxyNext = f.Header.ProxyNext[:n-1]
		if n == 1 {
			f.Header.ProxyNext = nil
		}
	}
	return dest, f, true
}

// pxDelivery is the proxyDelivery monitor: per destination and source, what must be handed over,
// in order, exactly once.
type pxDelivery struct {
	want map[string]map[string][]*Rpc
}

func newPxDelivery() *pxDelivery { return &pxDelivery{want: map[string]map[string][]*Rpc{}} }

func (d *pxDelivery) expect(dest, src string, e *Rpc) {
	if d.want[dest] == nil {
		d.want[dest] = map[string][]*Rpc{}
	}
	d.want[dest][src] = append(d.want[dest][src], e)
}

// got checks one envelope handed to dest; it returns "" when it is the next expected one of its
// (source, destination) pair.
func (d *pxDelivery) got(dest string, e *Rpc) string {
	src := e.GetHeader().GetSource()
	q := d.want[dest][src]
	if len(q) == 0 {
		return fmt.Sprintf("peer %q was handed an envelope nobody sent to it (or a duplicate): %s", dest, pxEnvText(e))
	}
	if !proto.Equal(q[0], e) {
		return fmt.Sprintf("peer %q was handed %s, expected next from %q: %s", dest, pxEnvText(e), src, pxEnvText(q[0]))
	}
	d.want[dest][src] = q[1:]
	return ""
}

// unexpect removes the newest expectation (the envelope was dropped above the buffer).
func (d *pxDelivery) unexpect(dest, src string) {
	q := d.want[dest][src]
	if len(q) > 0 {
		d.want[dest][src] = q[:len(q)-1]
	}
}

func (d *pxDelivery) pending(dest string) int {
	n := 0
	for _, q := range d.want[dest] {
		n += len(q)
	}
	return n
}

// ---------------------------------------------------------------- transports

// pxTap is a Script that counts entries into Write, so that "the writer goroutine holds an
// envelope and is stuck in Write" is an observable instant.
type pxTap struct {
	*Script
	wmu    sync.Mutex
	wcond  *sync.Cond
	writes int
}

func newPxTap(cap int) *pxTap {
	t := &pxTap{Script: NewScript(cap)}
	t.wcond = sync.NewCond(&t.wmu)
	return t
}

func (t *pxTap) Write(ctx context.Context, r *Rpc) error {
	t.wmu.Lock()
	t.writes++
	t.wcond.Broadcast()
	t.wmu.Unlock()
	return t.Script.Write(ctx, r)
}

func (t *pxTap) WaitWrites(n int, timeout time.Duration) bool {
	stop := time.AfterFunc(timeout, func() { t.wmu.Lock(); t.wcond.Broadcast(); t.wmu.Unlock() })
	defer stop.Stop()
	deadline := time.Now().Add(timeout)
	t.wmu.Lock()
	defer t.wmu.Unlock()
	for t.writes < n {
		if time.Now().After(deadline) {
			return false
		}
		t.wcond.Wait()
	}
	return true
}

// ---------------------------------------------------------------- the scripted world around one proxy

type pxObj struct {
	name string
	tap  *pxTap // nil while a dial is in progress or after it failed
}

type pxWorld struct {
	r     *Run
	scen  string
	name  string
	icept pxIcept
	byRef bool // envelopes are handed to the proxy by reference (item N instead of E)

	ctx      context.Context
	cancel   context.CancelFunc
	proxy    *goat.Proxy
	served   chan struct{}
	panicked chan struct{}
	panicV   any

	mu        sync.Mutex
	cond      *sync.Cond
	cur       map[string]*pxTap // transport currently attached / dialled under a name
	objs      []*pxObj          // heap: order of AddClient / dial
	dialable  map[string]bool
	stuck     map[string]bool       // names whose transport the harness does not drain on its own
	slow      map[string]chan error // dial gates (c17): newConnection blocks until a value arrives
	dialCalls []string
	disc      map[string]int
	discSeen  map[string]int
	discErr   map[string][]string
	hasDisc   bool

	peers []string
	items []string
	outs  []string
	mon   *pxDelivery
	infl  map[string]int // per destination: enqueued and not yet read by the harness
	lost  map[string]int // per destination: enqueued into an object whose dial failed
	drops int
	dead  bool
	// partial: the scenario was cut short on purpose (cancellation at a step): no completeness demand
	partial bool
	// quiet: no Progress per item (random families write one per scenario; Progress syncs the file)
	quiet bool
}

var errPxUnknown = errors.New("no such peer")

func newPxWorld(r *Run, scen, name string, ic pxIcept, withDisconnect bool) *pxWorld {
	w := &pxWorld{r: r, scen: scen, name: name, icept: ic,
		served: make(chan struct{}), panicked: make(chan struct{}),
		cur: map[string]*pxTap{}, dialable: map[string]bool{}, stuck: map[string]bool{}, slow: map[string]chan error{},
		hasDisc: withDisconnect, discSeen: map[string]int{},
		disc: map[string]int{}, discErr: map[string][]string{}, mon: newPxDelivery(), infl: map[string]int{}, lost: map[string]int{}}
	w.cond = sync.NewCond(&w.mu)
	w.ctx, w.cancel = context.WithCancel(context.Background())
	var onDisc goat.ClientDisconnect
	if withDisconnect {
		onDisc = func(id string, reason error) {
			w.mu.Lock()
			w.disc[id]++
			w.discErr[id] = append(w.discErr[id], fmt.Sprint(reason))
			w.cond.Broadcast()
			w.mu.Unlock()
		}
	}
	w.proxy = goat.NewProxy(w.ctx, name, w.newConnection, ic.fn(), onDisc)
	return w
}

func (w *pxWorld) newConnection(id string) (goat.RpcReadWriter, error) {
	w.mu.Lock()
	w.dialCalls = append(w.dialCalls, id)
	gate := w.slow[id]
	w.cond.Broadcast()
	w.mu.Unlock()
	if gate != nil {
		if err := <-gate; err != nil {
			return nil, err
		}
	}
	w.mu.Lock()
	defer w.mu.Unlock()
	if !w.dialable[id] {
		return nil, errPxUnknown
	}
	cap := 64
	if w.stuck[id] {
		cap = 0
	}
	t := newPxTap(cap)
	w.cur[id] = t
	for i := len(w.objs) - 1; i >= 0; i-- {
		if w.objs[i].name == id && w.objs[i].tap == nil {
			w.objs[i].tap = t
			break
		}
	}
	w.cond.Broadcast()
	return t, nil
}

// waitCond waits until f (evaluated under w.mu) holds.
func (w *pxWorld) waitCond(f func() bool) bool {
	stop := time.AfterFunc(hangTimeout, func() { w.mu.Lock(); w.cond.Broadcast(); w.mu.Unlock() })
	defer stop.Stop()
	deadline := time.Now().Add(hangTimeout)
	w.mu.Lock()
	defer w.mu.Unlock()
	for !f() {
		if time.Now().After(deadline) {
			return false
		}
		w.cond.Wait()
	}
	return true
}

func (w *pxWorld) start() {
	go func() {
		defer close(w.served)
		defer func() {
			if x := recover(); x != nil {
				w.mu.Lock()
				w.panicV = x
				w.mu.Unlock()
				close(w.panicked)
				verifhook.Emit("harness.proxy.panic", 0, fmt.Sprint(x))
			}
		}()
		w.proxy.Serve()
	}()
}

// attach is AddClient(name) with a fresh scripted transport; the heap index is returned.
func (w *pxWorld) attach(name string, record bool) (*pxTap, int) {
	cap := 64
	w.mu.Lock()
	if w.stuck[name] {
		cap = 0
	}
	t := newPxTap(cap)
	if w.cur[name] != nil {
		// the replaced connection lives on, but the harness no longer follows what it is handed
		delete(w.mon.want, name)
		w.infl[name] = 0
	}
	w.cur[name] = t
	w.objs = append(w.objs, &pxObj{name: name, tap: t})
	idx := len(w.objs) - 1
	w.mu.Unlock()
	w.proxy.AddClient(name, t)
	if record {
		w.items = append(w.items, "A"+hxs(name))
		w.outs = append(w.outs, "a")
	} else {
		w.peers = append(w.peers, name)
	}
	return t, idx
}

func (w *pxWorld) tapOf(name string) *pxTap {
	w.mu.Lock()
	defer w.mu.Unlock()
	return w.cur[name]
}

func (w *pxWorld) input() string {
	items := "_"
	if len(w.items) > 0 {
		items = strings.Join(w.items, " ")
	}
	return hxs(w.name) + "|" + w.icept.text() + "|" + hxList(w.peers) + "|" + items
}

func (w *pxWorld) output() string {
	if len(w.outs) == 0 {
		return "_"
	}
	return strings.Join(w.outs, " ")
}

func (w *pxWorld) fail(kind, detail string, observed any) {
	w.dead = true
	w.r.Violate(w.scen+"."+kind, "ops", detail, w.input(), observed, w.output())
}

var pxDecisionSites = map[string]bool{"proxy.enqueue": true, "proxy.ignore": true, "proxy.refused": true, "proxy.drop": true, "harness.proxy.panic": true}

// send feeds env as read from sender's transport and waits for forwardRpc's decision on it. It
// records the E item, handles a dial it caused, and returns the decision event.
func (w *pxWorld) send(sender string, env *Rpc) (site, dest string, ok bool) {
	t := w.tapOf(sender)
	if t == nil {
		w.fail("harness", "no transport for sender", sender)
		return "", "", false
	}
	mark := len(hooks.Events())
	orig := proto.Clone(env).(*Rpc)
	if !w.quiet {
		w.r.Progress(w.scen, map[string]any{"pxseq": w.input(), "next": "E" + hxs(sender) + "@" + pxEnvText(orig)})
	}
	w.mu.Lock()
	before := make(map[string]bool, len(w.cur))
	for k := range w.cur {
		before[k] = true
	}
	w.mu.Unlock()
	// by reference (as an in-process transport hands envelopes over): Go's distinction between a nil
	// and an empty repeated field survives, which no protobuf-decoded envelope shows
	item := "E"
	var wire *Rpc = proto.Clone(env).(*Rpc)
	if w.byRef || (env.GetHeader() != nil && env.Header.ProxyNext != nil && len(env.Header.ProxyNext) == 0) {
		item, wire = "N", env
		w.r.Count(w.scen + ".by_reference")
	}
	select {
	case t.In <- wire:
	case <-time.After(hangTimeout):
		w.fail("stall", "the proxy stopped reading from an attached peer", sender)
		return "", "", false
	}
	var dec Event
	found := hooks.WaitFor(func(e Event) bool {
		if e.Seq >= mark && pxDecisionSites[e.Site] {
			dec = e
			return true
		}
		return false
	}, hangTimeout)
	w.items = append(w.items, item+hxs(sender)+"@"+pxEnvText(orig))
	if !found {
		w.outs = append(w.outs, "nothing")
		w.fail("stall", "an envelope read from an attached peer produced no forwarding decision", goroutineDump())
		return "", "", false
	}
	if dec.Site == "harness.proxy.panic" {
		w.outs = append(w.outs, "panic")
		w.fail("crash", "an envelope made the proxy's forwarding loop panic", dec.Detail)
		return "", "", false
	}
	dialed, didDial := "", false
	for _, e := range hooks.Events()[mark:] {
		if e.Site == "proxy.dial" && e.Seq < dec.Seq {
			dialed, didDial = e.Detail, true
		}
	}
	out := ""
	switch dec.Site {
	case "proxy.ignore":
		out = "ignore"
	case "proxy.refused":
		out = "refused"
	case "proxy.enqueue":
		out = fmt.Sprintf("enq:%s:%d", hxs(dec.Detail), dec.ID)
	case "proxy.drop":
		out = fmt.Sprintf("drop:%s:%d", hxs(dec.Detail), dec.ID)
	}
	if didDial {
		out = "dial:" + hxs(dialed) + "+" + out
		w.mu.Lock()
		w.objs = append(w.objs, &pxObj{name: dialed, tap: w.cur[dialed]})
		w.mu.Unlock()
	}
	w.outs = append(w.outs, out)
	w.r.Count(w.scen + ".decision." + strings.TrimPrefix(dec.Site, "proxy."))
	if didDial && before[dialed] {
		w.dead = true
		w.r.Violate(w.scen+".misrouted", "ops", fmt.Sprintf("an envelope for %q did not go to the live connection attached under that name: the proxy dialled instead", dialed), w.input(), w.output(), nil)
		return dec.Site, dec.Detail, false
	}

	// the monitor: acceptance and destination
	wantDest, fwd, accepted := pxExpect(w.name, w.icept, sender, orig)
	forwarded := dec.Site == "proxy.enqueue" || dec.Site == "proxy.drop"
	switch {
	case !accepted && forwarded:
		w.fail("spoof", "the proxy forwarded an envelope it must not accept (header missing, source differs from the sending connection's name, or refused by the interceptor)", out)
		return dec.Site, dec.Detail, false
	case accepted && !forwarded:
		w.fail("refuse", "the proxy did not forward an acceptable envelope", out)
		return dec.Site, dec.Detail, false
	case accepted && dec.Detail != wantDest:
		w.fail("route", fmt.Sprintf("forwarded to %q, the destination after rewriting / return route is %q", dec.Detail, wantDest), out)
		return dec.Site, dec.Detail, false
	}
	if dec.Site == "proxy.enqueue" {
		w.mon.expect(wantDest, sender, fwd)
		w.infl[wantDest]++
	}
	if dec.Site == "proxy.drop" {
		w.drops++
		// the writer goroutine holds at most one envelope, the queue has 16 places
		if w.infl[wantDest] < goat.VerifClientBufferSize {
			w.fail("drop", fmt.Sprintf("an envelope was dropped with only %d envelopes outstanding for %q", w.infl[wantDest], wantDest), out)
			return dec.Site, dec.Detail, false
		}
	}
	if didDial && !w.dialOutcome(dialed, mark) {
		return dec.Site, dec.Detail, false
	}
	return dec.Site, dec.Detail, true
}

// dialOutcome waits for newConnection(name) and records the K item.
func (w *pxWorld) dialOutcome(name string, mark int) bool {
	w.mu.Lock()
	canDial := w.dialable[name]
	gate := w.slow[name]
	w.mu.Unlock()
	if gate != nil {
		return true // the scenario completes the dial itself (dialFinish)
	}
	if !w.waitCond(func() bool {
		for _, c := range w.dialCalls {
			if c == name {
				return true
			}
		}
		return false
	}) {
		w.fail("dial", "the proxy did not dial a destination it has no connection for", name)
		return false
	}
	return w.dialFinish(name, canDial, mark)
}

// dialFinish records the outcome of a dial (K item): up, or failed and therefore removed and
// reported. mark = length of the event log before the envelope that caused the dial.
func (w *pxWorld) dialFinish(name string, up bool, mark int) bool {
	w.items = append(w.items, "K"+hxs(name)+":"+map[bool]string{true: "ok", false: "err"}[up])
	if up {
		if !w.waitCond(func() bool { return w.cur[name] != nil }) {
			w.outs = append(w.outs, "nothing")
			w.fail("dial", "newConnection did not return", name)
			return false
		}
		w.outs = append(w.outs, "up")
		return true
	}
	var ev Event
	if !hooks.WaitFor(func(e Event) bool {
		if e.Seq >= mark && (e.Site == "proxy.remove" || e.Site == "proxy.remove.stale") && e.Detail == name {
			ev = e
			return true
		}
		return false
	}, hangTimeout) {
		w.outs = append(w.outs, "nothing")
		w.fail("dialerr", "a failed dial was never reported to the forwarding loop", name)
		return false
	}
	// on a tree that always deletes, the stale event is followed by a remove event
	out := "down:removed"
	if ev.Site == "proxy.remove.stale" {
		out = "down:stale"
	}
	w.outs = append(w.outs, out)
	if w.hasDisc {
		// I6: reported to the disconnect callback at least once
		if !w.waitCond(func() bool { return w.disc[name] > w.discSeen[name] }) {
			w.fail("disconnect", "a failed dial was not reported to the disconnect callback", name)
			return false
		}
		w.mu.Lock()
		w.discSeen[name] = w.disc[name]
		w.mu.Unlock()
	}
	w.mu.Lock()
	delete(w.cur, name)
	w.mu.Unlock()
	w.lost[name] += w.infl[name]
	for s := range w.mon.want[name] {
		delete(w.mon.want[name], s)
	}
	w.infl[name] = 0
	return true
}

// take reads the next envelope handed to name's transport (T item), or with item "W" the one a
// stuck writer was holding.
func (w *pxWorld) take(name, item string) bool {
	t := w.tapOf(name)
	if t == nil {
		w.fail("harness", "no transport to read from", name)
		return false
	}
	w.items = append(w.items, item+hxs(name))
	select {
	case e := <-t.Out:
		w.outs = append(w.outs, hxs(name)+">"+pxEnvText(e))
		w.infl[name]--
		if msg := w.mon.got(name, e); msg != "" {
			w.fail("delivery", msg, pxEnvText(e))
			return false
		}
		return true
	case <-time.After(hangTimeout):
		w.outs = append(w.outs, "empty")
		w.fail("lost", fmt.Sprintf("an envelope accepted for %q was not handed to it", name), goroutineDump())
		return false
	}
}

// hold waits until name's writer goroutine has entered its n-th Write (H item).
func (w *pxWorld) hold(name string, n int) bool {
	t := w.tapOf(name)
	w.items = append(w.items, "H"+hxs(name))
	if t == nil || !t.WaitWrites(n, hangTimeout) {
		w.outs = append(w.outs, "empty")
		w.fail("lost", fmt.Sprintf("the writer of %q never picked up a queued envelope", name), nil)
		return false
	}
	w.outs = append(w.outs, "held")
	return true
}

// finish cancels the proxy, writes the lock-step case and checks completeness.
func (w *pxWorld) finish(lockstep bool) {
	if !w.dead && !w.partial {
		for d := range w.mon.want {
			if n := w.mon.pending(d); n > 0 && w.tapOf(d) != nil && !w.stuck[d] {
				w.fail("lost", fmt.Sprintf("%d accepted envelope(s) for %q were never handed to it", n, d), nil)
			}
		}
	}
	if lockstep && !w.dead {
		w.r.Case("pxseq", w.input(), w.output())
	}
	w.cancel()
	w.mu.Lock()
	for _, g := range w.slow {
		select {
		case g <- errPxUnknown:
		default:
		}
	}
	w.mu.Unlock()
	if !within(hangTimeout, func() { <-w.served }) {
		w.r.Violate(w.scen+".serve", "ops", "Serve did not return after the proxy's context was cancelled", w.input(), goroutineDump(), nil)
	}
}

// ---------------------------------------------------------------- generators

type pxNames struct {
	attached []string
	dialable []string
	unknown  []string
	special  []string // the interceptor's alias / refused name
}

func (n pxNames) any(rng *rand.Rand) string {
	all := append(append(append(append([]string{}, n.attached...), n.dialable...), n.unknown...), n.special...)
	return all[rng.Intn(len(all))]
}

func pick(rng *rand.Rand, l []string) string { return l[rng.Intn(len(l))] }

func pxGenEnv(rng *rand.Rand, id uint64, sender string, n pxNames) *Rpc {
	e := &Rpc{Id: id}
	if rng.Intn(100) >= 7 {
		h := &goatorepo.RequestHeader{Method: pick(rng, []string{"/verif.Echo/Unary", "/verif.Echo/Bidi", "", "/a/b"})}
		switch x := rng.Intn(100); {
		case x < 78:
			h.Source = sender
		case x < 88:
			h.Source = pick(rng, n.attached)
		case x < 93:
			h.Source = ""
		default:
			h.Source = n.any(rng)
		}
		switch x := rng.Intn(100); {
		case x < 45:
			h.Destination = pick(rng, n.attached)
		case x < 65 && len(n.dialable) > 0:
			h.Destination = pick(rng, n.dialable)
		case x < 75:
			h.Destination = pick(rng, n.unknown)
		case x < 90 && len(n.special) > 0:
			h.Destination = pick(rng, n.special)
		case x < 93:
			h.Destination = ""
		case x < 96:
			h.Destination = sender
		default:
			h.Destination = n.any(rng)
		}
		if rng.Intn(4) == 0 {
			k := 1 + rng.Intn(3)
			for i := 0; i < k; i++ {
				h.ProxyNext = append(h.ProxyNext, n.any(rng))
			}
			if rng.Intn(3) > 0 {
				h.ProxyNext[k-1] = pick(rng, append(append([]string{}, n.attached...), n.dialable...))
			}
		} else if rng.Intn(8) == 0 {
			// a route that has been used up: empty, but not nil (send hands such an envelope over by reference)
			h.ProxyNext = []string{}
		}
		if rng.Intn(3) == 0 {
			for i, k := 0, 1+rng.Intn(2); i < k; i++ {
				h.ProxyRecord = append(h.ProxyRecord, pick(rng, []string{"px0", "edge", sender}))
			}
		}
		for i, k := 0, rng.Intn(3); i < k; i++ {
			h.Headers = append(h.Headers, &goatorepo.KeyValue{Key: genKey(rng, false), Value: genTextValue(rng)})
		}
		e.Header = h
	}
	if rng.Intn(10) < 6 {
		e.Body = &goatorepo.Body{Data: genPayload(rng, 64)}
	}
	if rng.Intn(5) == 0 {
		e.Status = &goatorepo.ResponseStatus{Code: int32(rng.Intn(17)), Message: genTextValue(rng)}
	}
	if rng.Intn(10) < 3 {
		e.Trailer = &goatorepo.Trailer{}
		if rng.Intn(2) == 0 {
			e.Trailer.Metadata = []*goatorepo.KeyValue{{Key: genKey(rng, false), Value: genTextValue(rng)}}
		}
	}
	if rng.Intn(10) == 0 {
		e.Reset_ = &goatorepo.Reset{Type: "RST_STREAM"}
	}
	return e
}

func pxGoodEnv(id uint64, src, dst string) *Rpc {
	return &Rpc{Id: id, Header: &goatorepo.RequestHeader{Method: "/verif.Echo/Unary", Source: src, Destination: dst},
		Body: &goatorepo.Body{Data: []byte(fmt.Sprintf("probe-%d", id))}}
}

func pxGenIcept(rng *rand.Rand, n *pxNames) pxIcept {
	switch rng.Intn(3) {
	case 0:
		return pxIcept{Kind: "none", Nil: rng.Intn(2) == 0}
	case 1:
		n.special = []string{"svc"}
		targets := append(append([]string{}, n.attached...), n.dialable...)
		if rng.Intn(5) == 0 {
			targets = append(targets, n.unknown...)
		}
		return pxIcept{Kind: "rw", A: "svc", B: pick(rng, targets)}
	}
	x := n.any(rng)
	return pxIcept{Kind: "rf", A: x}
}

// ---------------------------------------------------------------- lockstep

func c16Lockstep(r *Run) {
	rng := r.Rand("c16.lockstep")
	n := r.Scale(250, 6000)
	for i := 0; i < n && r.NumViolations() <= 4; i++ {
		nc := 1 + rng.Intn(8)
		ns := 1 + rng.Intn(4)
		names := pxNames{unknown: []string{"u1", "u2"}}
		for c := 0; c < nc; c++ {
			names.attached = append(names.attached, fmt.Sprintf("c%d", c+1))
		}
		for s := 0; s < ns; s++ {
			if rng.Intn(2) == 0 {
				names.attached = append(names.attached, fmt.Sprintf("s%d", s+1))
			} else {
				names.dialable = append(names.dialable, fmt.Sprintf("s%d", s+1))
			}
		}
		ic := pxGenIcept(rng, &names)
		length := 4 + rng.Intn(r.Scale(28, 60))
		c16LockstepOne(r, i, rng, names, ic, length)
		r.Count(fmt.Sprintf("lockstep.clients.%d", nc))
		r.Count(fmt.Sprintf("lockstep.servers.%d", ns))
		r.Count("lockstep.icept." + ic.Kind)
	}
}

func c16LockstepOne(r *Run, idx int, rng *rand.Rand, names pxNames, ic pxIcept, length int) {
	hooks.Reset(true)
	defer hooks.Reset(false)
	r.Progress("lockstep", map[string]any{"index": idx, "seed": r.Seed, "names": fmt.Sprint(names), "interceptor": ic.text(), "length": length, "replay": "-only lockstep with the same seed and tier regenerates scenario number index"})
	w := newPxWorld(r, "lockstep", "px", ic, true)
	w.quiet = true
	for _, d := range names.dialable {
		w.dialable[d] = true
	}
	for _, a := range names.attached {
		w.attach(a, false)
	}
	w.start()
	defer func() { w.finish(true) }()

	connected := func() []string {
		w.mu.Lock()
		defer w.mu.Unlock()
		l := make([]string, 0, len(w.cur))
		for k := range w.cur {
			l = append(l, k)
		}
		sort.Strings(l)
		return l
	}
	id := uint64(0)
	step := func(sender string, env *Rpc) bool {
		site, dest, ok := w.send(sender, env)
		if !ok {
			return false
		}
		if site == "proxy.enqueue" && w.tapOf(dest) != nil {
			return w.take(dest, "T")
		}
		return true
	}
	for k := 0; k < length; k++ {
		if k >= 2 && rng.Intn(8) == 0 {
			// a peer attaches again under its name while its previous connection is still open: from now on
			// everything for the name goes to the new connection, in order, nothing to the old one
			w.attach(pick(rng, names.attached), true)
			r.Count("lockstep.reattach")
			continue
		}
		id++
		sender := pick(rng, connected())
		if !step(sender, pxGenEnv(rng, id, sender, names)) {
			return
		}
	}
	// nothing else is queued anywhere: a probe to every connected peer is the next thing it is handed
	conn := connected()
	for _, d := range conn {
		id++
		sender := conn[rng.Intn(len(conn))]
		if ic.Kind == "rf" && ic.A == d {
			continue
		}
		if !step(sender, pxGoodEnv(id, sender, d)) {
			return
		}
	}
	r.Eval("lockstep/"+w.input(), true)
	r.CountN("lockstep.envelopes", int(id))
}

// ---------------------------------------------------------------- burst above the buffer

func c16Burst(r *Run) {
	rng := r.Rand("c16.burst")
	n := r.Scale(12, 200)
	drops := 0
	for i := 0; i < n && r.NumViolations() <= 4; i++ {
		c16BurstOne(r, rng, 1+rng.Intn(5), rng.Intn(3), rng.Intn(2) == 0, &drops)
	}
	if drops > 0 {
		r.KnownFinding("proxy-drop-above-buffer", fmt.Sprintf("burst;proxy.drop %d envelopes sent to a peer that already had 17 outstanding (one in its stuck writer, 16 queued) were dropped silently", drops))
	}
}

// c16BurstOne: a sends to b, whose transport is not drained. extra = envelopes beyond writer + queue;
// refill = after reading some back, send again.
func c16BurstOne(r *Run, rng *rand.Rand, extra, live int, dialled bool, drops *int) {
	hooks.Reset(true)
	defer hooks.Reset(false)
	w := newPxWorld(r, "burst", "px", pxIcept{Kind: "none"}, true)
	w.stuck["b"] = true
	w.attach("a", false)
	w.attach("c", false)
	if dialled {
		w.dialable["b"] = true
	} else {
		w.attach("b", false)
	}
	w.start()
	defer func() { w.finish(true) }()
	id := uint64(0)
	writes := 0
	liveTrip := func() bool {
		for k := 0; k < live; k++ {
			id++
			if _, _, ok := w.send("a", pxGoodEnv(id, "a", "c")); !ok || !w.take("c", "T") {
				return false
			}
			id++
			if _, _, ok := w.send("c", pxGoodEnv(id, "c", "a")); !ok || !w.take("a", "T") {
				return false
			}
		}
		return true
	}
	sendB := func(wantSite string) bool {
		id++
		from := "a"
		if rng.Intn(3) == 0 {
			from = "c"
		}
		site, _, ok := w.send(from, pxGoodEnv(id, from, "b"))
		if !ok {
			return false
		}
		if site == "proxy.drop" {
			*drops++
		}
		if site != wantSite {
			// the model comparison reports it; the monitor only knows "no drop below the buffer"
			r.Count("burst.unexpected." + site)
		}
		return true
	}
	// first envelope: the writer takes it and is stuck in Write
	if !sendB("proxy.enqueue") {
		return
	}
	writes++
	if !w.hold("b", writes) {
		return
	}
	for k := 0; k < goat.VerifClientBufferSize; k++ {
		if !sendB("proxy.enqueue") {
			return
		}
		if k == 7 && !liveTrip() {
			return
		}
	}
	for k := 0; k < extra; k++ {
		if !sendB("proxy.drop") {
			return
		}
	}
	if !liveTrip() {
		return
	}
	// read two back: the writer moves on, two places are free again
	for k := 0; k < 2; k++ {
		if !w.take("b", "W") {
			return
		}
		writes++
		if !w.hold("b", writes) {
			return
		}
	}
	if !sendB("proxy.enqueue") || !sendB("proxy.enqueue") || !sendB("proxy.drop") {
		return
	}
	// drain: the held one, then the queue
	if !w.take("b", "W") {
		return
	}
	for w.infl["b"] > 0 {
		if !w.take("b", "T") {
			return
		}
	}
	id++
	if _, _, ok := w.send("a", pxGoodEnv(id, "a", "b")); !ok || !w.take("b", "T") {
		return
	}
	r.Eval(fmt.Sprintf("burst/%d/%d/%v", extra, live, dialled), true)
	r.Count("burst.scenarios")
}

// ---------------------------------------------------------------- end to end

// c16Host is one server behind the proxy: shared transport – Demux keyed by source – one Serve per client.
type c16Host struct {
	name   string
	srv    *goat.Server
	impl   *Impl
	log    *HandlerLog
	pEnd   *End // the proxy's end
	hEnd   *End
	wire   *Wire
	demux  *goat.Demux
	mu     sync.Mutex
	serves int
	done   sync.WaitGroup
}

func c16WrapMetadata(impl *Impl) {
	u := impl.getUnary()
	impl.SetUnary(func(ctx context.Context, req []byte) ([]byte, error) { return u(ctx, req) })
	s := impl.getStream()
	impl.SetStream(func(method string, ss grpc.ServerStream) error {
		if v := mdGet(ss.Context(), "x-md-echo"); v != "" {
			md, _ := metadata.FromIncomingContext(ss.Context())
			ss.SetHeader(metadata.MD{"h-echo": {v}, "h-echo-bin": md.Get("x-md-bin")})
			ss.SetTrailer(metadata.MD{"t-echo": {v}, "t-echo-bin": md.Get("x-md-bin")})
		}
		return s(method, ss)
	})
}

func newC16Host(ctx context.Context, name string, serialise bool) *c16Host {
	h := &c16Host{name: name, wire: &Wire{}, impl: &Impl{}, log: NewHandlerLog()}
	h.pEnd, h.hEnd = NewPipe(4096, serialise, h.wire)
	h.srv = goat.NewServer(name)
	h.srv.RegisterService(&echoDesc, h.impl)
	InstallPrograms(h.impl, h.log, nil)
	c16WrapMetadata(h.impl)
	h.demux = goat.NewDemux(ctx, h.hEnd, func(r *Rpc) string { return r.GetHeader().GetSource() },
		func(rw goat.RpcReadWriter) {
			h.mu.Lock()
			h.serves++
			h.mu.Unlock()
			h.done.Add(1)
			defer h.done.Done()
			h.srv.Serve(ctx, rw)
		})
	h.done.Add(1)
	go func() { defer h.done.Done(); h.demux.Run() }()
	return h
}

type c16Client struct {
	name string
	cc   *goat.ClientConn
	cEnd *End
	xEnd *End
	wire *Wire
	host *c16Host
}

func c16E2E(r *Run) {
	rng := r.Rand("c16.e2e")
	n := r.Scale(30, 400)
	for i := 0; i < n && r.NumViolations() <= 4; i++ {
		nc := 1 + rng.Intn(8)
		ns := 1 + rng.Intn(4)
		if i < 8 { // the corners of the quantifier first
			nc = []int{1, 8, 8, 1, 4, 6, 2, 3}[i]
			ns = []int{1, 1, 4, 4, 2, 3, 1, 2}[i]
		}
		c16E2EOne(r, rng, nc, ns, rng.Intn(2) == 0, []string{"none", "rw", "rf"}[rng.Intn(3)], r.Scale(6, 14))
	}
}

func c16E2EOne(r *Run, rng *rand.Rand, nc, ns int, serialise bool, icKind string, callsPerClient int) {
	hooks.Reset(true)
	defer hooks.Reset(false)
	ctx, cancel := context.WithCancel(context.Background())
	ic := pxIcept{Kind: icKind, Nil: rng.Intn(2) == 0}
	switch icKind {
	case "rw":
		ic.A, ic.B = "svc", "s1"
	case "rf":
		ic.A = "blocked"
	}
	hosts := map[string]*c16Host{}
	dialOnDemand := map[string]bool{}
	var hostNames []string
	for j := 0; j < ns; j++ {
		name := fmt.Sprintf("s%d", j+1)
		hosts[name] = newC16Host(ctx, name, serialise)
		hostNames = append(hostNames, name)
		dialOnDemand[name] = rng.Intn(2) == 0
	}
	var dmu sync.Mutex
	dials := map[string]int{}
	proxy := goat.NewProxy(ctx, "px", func(id string) (goat.RpcReadWriter, error) {
		dmu.Lock()
		dials[id]++
		dmu.Unlock()
		if h, ok := hosts[id]; ok && dialOnDemand[id] {
			return h.pEnd, nil
		}
		return nil, errPxUnknown
	}, ic.fn(), nil)
	for _, name := range hostNames {
		if !dialOnDemand[name] {
			proxy.AddClient(name, hosts[name].pEnd)
		}
	}
	served := make(chan struct{})
	var panicV any
	go func() {
		defer close(served)
		defer func() { panicV = recover() }()
		proxy.Serve()
	}()
	var clients []*c16Client
	perHost := map[string]int{}
	for i := 0; i < nc; i++ {
		c := &c16Client{name: fmt.Sprintf("c%d", i+1), wire: &Wire{}}
		c.host = hosts[hostNames[i%ns]]
		perHost[c.host.name]++
		c.cEnd, c.xEnd = NewPipe(4096, serialise, c.wire)
		dest := c.host.name
		if icKind == "rw" && c.host.name == "s1" && rng.Intn(2) == 0 {
			dest = "svc" // addressed through the rewriting function
		}
		proxy.AddClient(c.name, c.xEnd)
		c.cc = goat.NewClientConn(c.cEnd, c.name, dest)
		clients = append(clients, c)
	}
	input := map[string]any{"clients": nc, "servers": ns, "serialise": serialise, "interceptor": ic.text(), "dial_on_demand": fmt.Sprint(dialOnDemand), "calls_per_client": callsPerClient, "seed": r.Seed}
	r.Progress("e2e", input)

	var wg sync.WaitGroup
	var vmu sync.Mutex
	type pending struct {
		o   *StreamObs
		log *HandlerLog
		in  any
	}
	var streams []pending
	for ci, c := range clients {
		ci, c := ci, c
		crng := rand.New(rand.NewSource(rng.Int63()))
		// the budget: every client of one host may have this many envelopes on their way to it
		// (one is reserved for the trailing half-close of a call that the handler ended first)
		budget := 12/perHost[c.host.name] - 1
		wg.Add(1)
		go func() {
			defer wg.Done()
			for k := 0; k < callsPerClient; k++ {
				tag := fmt.Sprintf("%s.%d", c.name, k)
				kind := crng.Intn(6)
				if budget < 2 {
					kind = kind % 2 // unary only
				}
				cctx, ccancel := context.WithTimeout(ctx, 3*hangTimeout)
				switch kind {
				case 0: // unary, paired by payload
					req := append([]byte(tag+"/"), genPayload(crng, 200)...)
					got, err := callUnary(cctx, c.cc, req)
					if err != nil || string(got) != string(unaryF(req)) {
						r.Violate("e2e.unary", "history", "a unary call through the proxy did not return its own request's reply", input, fmt.Sprintf("%x / %v", got, err), hx(unaryF(req)))
					}
					c.host.log.mu.Lock()
					inv := c.host.log.Invoked[string(req)]
					c.host.log.mu.Unlock()
					if inv != 1 {
						r.Violate("e2e.unary.once", "history", "handler invocations for one request", input, inv, 1)
					}
					r.Count("e2e.unary")
				case 1: // unary that fails with a status
					code := codes.Code(1 + crng.Intn(16))
					uctx := metadata.AppendToOutgoingContext(cctx, "x-prog", fmt.Sprintf("fail:0:%d", code))
					_, err := callUnary(uctx, c.cc, []byte(tag))
					if status.Code(err) != code || status.Convert(err).Message() != "boom" {
						r.Violate("e2e.status", "history", "the handler's status did not reach the caller through the proxy", input, fmt.Sprint(err), fmt.Sprintf("%v boom", code))
					}
					r.Count("e2e.status")
				case 2: // metadata both ways on a stream (2 envelopes outstanding)
					c16MDCall(r, cctx, c, tag, crng, input)
				default: // streams
					method := []string{mBidi, mSrvStream, mCliStream}[crng.Intn(3)]
					var prog, client string
					nSend := 0
					switch crng.Intn(5) {
					case 0:
						prog, client, nSend = "echo", "pingpong", 1+crng.Intn(6)
					case 1:
						prog, client, nSend = fmt.Sprintf("burst:%d", crng.Intn(10)), "sendall", crng.Intn(9)
					case 2:
						prog, client, nSend = fmt.Sprintf("aftereof:%d", crng.Intn(10)), "conc", crng.Intn(9)
					case 3:
						k := crng.Intn(3)
						if method == mSrvStream {
							k = 1
						}
						prog, client, nSend = fmt.Sprintf("fail:%d:%d", k, 1+crng.Intn(16)), "sendall", k
					default:
						prog, client, nSend = "echo", "sendall", crng.Intn(9)
					}
					// envelopes this call can have on their way to the host at one time
					outstanding := func() int {
						if client == "pingpong" && method != mCliStream {
							return 2
						}
						if method == mSrvStream {
							return 3
						}
						return nSend + 2
					}
					for outstanding() > budget {
						switch {
						case strings.HasPrefix(prog, "fail:") || method == mSrvStream:
							method, prog, client, nSend = mBidi, "echo", "pingpong", 1+crng.Intn(6)
						default:
							nSend--
						}
					}
					in := map[string]any{"scenario": input, "client": c.name, "method": method, "prog": prog, "program": client, "n": nSend}
					o := runStreamCall(cctx, c.cc, method, tag, prog, client, nSend, nil)
					vmu.Lock()
					streams = append(streams, pending{o, c.host.log, in})
					vmu.Unlock()
					if strings.HasPrefix(prog, "fail:") {
						f := strings.Split(prog, ":")
						if fmt.Sprint(int(o.Code)) != f[2] || !strings.Contains(o.Terminal, "boom "+f[1]) {
							r.Violate("e2e.stream.status", "history", "the stream handler's status did not reach the caller through the proxy", in, o.Terminal, prog)
						}
					}
					r.Count("e2e.stream." + strings.Split(prog, ":")[0])
				}
				ccancel()
			}
			_ = ci
		}()
	}
	if !within(6*hangTimeout, wg.Wait) {
		r.Violate("e2e.hang", "history", "RPCs through the proxy did not complete", input, goroutineDump(), nil)
		cancel()
		return
	}
	for _, p := range streams {
		checkStream(r, "e2e.stream", p.o, p.log, p.in)
	}
	// no drop below the buffer
	dropsSeen := 0
	for _, e := range hooks.Events() {
		if e.Site == "proxy.drop" {
			dropsSeen++
		}
	}
	if dropsSeen > 0 {
		r.Violate("e2e.drop", "history", "the proxy dropped envelopes although at most 12 were outstanding per destination", input, dropsSeen, 0)
	}
	// dial on demand: each host dialled at most once, one Serve per client per host
	dmu.Lock()
	for name, k := range dials {
		if k > 1 {
			r.Violate("e2e.dial", "history", "a destination was dialled more than once", input, fmt.Sprintf("%s: %d", name, k), 1)
		}
	}
	dmu.Unlock()
	// proxyDelivery on the wire taps
	c16CheckTaps(r, "e2e.taps", input, "px", ic, clients, hosts)
	r.Eval(fmt.Sprintf("e2e/%d/%d/%v/%s", nc, ns, serialise, icKind), true)
	r.Count(fmt.Sprintf("e2e.clients.%d", nc))
	r.Count(fmt.Sprintf("e2e.servers.%d", ns))

	cancel()
	for _, c := range clients {
		c.cEnd.FailRead(io.ErrClosedPipe)
		c.cc.Close()
	}
	if !within(hangTimeout, func() { <-served }) {
		r.Violate("e2e.serve", "history", "Serve did not return after the proxy's context was cancelled", input, goroutineDump(), nil)
	}
	if panicV != nil {
		r.Violate("e2e.crash", "history", "the proxy's forwarding loop panicked", input, fmt.Sprint(panicV), nil)
	}
	for _, h := range hosts {
		h := h
		h.srv.Stop()
		if !within(hangTimeout, h.done.Wait) {
			r.Violate("e2e.host", "history", "the demultiplexer or a Serve behind the proxy did not end with its context", input, goroutineDump(), nil)
		}
	}
}

// c16MDCall: request metadata reaches the handler and header/trailer metadata the caller, through the proxy.
func c16MDCall(r *Run, ctx context.Context, c *c16Client, tag string, rng *rand.Rand, input any) {
	val := genTextValue(rng) + "."
	bin := genBinValue(rng)
	ctx = metadata.AppendToOutgoingContext(ctx, "x-tag", tag, "x-prog", "echo", "x-md-echo", val, "x-md-bin", bin)
	cs, err := c.cc.NewStream(ctx, descBidi, mBidi)
	if err != nil {
		r.Violate("e2e.md.open", "history", "stream could not be opened through the proxy", input, err.Error(), nil)
		return
	}
	sendB(cs, []byte(tag))
	got, err := recvB(cs)
	if err != nil || string(got) != tag {
		r.Violate("e2e.md.echo", "history", "echo through the proxy failed", input, fmt.Sprintf("%q %v", got, err), tag)
	}
	cs.CloseSend()
	_, err = recvB(cs)
	if err != io.EOF {
		r.Violate("e2e.md.eof", "history", "stream through the proxy did not end with io.EOF", input, fmt.Sprint(err), "EOF")
	}
	h, _ := cs.Header()
	t := cs.Trailer()
	wantH := mdCanon(map[string][]string{"h-echo": {val}, "h-echo-bin": {bin}})
	wantT := mdCanon(map[string][]string{"t-echo": {val}, "t-echo-bin": {bin}})
	if mdCanon(withoutKeys(h)) != wantH || mdCanon(withoutKeys(t)) != wantT {
		r.Violate("e2e.md", "history", "metadata did not travel intact through the proxy", input, mdCanon(withoutKeys(h))+" / "+mdCanon(withoutKeys(t)), wantH+" / "+wantT)
	}
	r.Count("e2e.metadata")
}

// c16CheckTaps evaluates proxyDelivery on the pipes' wire taps: what each peer wrote towards the
// proxy against what the proxy wrote to each peer. In-flight tails are allowed (prefix), the RPC
// results themselves witness completeness.
func c16CheckTaps(r *Run, scen string, input any, name string, ic pxIcept, clients []*c16Client, hosts map[string]*c16Host) {
	in := map[string][]*Rpc{}  // peer -> envelopes it sent to the proxy, in order
	out := map[string][]*Rpc{} // peer -> envelopes the proxy wrote to it, in order
	// what the proxy wrote is snapshotted first, what it was sent afterwards: every forwarded
	// envelope's original is then in the second snapshot
	for _, c := range clients {
		for _, ev := range c.wire.Snapshot() {
			if ev.Dir != "c2s" {
				out[c.name] = append(out[c.name], ev.Rpc)
			}
		}
	}
	for _, h := range hosts {
		for _, ev := range h.wire.Snapshot() {
			if ev.Dir == "c2s" { // pEnd is the pipe's "client" end: the proxy writes c2s
				out[h.name] = append(out[h.name], ev.Rpc)
			}
		}
	}
	for _, c := range clients {
		for _, ev := range c.wire.Snapshot() {
			if ev.Dir == "c2s" {
				in[c.name] = append(in[c.name], ev.Rpc)
			}
		}
	}
	for _, h := range hosts {
		for _, ev := range h.wire.Snapshot() {
			if ev.Dir != "c2s" {
				in[h.name] = append(in[h.name], ev.Rpc)
			}
		}
	}
	mon := newPxDelivery()
	peers := make([]string, 0, len(in))
	for p := range in {
		peers = append(peers, p)
	}
	sort.Strings(peers)
	for _, p := range peers {
		for _, e := range in[p] {
			if dest, fwd, ok := pxExpect(name, ic, p, e); ok {
				mon.expect(dest, p, fwd)
			}
		}
	}
	n := 0
	for d, l := range out {
		for _, e := range l {
			n++
			if msg := mon.got(d, e); msg != "" {
				r.Violate(scen, "history", "proxyDelivery: "+msg, input, pxEnvText(e), nil)
				return
			}
		}
	}
	r.CountN("e2e.tap.envelopes", n)
}

// ---------------------------------------------------------------- relayed stream above the buffer

func c16RelayBurst(r *Run) {
	n := r.Scale(2, 10)
	for i := 0; i < n && r.NumViolations() <= 4; i++ {
		c16RelayBurstOne(r, 30+10*i)
	}
}

func c16RelayBurstOne(r *Run, N int) {
	hooks.Reset(true)
	defer hooks.Reset(false)
	input := map[string]any{"messages": N}
	r.Progress("relayburst", input)
	ctx, cancel := context.WithCancel(context.Background())
	defer cancel()
	host := newC16Host(ctx, "s1", true)
	sentAll := make(chan struct{})
	release := make(chan struct{})
	host.impl.SetStream(func(method string, ss grpc.ServerStream) error {
		recvB(ss)
		for i := 0; i < N; i++ {
			if err := sendB(ss, srvMsg(i)); err != nil {
				return err
			}
		}
		close(sentAll)
		<-release
		return nil
	})
	proxy := goat.NewProxy(ctx, "px", func(id string) (goat.RpcReadWriter, error) { return nil, errPxUnknown }, nil, nil)
	proxy.AddClient("s1", host.pEnd)
	wire := &Wire{}
	cEnd, xEnd := NewPipe(0, true, wire) // unbuffered: what the client does not take stays in the proxy
	proxy.AddClient("c1", xEnd)
	served := make(chan struct{})
	go func() { defer close(served); proxy.Serve() }()
	cc := goat.NewClientConn(cEnd, "c1", "s1")
	cctx, ccancel := context.WithTimeout(ctx, 4*hangTimeout)
	defer ccancel()
	cs, err := cc.NewStream(cctx, descSrv, mSrvStream)
	if err != nil {
		r.Violate("relayburst.open", "history", "open failed", input, err.Error(), nil)
		return
	}
	sendB(cs, []byte("go"))
	cs.CloseSend()
	if !within(hangTimeout, func() { <-sentAll }) {
		r.Violate("relayburst.handler", "history", "the handler's sends blocked although the proxy never blocks", input, goroutineDump(), nil)
		close(release)
		return
	}
	// every one of the N bodies has been decided by the forwarding loop
	count := 0
	dropped := map[uint64]int{}
	if !hooks.WaitFor(func(e Event) bool {
		if (e.Site == "proxy.enqueue" || e.Site == "proxy.drop") && e.Detail == "c1" {
			count++
		}
		return count >= N
	}, hangTimeout) {
		r.Violate("relayburst.forward", "history", "the proxy did not decide on every relayed envelope", input, count, N)
		close(release)
		return
	}
	drops := 0
	for _, e := range hooks.Events() {
		if e.Site == "proxy.drop" && e.Detail == "c1" {
			drops++
			dropped[e.ID]++
		}
	}
	// now the caller reads; it must get exactly the bodies that were not dropped, in order
	var got [][]byte
	recvd := make(chan []byte, N+1)
	var term error
	fin := make(chan struct{})
	go func() {
		defer close(fin)
		for {
			b, err := recvB(cs)
			if err != nil {
				term = err
				return
			}
			recvd <- b
		}
	}()
	for len(got) < N-drops {
		select {
		case b := <-recvd:
			got = append(got, b)
		case <-time.After(hangTimeout):
			r.Violate("relayburst.lost", "history", "a relayed stream lost messages that the proxy did not drop for a full buffer", input, fmt.Sprintf("received %d, drop events %d", len(got), drops), N-drops)
			close(release)
			return
		}
	}
	close(release)
	if !within(hangTimeout, func() { <-fin }) {
		r.Violate("relayburst.end", "history", "the relayed stream never ended after the handler returned", input, goroutineDump(), nil)
		return
	}
	for {
		select {
		case b := <-recvd:
			got = append(got, b)
			continue
		default:
		}
		break
	}
	// in order, no duplicates, nothing invented
	last := -1
	for _, b := range got {
		var i int
		if _, err := fmt.Sscanf(string(b), "s%d", &i); err != nil || i <= last || i >= N {
			r.Violate("relayburst.order", "history", "a relayed stream delivered messages out of order, twice, or altered", input, seqStr(got), nil)
			return
		}
		last = i
	}
	if len(got) != N-drops {
		r.Violate("relayburst.count", "history", "messages missing beyond the proxy's counted drops", input, len(got), N-drops)
	}
	if drops > 0 && term == io.EOF && N == 30 {
		r.KnownFinding("proxy-drop-above-buffer", fmt.Sprintf("relayburst;proxy.drop a %d-message server stream relayed to a slow caller ended with io.EOF after %d messages (%d dropped above the 16-envelope buffer)", N, len(got), drops))
	}
	r.Eval(fmt.Sprintf("relayburst/%d", N), true)
	r.CountN("relayburst.drops", drops)
	cancel()
	cEnd.FailRead(io.ErrClosedPipe)
	cc.Close()
	within(hangTimeout, func() { <-served })
	host.srv.Stop()
	within(hangTimeout, host.done.Wait)
}
