package main

import (
	"context"
	"fmt"
	"io"

	goat "github.com/avos-io/goat"
	"google.golang.org/grpc"
)

// c01SharedChain: ONE pair of chained-interceptor options (two pass-through interceptors each) is used
// to build two servers with different implementations, and each server serves all its methods in
// turn. Every call is answered by the handler registered for ITS method on ITS server: a unary reply is
// what that server's unary handler made of the request, and a stream carries what that method's handler
// sent (Bidi echoes every message, SrvStream sends three replies to one request, CliStream one summary).
func c01SharedChain(r *Run) {
	if !r.Want("sharedchain") {
		return
	}
	passU := func(ctx context.Context, req any, info *grpc.UnaryServerInfo, h grpc.UnaryHandler) (any, error) {
		return h(ctx, req)
	}
	passS := func(srv any, ss grpc.ServerStream, info *grpc.StreamServerInfo, h grpc.StreamHandler) error {
		return h(srv, ss)
	}
	for rep, reps := 0, r.Scale(2, 20); rep < reps && r.NumViolations() <= 4; rep++ {
		opts := []goat.ServerOption{goat.ChainUnaryInterceptor(passU, passU), goat.ChainStreamInterceptor(passS, passS)}
		var rigs []*Rig
		for _, name := range []string{"A", "B"} {
			name := name
			rig := NewRig(RigOpt{Serialise: rep%2 == 0, SrvOpts: opts})
			rig.Impl.SetUnary(func(ctx context.Context, req []byte) ([]byte, error) {
				return append([]byte(name+":"), req...), nil
			})
			rig.Impl.SetStream(func(method string, ss grpc.ServerStream) error {
				switch method {
				case mSrvStream:
					b, err := recvB(ss)
					if err != nil {
						return err
					}
					for i := 0; i < 3; i++ {
						sendB(ss, []byte(fmt.Sprintf("%s:srv:%s:%d", name, b, i)))
					}
				case mCliStream:
					n := 0
					for {
						if _, err := recvB(ss); err != nil {
							break
						}
						n++
					}
					sendB(ss, []byte(fmt.Sprintf("%s:cli:%d", name, n)))
				default:
					for {
						b, err := recvB(ss)
						if err != nil {
							break
						}
						sendB(ss, append([]byte(name+":bidi:"), b...))
					}
				}
				return nil
			})
			rigs = append(rigs, rig)
		}
		orders := [][]string{{mBidi, mSrvStream, mCliStream, "unary"}, {"unary", mCliStream, mBidi, mSrvStream}}
		for ri, rig := range rigs {
			name := []string{"A", "B"}[ri]
			for _, kind := range orders[(rep+ri)%2] {
				in := map[string]any{"server": name, "kind": kind, "options": "one ChainUnaryInterceptor / ChainStreamInterceptor value shared by two servers", "rep": rep}
				r.Progress("sharedchain", in)
				var got []string
				var want []string
				ok := within(hangTimeout, func() {
					if kind == "unary" {
						out, err := callUnary(context.Background(), rig.CC, []byte("q"))
						got = []string{string(out), fmt.Sprint(err)}
						want = []string{name + ":q", "<nil>"}
						return
					}
					cs, err := rig.CC.NewStream(context.Background(), descOf(kind), kind)
					if err != nil {
						got = []string{"open: " + err.Error()}
						return
					}
					switch kind {
					case mSrvStream:
						sendB(cs, []byte("q"))
						cs.CloseSend()
						want = []string{name + ":srv:q:0", name + ":srv:q:1", name + ":srv:q:2", "EOF"}
					case mCliStream:
						sendB(cs, []byte("q"))
						sendB(cs, []byte("q"))
						cs.CloseSend()
						want = []string{name + ":cli:2", "EOF"}
					default:
						sendB(cs, []byte("q1"))
						sendB(cs, []byte("q2"))
						cs.CloseSend()
						want = []string{name + ":bidi:q1", name + ":bidi:q2", "EOF"}
					}
					for len(got) < 8 {
						b, err := recvB(cs)
						if err == io.EOF {
							got = append(got, "EOF")
							return
						}
						if err != nil {
							got = append(got, err.Error())
							return
						}
						got = append(got, string(b))
					}
				})
				r.Eval(fmt.Sprintf("sharedchain/%d/%s/%s", rep, name, kind), true)
				r.Count("c01.sharedchain")
				if !ok {
					r.Violate("sharedchain.hang", "ops", "a call to a server built from shared chained-interceptor options did not finish", in, goroutineDump(), want)
					break
				}
				if fmt.Sprint(got) != fmt.Sprint(want) {
					r.Violate("sharedchain.owner", "ops", "a call was not answered by the handler registered for its method on its server", in, got, want)
				}
			}
		}
		for _, rig := range rigs {
			rig.Close()
		}
	}
}
