package main

import (
	"context"
	"errors"
	"fmt"
	"io"
	"math/rand"
	"strings"
	"time"

	goat "github.com/avos-io/goat"
	"github.com/avos-io/goat/gen/goatorepo"
	"google.golang.org/grpc/codes"
	"google.golang.org/grpc/status"
	"google.golang.org/protobuf/types/known/wrapperspb"
)

func init() { register("C13", runC13) }

// one response envelope shape
type respEnv struct {
	ID      uint64
	Hdr     bool
	Meta    int // 0 none, 1 good, 2 undecodable
	Status  int // -1 none, else code
	Body    bool
	Trailer int // 0 none, 1 present, 2 present with undecodable metadata
	Reset   bool
}

func (e respEnv) input() string {
	return fmt.Sprintf("%d,%d,%d,%d,%d,%d,%d", e.ID, b2i(e.Hdr), e.Meta, e.Status, b2i(e.Body), e.Trailer, b2i(e.Reset))
}

func (e respEnv) rpc() *Rpc {
	r := &Rpc{Id: e.ID}
	if e.Hdr {
		r.Header = &goatorepo.RequestHeader{Method: "/x/y", Source: "s", Destination: "c"}
		switch e.Meta {
		case 1:
			r.Header.Headers = []*goatorepo.KeyValue{{Key: "k", Value: "v"}}
		case 2:
			r.Header.Headers = []*goatorepo.KeyValue{{Key: "k-bin", Value: badBinValue()}}
		}
	}
	if e.Status >= 0 {
		r.Status = &goatorepo.ResponseStatus{Code: int32(e.Status), Message: "m"}
	}
	if e.Body {
		b, _ := goat_marshal(&wrapperspb.BytesValue{Value: []byte("v")})
		r.Body = &goatorepo.Body{Data: b}
	}
	switch e.Trailer {
	case 1:
		r.Trailer = &goatorepo.Trailer{}
	case 2:
		r.Trailer = &goatorepo.Trailer{Metadata: []*goatorepo.KeyValue{{Key: "t-bin", Value: badBinValue()}}}
	}
	if e.Reset {
		r.Reset_ = &goatorepo.Reset{Type: "RST_STREAM"}
	}
	return r
}

func c13Alphabet() []respEnv {
	base := []respEnv{
		{Hdr: true, Status: -1, Body: true, Trailer: 1},             // ordinary unary reply / body+trailer
		{Hdr: true, Status: 0, Body: true, Trailer: 1},              // explicit OK status with body
		{Hdr: true, Status: 0, Trailer: 1},                          // OK trailer (end of stream)
		{Hdr: true, Status: 5, Trailer: 1},                          // error trailer
		{Hdr: true, Status: 5, Body: true, Trailer: 1},              // error status with body
		{Hdr: true, Status: -1, Body: true},                         // body (stream message)
		{Hdr: true, Meta: 1, Status: -1, Body: true},                // body with response metadata
		{Hdr: true, Meta: 1, Status: -1},                            // header only
		{Hdr: true, Meta: 2, Status: -1, Body: true},                // undecodable header metadata
		{Hdr: true, Status: 0, Trailer: 2},                          // undecodable trailer metadata
		{Hdr: false, Status: -1, Body: true, Trailer: 1},            // reply without header
		{Hdr: false, Status: -1},                                    // nothing at all
		{Hdr: true, Status: -1},                                     // header only, no metadata
		{Hdr: true, Status: -1, Trailer: 1},                         // trailer without status
		{Hdr: true, Status: -1, Trailer: 1, Reset: true},            // reset (as the server sends it)
		{Hdr: true, Status: -1, Reset: true},                        // reset without trailer
		{Hdr: true, Status: 7},                                      // status without trailer
		{Hdr: false, Status: 3, Trailer: 1},                         // error trailer without header
		{Hdr: true, Meta: 2, Status: 0, Trailer: 1},                 // OK trailer with undecodable header metadata
		{Hdr: true, Status: 0, Body: true, Trailer: 1, Reset: true}, // everything at once
	}
	var out []respEnv
	for _, id := range []uint64{1, 2, 7} {
		for _, b := range base {
			b.ID = id
			out = append(out, b)
		}
	}
	return out
}

func runC13(r *Run) {
	c13Surplus(r)
	c13FailedOpen(r)
	// a reply message reused across calls holds, after each successful call, what THAT call's envelope
	// carried — also when that is the empty message (c01b.go)
	c01ReusedReply(r)
	// … and a message object reused across the RecvMsg calls of a stream holds, after each call, what
	// THAT envelope carried — the zero message included (c02c.go)
	c02ReusedMessage(r)
	alpha := c13Alphabet()
	rng := r.Rand("c13")
	var seqs [][]respEnv
	for _, a := range alpha {
		seqs = append(seqs, []respEnv{a})
	}
	if r.Thorough() {
		for _, a := range alpha {
			for _, b := range alpha {
				seqs = append(seqs, []respEnv{a, b})
			}
		}
	}
	n := r.Scale(500, 20000)
	for i := 0; i < n; i++ {
		l := 2 + rng.Intn(3)
		if i%12 == 0 {
			l = 5 + rng.Intn(20)
		}
		s := make([]respEnv, l)
		for j := range s {
			s[j] = alpha[rng.Intn(len(alpha))]
		}
		seqs = append(seqs, s)
	}
	for i, s := range seqs {
		if !c13One(r, s, i%2 == 1, rng) || r.NumViolations() > 4 {
			return
		}
	}
}

func termOf(err error) string {
	switch {
	case err == io.EOF:
		return "eof"
	case status.Code(err) == codes.Unavailable && strings.Contains(err.Error(), "reset by peer"):
		return "unavailable"
	case status.Code(err) == codes.Internal && strings.Contains(err.Error(), "malformed response metadata"):
		return "internalMeta"
	case status.Code(err) == codes.Canceled || status.Code(err) == codes.DeadlineExceeded:
		return "ctxErr"
	case status.Code(err) == codes.Unknown:
		return "muxErr"
	default:
		return fmt.Sprintf("status%d", status.Code(err))
	}
}

func c13One(r *Run, seq []respEnv, withStats bool, rng *rand.Rand) bool {
	parts := make([]string, len(seq))
	for i, e := range seq {
		parts[i] = e.input()
	}
	input := fmt.Sprintf("%d|%s", b2i(withStats), strings.Join(parts, ";"))
	r.Progress("seq", input)
	sc := NewScript(0)
	sc.Out = make(chan *Rpc, 64)
	var opts []goat.DialOption
	if withStats {
		opts = append(opts, goat.WithStatsHandler(NewRecorder("c")))
	}
	cc := goat.NewClientConn(sc, "c", "s", opts...)

	// call A: unary (id 1); call B: bidirectional stream (id 2)
	type ares struct {
		out []byte
		err error
	}
	aDone := make(chan ares, 1)
	go func() {
		out, err := callUnary(context.Background(), cc, []byte("q"))
		aDone <- ares{out, err}
	}()
	select {
	case <-sc.Out:
	case <-time.After(hangTimeout):
		r.Violate("seq.start", "ops", "unary request was not written", input, nil, nil)
		return false
	}
	cs, err := cc.NewStream(context.Background(), descBidi, mBidi)
	if err != nil {
		r.Violate("seq.start", "ops", "stream could not be opened", input, err.Error(), nil)
		return false
	}
	<-sc.Out
	type bres struct {
		msgs int
		term string
		herr bool
	}
	bDone := make(chan bres, 1)
	go func() {
		var b bres
		for {
			if _, err := recvB(cs); err != nil {
				b.term = termOf(err)
				break
			}
			b.msgs++
		}
		_, herr := cs.Header()
		b.herr = herr != nil
		cs.Trailer() // must not crash
		bDone <- b
	}()
	for k, e := range seq {
		select {
		case sc.In <- e.rpc():
		case <-time.After(hangTimeout):
			r.Violate("seq.stall", "ops", "client stopped reading its transport", input, fmt.Sprintf("envelope %d", k), goroutineDump())
			return false
		}
	}
	// everything injected has been taken by the read loop once it is back in Read; then the connection closes
	if !sc.WaitReads(len(seq)+1, hangTimeout) {
		r.Violate("seq.stall", "ops", "client read loop did not come back for more input", input, nil, goroutineDump())
		return false
	}
	// the connection ends: a clean close (io.EOF itself, as net.Pipe / TCP framing report it), a wrapped
	// EOF, an abrupt one, or some other error — none of them is an OK trailer
	closeErrs := []error{io.EOF, io.ErrUnexpectedEOF, fmt.Errorf("transport: %w", io.EOF), errInjectedRead}
	sc.FailRead(closeErrs[rng.Intn(len(closeErrs))])
	var a ares
	var b bres
	ok := within(hangTimeout, func() { a = <-aDone; b = <-bDone })
	if !ok {
		r.Violate("seq.hang", "ops", "a call did not terminate after the connection was closed", input, goroutineDump(), nil)
		return false
	}
	aOut := "closed"
	switch {
	case a.err == nil:
		aOut = "ok"
	case strings.Contains(a.err.Error(), "malformed response: no body or status"):
		aOut = "malformed"
	case strings.Contains(a.err.Error(), "respChan closed") || errors.Is(a.err, io.ErrUnexpectedEOF) || errors.Is(a.err, io.EOF) || errors.Is(a.err, errInjectedRead):
		aOut = "closed"
	default:
		st, _ := status.FromError(a.err)
		aOut = fmt.Sprintf("err%d", st.Code())
	}
	obs := fmt.Sprintf("A=%s|B=%d;%s|H=%s", aOut, b.msgs, b.term, map[bool]string{true: "err", false: "ok"}[b.herr])
	r.Case("cliseq", input, obs)
	r.CountN("seq.envelopes", len(seq))
	r.Count("seq.A." + aOut)
	r.Count("seq.B." + b.term)
	// the property's own monitor: success only with data the envelopes addressed to the call carried
	if a.err == nil {
		carried := false
		for _, e := range seq {
			if e.ID == 1 {
				carried = e.Body && (e.Status <= 0)
				break
			}
		}
		if !carried || string(a.out) != "v" {
			r.Violate("seq.fabricated", "ops", "unary call reported success without a reply body addressed to it", input, obs, nil)
		}
	}
	if b.term == "eof" {
		okTrailer := false
		for _, e := range seq {
			if e.ID == 2 && e.Trailer > 0 && e.Status <= 0 && !e.Reset {
				okTrailer = true
			}
		}
		if !okTrailer {
			r.Violate("seq.eof", "ops", "stream reported io.EOF without an OK trailer addressed to it", input, obs, nil)
		}
	}
	return true
}
