package main

import (
	"math/rand"
	"sort"
	"strings"
	"sync/atomic"

	"github.com/avos-io/goat/gen/goatorepo"
	"google.golang.org/grpc/metadata"
)

const keyAlphabet = "abcdefghijklmnopqrstuvwxyz0123456789_.-"

func randCase(rng *rand.Rand, s string) string {
	b := []byte(s)
	for i := range b {
		if b[i] >= 'a' && b[i] <= 'z' && rng.Intn(3) == 0 {
			b[i] -= 32
		}
	}
	return string(b)
}

// genKey draws a key over the gRPC key alphabet; bin says whether it ends in "-bin".
func genKey(rng *rand.Rand, bin bool) string {
	n := 1 + rng.Intn(10)
	b := make([]byte, n)
	for i := range b {
		b[i] = keyAlphabet[rng.Intn(len(keyAlphabet))]
	}
	k := string(b)
	if bin {
		k += "-bin"
	} else if strings.HasSuffix(k, "-bin") {
		k += "x"
	}
	if strings.HasPrefix(k, "grpc-") {
		k = "x" + k
	}
	return k
}

func genTextValue(rng *rand.Rand) string {
	n := rng.Intn(24)
	b := make([]byte, n)
	for i := range b {
		b[i] = byte(0x20 + rng.Intn(0x5f))
	}
	return string(b)
}

func genBinValue(rng *rand.Rand) string {
	switch rng.Intn(6) {
	case 0:
		return ""
	case 1:
		return "\x00"
	case 2:
		return "\xff\x00\xff"
	}
	n := rng.Intn(40)
	b := make([]byte, n)
	rng.Read(b)
	return string(b)
}

// genMD draws a metadata set: nKeys keys distinct after lower-casing, 1..4
// values each. mixedCase spells keys in random letter case.
func genMD(rng *rand.Rand, maxKeys int, mixedCase bool) metadata.MD {
	md := metadata.MD{}
	seen := map[string]bool{}
	n := rng.Intn(maxKeys + 1)
	for len(md) < n {
		bin := rng.Intn(3) == 0
		k := genKey(rng, bin)
		if seen[k] {
			continue
		}
		seen[k] = true
		spelled := k
		if mixedCase {
			spelled = randCase(rng, k)
		}
		nv := 1 + rng.Intn(4)
		vs := make([]string, nv)
		for i := range vs {
			if bin {
				vs[i] = genBinValue(rng)
			} else {
				vs[i] = genTextValue(rng)
			}
		}
		md[spelled] = vs
	}
	return md
}

// mdInput renders an MD as the driver's entry list (keys in sorted order; any order is a valid iteration order).
func mdInput(md metadata.MD) string {
	keys := make([]string, 0, len(md))
	for k := range md {
		keys = append(keys, k)
	}
	if len(keys) == 0 {
		return "_"
	}
	sort.Strings(keys)
	p := make([]string, len(keys))
	for i, k := range keys {
		p[i] = hxs(k) + "=" + hxList(md[k])
	}
	return strings.Join(p, ";")
}

func kvInput(kvs []*goatorepo.KeyValue) string {
	if len(kvs) == 0 {
		return "_"
	}
	p := make([]string, len(kvs))
	for i, kv := range kvs {
		p[i] = hxs(kv.Key) + "=" + hxs(kv.Value)
	}
	return strings.Join(p, ";")
}

// kvGrouped is the canonical form of a KeyValue list: grouped by exact key, keys sorted, per-key order kept.
func kvGrouped(kvs []*goatorepo.KeyValue) string {
	m := map[string][]string{}
	for _, kv := range kvs {
		m[kv.Key] = append(m[kv.Key], kv.Value)
	}
	return mdCanon(m)
}

// lowerMD is what a receiver must observe for md: lower-cased keys, per-key order.
func lowerMD(mds ...metadata.MD) map[string][]string {
	out := map[string][]string{}
	for _, md := range mds {
		keys := make([]string, 0, len(md))
		for k := range md {
			keys = append(keys, k)
		}
		sort.Strings(keys)
		for _, k := range keys {
			lk := strings.ToLower(k)
			out[lk] = append(out[lk], md[k]...)
		}
	}
	return out
}

func withoutKeys(md map[string][]string, drop ...string) map[string][]string {
	out := map[string][]string{}
	for k, v := range md {
		skip := false
		for _, d := range drop {
			if k == d {
				skip = true
			}
		}
		if !skip && len(v) > 0 {
			out[k] = v
		}
	}
	return out
}

// genPayload draws a message payload; sizes are biased to the edges.
func genPayload(rng *rand.Rand, max int) []byte {
	var n int
	switch rng.Intn(8) {
	case 0:
		n = 0
	case 1:
		n = 1
	case 2:
		n = max
	default:
		n = rng.Intn(max/16 + 2)
	}
	b := make([]byte, n)
	rng.Read(b)
	return b
}

// badBinValue returns successive values that base64.URLEncoding (padded, strict) cannot decode: wrong
// characters, every impossible length class (1, 2, 3 mod 4 without padding), misplaced padding.
var badBinCounter atomic.Uint64

func badBinValue() string {
	vals := []string{"!!", "A", "AAAAA", "=", "AA=A", "*", "AAA", "AAAAAAAAA", "A===", "AAAAAA", "QQ=", "QUJDRA=", "QQ=\n", "QQ", "QUI=="}
	return vals[int(badBinCounter.Add(1))%len(vals)]
}
