package main

import (
	"bytes"
	"context"
	"errors"
	"fmt"
	"io"
	"strings"
	"sync"
	"sync/atomic"
	"time"

	goat "github.com/avos-io/goat"
	"google.golang.org/grpc"
	"google.golang.org/grpc/codes"
	"google.golang.org/grpc/metadata"
	"google.golang.org/grpc/status"
)

// C07 — cancelling a streaming call cancels its handler and fails the caller's calls.
//
// One case = one stream shape, run up to a POSITION of its fault-free operation sequence, then the
// caller's context ends (explicit cancel, or a deadline the case waits for), then the cancelOutcome
// monitor (DESIGN I2) is applied:
//
//   - every RecvMsg after the cancel returns within hangTimeout, either the next message the handler
//     really sent or the Canceled/DeadlineExceeded status; once an error, always that error;
//   - SendMsg after the cancel fails;
//   - exactly one reset for the stream id is on the c2s wire and it is the last c2s envelope of the
//     id; none when the stream had completed (trailer processed) before the cancel;
//   - the handler returns (its context is done), and the server's reset branch ran for the id.
//
// Positions are made deterministic with hooks instead of sleeps: a position is a prefix of the
// caller's program (open, S = SendMsg, R = RecvMsg, C = CloseSend) in one of the modes
//
//	immediate  cancel right after the last operation of the prefix
//	settled    first wait until everything the handler does in reaction has happened: its responses
//	           written by the server's writer (srv.writer.write), as many of them as fit delivered to
//	           the client stream (mux.deliver) — these are the "responses queued unread" —, and, once
//	           the caller has half-closed, the handler returned (srv.handler.returned)
//	completed  the whole program, then wait until the client has processed the trailer (cs.fin.done)
//	race       the whole program, cancel at once with nothing held: completion and cancellation race
//
// In all modes but completed and race the server's trailer is held back at the yield site
// srv.beforeTrailer, so "the call has not completed" is a fact, not a timing assumption. The pair
// (prefix, immediate|settled) walks through every position of the fault-free wire trace: immediate
// is the position after the caller's envelope, settled the position after the handler's answers to it.

func init() { register("C07", runC07) }

func runC07(r *Run) {
	c07CancelAfterNeighbourReturnedEarly(r)
	topoSweep(r, "cancel")
	if r.Want("cancel") {
		c07Family(r, "cancel")
	}
	if r.Want("deadline") {
		c07Family(r, "deadline")
	}
	if r.Want("sendwindow") {
		c07SendWindow(r)
	}
	if r.Want("probe") {
		c07Probes(r)
	}
	c07CancelDuringOpen(r)
}

// c07Strict is a client transport that refuses to write once the write's context is done, as a
// socket transport does. (The plain End chooses at random between a ready channel and a done
// context, so that a SendMsg issued right after the cancel could still go out.)
type c07Strict struct{ *End }

func (s c07Strict) Write(ctx context.Context, rpc *Rpc) error {
	if err := ctx.Err(); err != nil {
		return err
	}
	return s.End.Write(ctx, rpc)
}

func c07NewRig(serialise, strict bool) *Rig {
	return c07NewRigWith(serialise, func(ce *End) goat.RpcReadWriter {
		if strict {
			return c07Strict{ce}
		}
		return ce
	})
}

// c07BlockEnd is a client transport on which the Write of a body envelope of ONE chosen stream
// blocks (as on a full socket) until the write's context ends; everything else goes through, and it
// honours the context like c07Strict.
type c07BlockEnd struct {
	*End
	armed  atomic.Uint64 // stream id whose body writes block; 0 = none
	once   sync.Once
	parked chan struct{} // closed when a write is parked
}

func (b *c07BlockEnd) Write(ctx context.Context, rpc *Rpc) error {
	if err := ctx.Err(); err != nil {
		return err
	}
	if id := b.armed.Load(); id != 0 && rpc.GetId() == id && rpc.Body != nil {
		b.once.Do(func() { close(b.parked) })
		<-ctx.Done()
		return ctx.Err()
	}
	return b.End.Write(ctx, rpc)
}

func c07NewRigWith(serialise bool, wrap func(*End) goat.RpcReadWriter) *Rig {
	wire := &Wire{}
	ce, se := NewPipe(4096, serialise, wire)
	impl := &Impl{}
	srv := goat.NewServer("srv")
	srv.RegisterService(&echoDesc, impl)
	ctx, cancel := context.WithCancel(context.Background())
	r := &Rig{Impl: impl, Srv: srv, CEnd: ce, SEnd: se, Wire: wire, served: make(chan error, 1), ctx: ctx, cancel: cancel}
	go func() { r.served <- srv.Serve(ctx, se) }()
	r.CC = goat.NewClientConn(wrap(ce), "cli", "srv")
	return r
}

// c07Shape is one stream shape.
type c07Shape struct {
	Name    string
	Method  string
	Prog    func(m int) string
	Steps   func(m int) string                // the caller's program after the open
	Bodies  func(m, nS int, closed bool) int  // responses the handler has sent once it is quiescent
	Returns bool                              // the handler returns by itself after the half-close
	Reply   func(j int, sent [][]byte) []byte // the j-th response
	Ms      []int                             // values of m (responses queued) that make sense
}

func c07Shapes() []c07Shape {
	echoReply := func(j int, sent [][]byte) []byte {
		if j < len(sent) {
			return sent[j]
		}
		return nil
	}
	srvReply := func(j int, _ [][]byte) []byte { return srvMsg(j) }
	fixed := func(s string) func(int) string { return func(int) string { return s } }
	return []c07Shape{
		{Name: "bidi-echo-pingpong", Method: mBidi, Prog: fixed("echo"), Steps: fixed("SRSRSRC"),
			Bodies: func(m, nS int, closed bool) int { return nS }, Returns: true, Reply: echoReply, Ms: []int{0}},
		{Name: "bidi-echo-sendall", Method: mBidi, Prog: fixed("echo"), Steps: fixed("SSSC"),
			Bodies: func(m, nS int, closed bool) int { return nS }, Returns: true, Reply: echoReply, Ms: []int{0}},
		{Name: "bidi-burst", Method: mBidi, Prog: func(m int) string { return fmt.Sprintf("burst:%d", m) }, Steps: fixed("SSSC"),
			Bodies: func(m, nS int, closed bool) int { return m }, Returns: true, Reply: srvReply, Ms: []int{0, 1, 2, 3, 4, 5}},
		{Name: "srv-burst", Method: mSrvStream, Prog: func(m int) string { return fmt.Sprintf("burst:%d", m) },
			Steps:  func(m int) string { return "SC" + strings.Repeat("R", m) },
			Bodies: func(m, nS int, closed bool) int { return m }, Returns: true, Reply: srvReply, Ms: []int{0, 1, 2, 3, 4, 5}},
		{Name: "cli-aftereof", Method: mCliStream, Prog: fixed("aftereof:1"), Steps: fixed("SSSCR"),
			Bodies: func(m, nS int, closed bool) int {
				if closed {
					return 1
				}
				return 0
			}, Returns: true, Reply: srvReply, Ms: []int{0}},
		// the handler program `hold` reads nothing and returns only when its context is done. One
		// message at most: a second one parks the server's read loop in front of the reset (see the
		// probe "probe.holdTwoSends").
		{Name: "bidi-hold", Method: mBidi, Prog: fixed("hold"), Steps: fixed("S"),
			Bodies: func(m, nS int, closed bool) int { return 0 }, Returns: false, Reply: srvReply, Ms: []int{0}},
	}
}

type c07Case struct {
	Shape     string `json:"shape"`
	Prog      string `json:"prog"`
	Steps     string `json:"steps"`
	Prefix    int    `json:"prefix"` // how many steps of Steps run before the cancel
	Mode      string `json:"mode"`
	Cause     string `json:"cause"`
	M         int    `json:"queued"`
	Others    int    `json:"others"`
	Serialise bool   `json:"serialise"`
	Strict    bool   `json:"strictTransport"`
	SendFirst bool   `json:"sendBeforeRecv"`
	Pending   bool   `json:"pendingRecv"`
	TimeoutMs int    `json:"timeoutMs,omitempty"`
}

func c07CountPred(site string, id uint64, detail string, n int) func(Event) bool {
	c := 0
	if n <= 0 {
		return func(Event) bool { return true }
	}
	return func(e Event) bool {
		if e.Site == site && e.ID == id && (detail == "" || e.Detail == detail) {
			c++
		}
		return c >= n
	}
}

// c07FindID returns the id of the stream whose open envelope carries x-tag = tag.
func c07FindID(w *Wire, tag string) uint64 {
	for _, e := range w.Snapshot() {
		if e.Dir != "c2s" {
			continue
		}
		for _, kv := range e.Rpc.GetHeader().GetHeaders() {
			if kv.Key == "x-tag" && kv.Value == tag {
				return e.Rpc.Id
			}
		}
	}
	return 0
}

func c07ErrStr(err error) string {
	if err == nil {
		return "nil"
	}
	if err == io.EOF {
		return "EOF"
	}
	if st, ok := status.FromError(err); ok {
		return st.Code().String() + ": " + st.Message()
	}
	return "non-status: " + err.Error()
}

// c07Others are four other calls in flight on the connection while the stream under test is
// cancelled: they are started (and brought half-way) before it is opened and completed afterwards.
type c07Others struct {
	cs1, cs2, cs3 grpc.ClientStream
	unaryReq      []byte
	unaryEntered  chan struct{}
	unaryRelease  chan struct{}
	unaryDone     chan error
	unaryReply    []byte
	released      bool
}

func c07NewOthers(tag string) *c07Others {
	return &c07Others{unaryReq: []byte("u-" + tag), unaryEntered: make(chan struct{}), unaryRelease: make(chan struct{}), unaryDone: make(chan error, 1)}
}

func (o *c07Others) gate(tag string) {
	if tag == string(o.unaryReq) {
		close(o.unaryEntered)
		<-o.unaryRelease
	}
}

func (o *c07Others) release() {
	if !o.released {
		o.released = true
		close(o.unaryRelease)
	}
}

func c07Expect(what string, got []byte, err error, want []byte) string {
	if err != nil {
		return what + ": " + c07ErrStr(err)
	}
	if !bytes.Equal(got, want) {
		return fmt.Sprintf("%s: got %q want %q", what, got, want)
	}
	return ""
}

func (o *c07Others) start(cc grpc.ClientConnInterface, tag string) (problems []string) {
	add := func(s string) {
		if s != "" {
			problems = append(problems, s)
		}
	}
	open := func(method, prog, t string) grpc.ClientStream {
		ctx := metadata.AppendToOutgoingContext(context.Background(), "x-tag", tag+t, "x-prog", prog)
		cs, err := cc.NewStream(ctx, descOf(method), method)
		if err != nil {
			add("open " + t + ": " + err.Error())
			return nil
		}
		return cs
	}
	ok := within(hangTimeout, func() {
		if o.cs1 = open(mBidi, "echo", ".o1"); o.cs1 != nil {
			if err := sendB(o.cs1, []byte("a")); err != nil {
				add("o1 send a: " + err.Error())
			}
			b, err := recvB(o.cs1)
			add(c07Expect("o1 recv a", b, err, []byte("a")))
		}
		if o.cs2 = open(mBidi, "burst:2", ".o2"); o.cs2 != nil {
			for i := 0; i < 2; i++ {
				b, err := recvB(o.cs2)
				add(c07Expect("o2 recv", b, err, srvMsg(i)))
			}
		}
		if o.cs3 = open(mSrvStream, "burst:3", ".o3"); o.cs3 != nil {
			if err := sendB(o.cs3, []byte("req")); err != nil {
				add("o3 send: " + err.Error())
			}
			// two responses stay unread (more would park the multiplexer: finding #10)
			b, err := recvB(o.cs3)
			add(c07Expect("o3 recv", b, err, srvMsg(0)))
		}
		go func() {
			b, err := callUnary(context.Background(), cc, o.unaryReq)
			o.unaryReply = b
			o.unaryDone <- err
		}()
		<-o.unaryEntered
	})
	if !ok {
		add("starting the other calls did not finish")
	}
	return
}

func (o *c07Others) finish() (problems []string) {
	add := func(s string) {
		if s != "" {
			problems = append(problems, s)
		}
	}
	eof := func(what string, cs grpc.ClientStream) {
		_, err := recvB(cs)
		if err != io.EOF {
			add(what + ": want EOF, got " + c07ErrStr(err))
		}
	}
	ok := within(hangTimeout, func() {
		if o.cs1 != nil {
			if err := sendB(o.cs1, []byte("b")); err != nil {
				add("o1 send b: " + err.Error())
			}
			b, err := recvB(o.cs1)
			add(c07Expect("o1 recv b", b, err, []byte("b")))
			if err := o.cs1.CloseSend(); err != nil {
				add("o1 closesend: " + err.Error())
			}
			eof("o1 end", o.cs1)
		}
		if o.cs2 != nil {
			if err := sendB(o.cs2, []byte("x")); err != nil {
				add("o2 send: " + err.Error())
			}
			if err := o.cs2.CloseSend(); err != nil {
				add("o2 closesend: " + err.Error())
			}
			eof("o2 end", o.cs2)
		}
		if o.cs3 != nil {
			if err := o.cs3.CloseSend(); err != nil {
				add("o3 closesend: " + err.Error())
			}
			for i := 1; i < 3; i++ {
				b, err := recvB(o.cs3)
				add(c07Expect("o3 recv", b, err, srvMsg(i)))
			}
			eof("o3 end", o.cs3)
		}
		o.release()
		err := <-o.unaryDone
		add(c07Expect("unary reply", o.unaryReply, err, unaryF(o.unaryReq)))
	})
	if !ok {
		add("the other calls did not complete\n" + goroutineDump())
	}
	return
}

// c07RunCase runs one case and applies the monitor. It returns false when something hung (the
// family then stops early: every hang costs hangTimeout).
func c07RunCase(r *Run, sh c07Shape, c c07Case, caseNo int) bool {
	scen := c.Cause + "." + sh.Name
	r.Progress(scen, c)
	healthy := true
	bad := func(sub, detail string, observed, expected any) {
		r.Violate(scen+"."+sub, "schedule", detail, c, observed, expected)
	}
	hung := func(sub, detail string) {
		healthy = false
		r.Violate(scen+"."+sub, "schedule", detail, c, goroutineDump(), nil)
	}
	tolerant := c.Cause == "deadline" || c.Mode == "race" // the stream may end by itself first
	mustComplete := c.Cause == "cancel" && c.Mode == "completed"
	ctxCode := codes.Canceled
	if c.Cause == "deadline" {
		ctxCode = codes.DeadlineExceeded
	}

	hooks.Reset(true)
	defer hooks.Reset(false)
	var target atomic.Uint64
	release := make(chan struct{})
	var relOnce sync.Once
	releaseTrailer := func() { relOnce.Do(func() { close(release) }) }
	holdTrailer := c.Mode == "immediate" || c.Mode == "settled"
	if holdTrailer {
		hooks.OnYield("srv.beforeTrailer", func(id uint64) {
			if id == target.Load() {
				select {
				case <-release:
				case <-time.After(4 * hangTimeout):
				}
			}
		})
	}

	rig := c07NewRig(c.Serialise, c.Strict)
	hlog := NewHandlerLog()
	tag := fmt.Sprintf("t%d", caseNo)
	var others *c07Others
	defer func() {
		releaseTrailer()
		if others != nil {
			others.release()
		}
		rig.Close()
	}()
	if c.Others > 0 {
		others = c07NewOthers(tag)
		InstallPrograms(rig.Impl, hlog, others.gate)
		if p := others.start(rig.CC, tag); len(p) > 0 {
			bad("others.start", "the other calls on the connection did not run correctly before the cancel", p, nil)
			return false
		}
	} else {
		InstallPrograms(rig.Impl, hlog, nil)
	}

	// ---- open, run the prefix ----
	var ctx context.Context
	var cancel context.CancelFunc
	var deadline time.Time
	// every other case ends its context WITH A CAUSE (context.WithCancelCause / WithTimeoutCause, what an
	// errgroup does when a sibling fails): ctx.Err() is Canceled / DeadlineExceeded all the same, and so is
	// the status the property demands
	withCause := caseNo%2 == 1
	if c.Cause == "deadline" {
		if withCause {
			ctx, cancel = context.WithTimeoutCause(context.Background(), time.Duration(c.TimeoutMs)*time.Millisecond, errors.New("budget of the whole request used up"))
		} else {
			ctx, cancel = context.WithTimeout(context.Background(), time.Duration(c.TimeoutMs)*time.Millisecond)
		}
		deadline, _ = ctx.Deadline()
	} else if withCause {
		cctx, ccancel := context.WithCancelCause(context.Background())
		ctx, cancel = cctx, func() { ccancel(errors.New("sibling worker failed")) }
	} else {
		ctx, cancel = context.WithCancel(context.Background())
	}
	if withCause {
		r.Count(scen + ".ended_with_a_cause")
	}
	defer cancel()
	waitFor := func(pred func(Event) bool) bool {
		if c.Cause == "deadline" {
			// the deadline may end the stream under the wait: not a failure of the schedule
			d := time.Until(deadline)
			if d < 0 {
				d = 0
			}
			hooks.WaitFor(pred, d)
			return true
		}
		return hooks.WaitFor(pred, hangTimeout)
	}
	octx := metadata.AppendToOutgoingContext(ctx, "x-tag", tag, "x-prog", c.Prog)
	cs, err := rig.CC.NewStream(octx, descOf(sh.Method), sh.Method)
	if err != nil {
		if c.Cause == "deadline" && ctx.Err() != nil {
			r.Count(scen + ".expiredBeforeOpen")
			return true
		}
		bad("open", "stream could not be opened", err.Error(), nil)
		return true
	}
	id := c07FindID(rig.Wire, tag)
	if id == 0 {
		bad("open", "no open envelope with the call's metadata on the wire", nil, nil)
		return true
	}
	target.Store(id)

	var sent, got [][]byte
	var errs []error // errors of RecvMsg, in order
	closed := false
	expired := false // deadline cause: the context ended while the prefix was still running
	nR := 0
	prefixFailed := false
	sendFailedEarly := false // a SendMsg failed on the ended context while the stream's read loop was still running
	steps := c.Steps[:c.Prefix]
	if c.Mode == "completed" || c.Mode == "race" {
		// the trailer can only be processed once the caller has taken every response
		all := sh.Bodies(c.M, strings.Count(steps, "S"), true)
		steps += strings.Repeat("R", all-strings.Count(steps, "R"))
	}
	prefixOK := within(3*hangTimeout, func() {
		for i := 0; i < len(steps) && !expired; i++ {
			var err error
			switch steps[i] {
			case 'S':
				p := []byte(fmt.Sprintf("%s/c%d", tag, len(sent)))
				if err = sendB(cs, p); err == nil {
					sent = append(sent, p)
				}
			case 'R':
				var b []byte
				if b, err = recvB(cs); err == nil {
					got = append(got, b)
					nR++
				} else {
					errs = append(errs, err)
				}
			case 'C':
				if err = cs.CloseSend(); err == nil {
					closed = true
				}
			}
			if err != nil {
				if c.Cause == "deadline" {
					// the moment of expiry is not controlled (nor is the order of the caller's timer and
					// the handler's, which runs on the same timeout): from here on only the outcome counts
					expired = true
					sendFailedEarly = sendFailedEarly || steps[i] == 'S'
					break
				}
				bad("prefix", fmt.Sprintf("step %d (%c) of the caller's program %s failed before the cancellation", i, steps[i], steps), c07ErrStr(err), "nil")
				prefixFailed = true
				return
			}
		}
	})
	if !prefixOK {
		hung("prefix.hang", "the caller's program did not get to the position")
		return false
	}
	if prefixFailed {
		return healthy
	}
	nBodies := sh.Bodies(c.M, len(sent), closed)
	switch {
	case expired:
	case c.Mode == "settled":
		nFwd := len(sent)
		if closed {
			nFwd++
		}
		ok := waitFor(c07CountPred("srv.forward.sent", id, "", nFwd))
		ok = ok && waitFor(c07CountPred("srv.writer.write", id, "ok", nBodies))
		q := nBodies - nR // responses written but not yet taken by the caller
		deliver := nR + q
		if q > 2 {
			deliver = nR + 2 // one in the stream's hand-off, one in the per-call queue; the third waits in the multiplexer
		}
		ok = ok && waitFor(c07CountPred("mux.deliver", id, "", deliver))
		if closed && sh.Returns {
			ok = ok && waitFor(siteIs("srv.handler.returned", id))
		}
		if !ok {
			hung("settle", "the predicted reactions of the handler (responses written, delivered, handler returned) did not occur")
			return false
		}
		r.Count(fmt.Sprintf("%s.queuedUnread.%d", c.Cause, nBodies-nR))
	case c.Mode == "completed":
		if !waitFor(siteIs("cs.fin.done", id)) {
			hung("complete", "the fault-free program did not complete (no cs.fin.done)")
			return false
		}
	}

	// ---- a pending receive: a RecvMsg that is past its done-check when the context ends ----
	var pendingDone chan struct{}
	var pendB []byte
	var pendErr error
	if c.Pending && !expired {
		reached := make(chan struct{})
		var once sync.Once
		hooks.OnYield("cs.recv.afterDoneCheck", func(yid uint64) {
			if yid == id {
				once.Do(func() { close(reached) })
			}
		})
		pendingDone = make(chan struct{})
		go func() {
			defer close(pendingDone)
			pendB, pendErr = recvB(cs)
		}()
		select {
		case <-reached:
		case <-pendingDone: // the stream was already done (deadline)
		case <-time.After(hangTimeout):
			hung("recv.pendingStart", "a RecvMsg on the live stream neither returned nor reached its select")
			return false
		}
	}

	// ---- the context ends ----
	if c.Cause == "cancel" {
		cancel()
	} else {
		<-ctx.Done()
		// The timer closes the caller's Done channel first and then walks the derived contexts; wait
		// until the stream's own context (derived from the caller's) has been reached too.
		if !within(hangTimeout, func() { <-cs.Context().Done() }) {
			hung("ctx", "the stream's context did not end with the caller's")
			return false
		}
	}
	if pendingDone != nil {
		if !within(hangTimeout, func() { <-pendingDone }) {
			hung("recv.pendingHang", "the RecvMsg that was pending when the context ended did not return")
			return false
		}
		if pendErr != nil {
			errs = append(errs, pendErr)
			r.Count(c.Cause + ".pendingRecv.error")
		} else {
			got = append(got, pendB)
			r.Count(c.Cause + ".pendingRecv.message")
		}
	}

	// ---- caller side ----
	var sendErrs []error
	trySend := func(when string) {
		var err error
		if !within(hangTimeout, func() { err = sendB(cs, []byte(tag+"/late")) }) {
			hung("send.hang", "SendMsg after the cancellation did not return ("+when+")")
			return
		}
		sendErrs = append(sendErrs, err)
		if err == nil {
			bad("send", "SendMsg after the cancellation succeeded ("+when+")", "nil", "an error")
		}
	}
	if c.SendFirst && c.Strict && !closed {
		trySend("before any RecvMsg")
		sendFailedEarly = true
		if !healthy {
			return false
		}
	}
	for len(errs) < 3 && len(got) <= nBodies+1 && healthy {
		var b []byte
		var err error
		if !within(hangTimeout, func() { b, err = recvB(cs) }) {
			hung("recv.hang", "RecvMsg after the cancellation did not return")
			return false
		}
		if err != nil {
			errs = append(errs, err)
		} else {
			if len(errs) > 0 {
				bad("recv.afterError", "RecvMsg returned a message after it had returned an error", fmt.Sprintf("%q after %s", b, c07ErrStr(errs[0])), nil)
			}
			got = append(got, b)
		}
	}
	// the stream's read loop must have finished: this also orders the wire snapshot after the reset
	if !hooks.WaitFor(siteIs("cs.fin.teardown", id), hangTimeout) {
		hung("fin.hang", "the client stream's read loop did not finish after the cancellation")
		return false
	}
	if !closed {
		trySend("after the stream finished")
		if !healthy {
			return false
		}
	}

	// The reset is written before cs.fin.teardown is logged. Without one the handler cannot learn of
	// the cancellation: report that, rather than wait for the handler in vain.
	if !tolerant && !mustComplete {
		n := 0
		for _, e := range rig.Wire.Snapshot() {
			if e.Dir == "c2s" && e.Rpc.Id == id && e.Rpc.Reset_ != nil {
				n++
			}
		}
		if n == 0 {
			bad("wire.noReset", "no reset was sent for the cancelled stream", map[string]any{"resets": 0}, "exactly one")
			return healthy
		}
	}

	// ---- server side ----
	if !hooks.WaitFor(siteIs("srv.handler.returned", id), hangTimeout) {
		hung("handler.hang", "the handler did not return after the caller's context ended: it is left running with a live context")
		return false
	}
	hlog.mu.Lock()
	hres, hdone, hsent := hlog.Result[tag], hlog.CtxDone[tag], append([][]byte(nil), hlog.Sent[tag]...)
	hlog.mu.Unlock()
	if !closed && !mustComplete {
		// only its context can have ended this handler
		if hres == "ok" || !hdone {
			bad("handler.ctx", "the handler returned but its context was not done", map[string]any{"result": hres, "ctxDone": hdone}, "ctxDone")
		}
	}
	if c.Cause == "cancel" && !tolerant && !mustComplete {
		// the stream is still registered (handler blocked, or its trailer held): the reset must reach it
		if !hooks.WaitFor(siteIs("srv.stream.cancel", id), hangTimeout) {
			hung("srv.cancel", "the server's reset branch never ran for the stream")
			return false
		}
	}
	releaseTrailer()

	// ---- the other calls ----
	if others != nil {
		if p := others.finish(); len(p) > 0 {
			bad("others", "other calls on the connection were affected by the cancellation", p, "all complete correctly")
			for _, s := range p {
				if strings.Contains(s, "did not") {
					healthy = false
				}
			}
		}
	}

	// ---- received messages: the next ones the handler sent, in order ----
	for j, b := range got {
		var want []byte
		if sh.Name == "bidi-echo-pingpong" || sh.Name == "bidi-echo-sendall" {
			want = sh.Reply(j, sent)
		} else if j < len(hsent) {
			want = hsent[j]
		}
		if want == nil || !bytes.Equal(b, want) {
			bad("recv.seq", "a RecvMsg returned something other than the next message the handler sent", seqStr(got), seqStr(hsent))
			break
		}
	}

	// ---- wire ----
	var c2s []*Rpc
	var final error
	haveTrailer := false
	for _, e := range rig.Wire.Snapshot() {
		if e.Rpc.Id != id {
			continue
		}
		if e.Dir == "c2s" {
			c2s = append(c2s, e.Rpc)
		} else if e.Rpc.Trailer != nil || e.Rpc.Reset_ != nil {
			if !haveTrailer {
				haveTrailer = true
				if e.Rpc.Reset_ != nil {
					final = status.Error(codes.Unavailable, "stream reset by peer")
				} else if e.Rpc.GetStatus().GetCode() == 0 {
					final = io.EOF
				} else {
					final = status.Error(codes.Code(e.Rpc.GetStatus().GetCode()), e.Rpc.GetStatus().GetMessage())
				}
			}
		}
	}
	nRst, lastIsRst := 0, false
	for i, e := range c2s {
		if e.Reset_ != nil {
			nRst++
			lastIsRst = i == len(c2s)-1
		}
	}
	wireObs := map[string]any{"resets": nRst, "resetIsLast": lastIsRst, "c2sEnvelopes": len(c2s), "serverTrailerOnWire": haveTrailer}
	switch {
	case nRst > 1:
		bad("wire.resets", "more than one reset for the stream on the wire", wireObs, "exactly one")
	case nRst == 1 && !lastIsRst:
		bad("wire.resetNotLast", "the reset is not the last envelope the caller sent for the stream", wireObs, nil)
	case nRst == 1 && mustComplete:
		bad("wire.resetAfterCompletion", "a reset was sent for a stream that had completed before the cancellation", wireObs, "no reset")
	case nRst == 0 && mustComplete:
	case nRst == 0 && !(tolerant && haveTrailer):
		bad("wire.noReset", "no reset was sent for the cancelled stream", wireObs, "exactly one")
	}

	// ---- errors of RecvMsg ----
	isCtx := func(err error) bool {
		st, ok := status.FromError(err)
		return ok && err != io.EOF && st.Code() == ctxCode
	}
	isFinal := func(err error) bool {
		return haveTrailer && nRst == 0 && c07ErrStr(err) == c07ErrStr(final)
	}
	errStrs := make([]string, len(errs))
	for i, e := range errs {
		errStrs[i] = c07ErrStr(e)
	}
	if len(errs) == 0 {
		bad("recv.noError", "RecvMsg kept returning messages after the cancellation", seqStr(got), nil)
	}
	// DEVIATION of the real code, tolerated here and counted (see c07ProbeSendFailTeardown): a SendMsg
	// that fails on the ended context tears the call's registration down itself; if the stream's read
	// loop has not yet noticed the context, its next read finds the registration closed and the
	// stream's terminal error becomes Unknown "respChan closed" instead of the context's status.
	// (repaired in /repo by "fix: a cancelled stream whose registration was already torn down still ends
	// as Canceled, not Unknown": no longer tolerated)
	isTeardownRace := func(err error) bool { return false && sendFailedEarly }
	switched, teardownRace := false, false
	for i, e := range errs {
		switch {
		case mustComplete:
			if e != io.EOF {
				bad("recv.completed", "the stream had completed successfully before the cancellation, but RecvMsg did not return io.EOF", errStrs, "EOF")
			}
		case isCtx(e) && (i == 0 || c07ErrStr(e) == c07ErrStr(errs[i-1])):
		case isTeardownRace(e) && (i == 0 || isCtx(errs[i-1]) || isTeardownRace(errs[i-1])):
			teardownRace = true
		case tolerant && isFinal(e):
			// The stream ended by itself (trailer processed, no reset sent): its own end is reported.
			// A RecvMsg that was already past its done-check may have reported the context first.
			if i > 0 && !isFinal(errs[i-1]) {
				switched = true
			}
		default:
			what := "RecvMsg after the cancellation returned neither a delivered message nor the context's status"
			if i > 0 {
				what = "RecvMsg did not keep returning its first error"
			}
			bad("recv.status", what, errStrs, ctxCode.String())
			i = len(errs)
		}
		if i >= len(errs) {
			break
		}
	}
	if teardownRace {
		r.Count(c.Cause + ".deviation.respChanClosedAfterFailedSend")
	}
	if switched {
		r.Count(c.Cause + ".recvReportedCtxThenStreamEnd")
	}

	// ---- bookkeeping ----
	r.Eval(fmt.Sprintf("%s/%s/m%d/p%d/%s/o%d/ser=%v/pend=%v", c.Cause, sh.Name, c.M, c.Prefix, c.Mode, c.Others, c.Serialise, c.Pending), true)
	r.Count(c.Cause + ".mode." + c.Mode)
	r.Count(c.Cause + ".kind." + strings.TrimPrefix(sh.Method, "/verif.Echo/"))
	r.Count(fmt.Sprintf("%s.others.%d", c.Cause, c.Others))
	r.Count(fmt.Sprintf("%s.resets.%d", c.Cause, nRst))
	if len(errs) > 0 {
		r.Count(c.Cause + ".firstError." + strings.SplitN(errStrs[0], ":", 2)[0])
	}
	r.CountN(c.Cause+".messagesAfterPosition", len(got)-nR)
	if expired {
		r.Count(c.Cause + ".expiredDuringPrefix")
	}
	_ = sendErrs
	return healthy
}

// c07Baseline runs the shape fault-free and returns the length of the stream's wire trace.
func c07Baseline(r *Run, sh c07Shape, m int) int {
	scen := "cancel." + sh.Name + ".baseline"
	if !sh.Returns {
		return 0
	}
	rig := c07NewRig(true, false)
	defer rig.Close()
	hlog := NewHandlerLog()
	InstallPrograms(rig.Impl, hlog, nil)
	prog, steps := sh.Prog(m), sh.Steps(m)
	in := map[string]any{"shape": sh.Name, "prog": prog, "steps": steps}
	ctx := metadata.AppendToOutgoingContext(context.Background(), "x-tag", "base", "x-prog", prog)
	var term error
	ok := within(3*hangTimeout, func() {
		cs, err := rig.CC.NewStream(ctx, descOf(sh.Method), sh.Method)
		if err != nil {
			term = err
			return
		}
		for _, s := range steps {
			switch s {
			case 'S':
				term = sendB(cs, []byte("x"))
			case 'R':
				_, term = recvB(cs)
			case 'C':
				term = cs.CloseSend()
			}
			if term != nil {
				return
			}
		}
		for term == nil {
			_, term = recvB(cs)
		}
	})
	if !ok || term != io.EOF {
		r.Violate(scen, "history", "the fault-free run of the shape did not end with io.EOF", in, c07ErrStr(term), "EOF")
		return 0
	}
	id := c07FindID(rig.Wire, "base")
	l := 0
	for _, e := range rig.Wire.Snapshot() {
		if e.Rpc.Id == id {
			l++
			if e.Rpc.Reset_ != nil {
				r.Violate(scen, "history", "a reset on the wire of a fault-free stream", in, nil, nil)
			}
		}
	}
	return l
}

func c07Family(r *Run, cause string) {
	rng := r.Rand("c07." + cause)
	caseNo := 0
	seeds := r.Scale(1, 10)
	for seed := 0; seed < seeds; seed++ {
		for _, sh := range c07Shapes() {
			ms := sh.Ms
			if !r.Thorough() && len(ms) > 1 {
				// quick: the ends and two values in between, rotating with the seed
				if cause == "deadline" {
					ms = []int{0, 2 + int(r.Seed%2), 5}
				}
			}
			for _, m := range ms {
				steps := sh.Steps(m)
				l := 0
				if cause == "cancel" && seed == 0 {
					l = c07Baseline(r, sh, m)
				}
				positions := 0
				run := func(prefix int, mode string) bool {
					positions++
					others := 0
					switch {
					case r.Thorough():
						others = 4 * (caseNo % 2)
					case caseNo%3 == 0:
						others = 4
					}
					c := c07Case{Shape: sh.Name, Prog: sh.Prog(m), Steps: steps, Prefix: prefix, Mode: mode, Cause: cause, M: m,
						Others: others, Serialise: rng.Intn(2) == 0, Strict: rng.Intn(3) != 0, SendFirst: rng.Intn(2) == 0,
						Pending: (mode == "immediate" || mode == "settled") && rng.Intn(2) == 0}
					if cause == "deadline" {
						c.TimeoutMs = 8 + rng.Intn(12)
						if others > 0 {
							c.TimeoutMs += 10
						}
					}
					caseNo++
					ok := c07RunCase(r, sh, c, caseNo)
					return ok && r.NumViolations() <= 4
				}
				for p := 0; p <= len(steps); p++ {
					if !run(p, "immediate") {
						return
					}
					if !run(p, "settled") {
						return
					}
				}
				if sh.Returns {
					if !run(len(steps), "completed") {
						return
					}
					if !run(len(steps), "race") {
						return
					}
				}
				if l > 0 {
					// every position of the fault-free wire trace is one of the (prefix, mode) pairs
					r.Sample(map[string]any{"shape": sh.Name, "prog": sh.Prog(m), "steps": steps, "wireTraceLength": l, "positions": positions})
					r.CountN("cancel.wireTraceLength."+sh.Name, l)
					if positions < l+1 {
						r.Violate("cancel."+sh.Name+".coverage", "history", "fewer cancellation positions than positions in the fault-free wire trace", sh.Name, positions, l+1)
					}
				}
			}
		}
	}
}

// c07SendWindow: the caller's context ends while a SendMsg on the stream has ALREADY PASSED its
// done-check, in two deterministic ways:
//
//	hold   the SendMsg goroutine is held at the yield site cs.send.afterDoneCheck; the context is
//	       cancelled; the case waits for cs.fin.done of the stream (the read loop has finished and has
//	       written its reset); the SendMsg is released: its Write fails on the cancelled context;
//	parked the SendMsg is parked INSIDE the transport's Write (c07BlockEnd) when the cancel comes.
//
// In both: SendMsg returns an error; exactly one reset for the id is on the c2s wire and nothing of
// the id follows it (a failing SendMsg must not send a reset of its own, nor write its message after
// the reset); later receives return Canceled; the handler is cancelled; other calls are unaffected.
func c07SendWindow(r *Run) {
	rng := r.Rand("c07.sendwindow")
	type shape struct {
		name, method, prog string
		maxSends           int
	}
	shapes := []shape{{"bidi-echo", mBidi, "echo", 3}, {"cli-aftereof", mCliStream, "aftereof:1", 3}, {"srv-burst", mSrvStream, "burst:2", 1}, {"bidi-hold", mBidi, "hold", 1}}
	caseNo := 0
	rounds := r.Scale(4, 40)
	for round := 0; round < rounds; round++ {
		for _, sh := range shapes {
			for k := 1; k <= sh.maxSends; k++ {
				for _, way := range []string{"hold", "parked"} {
					for _, others := range []int{0, 4} {
						caseNo++
						in := map[string]any{"shape": sh.name, "prog": sh.prog, "heldSend": k, "way": way, "others": others, "serialise": rng.Intn(2) == 0}
						if !c07SendWindowCase(r, sh.name, sh.method, sh.prog, k, way, others, in["serialise"].(bool), in, caseNo) || r.NumViolations() > 4 {
							return
						}
					}
				}
			}
		}
	}
}

func c07SendWindowCase(r *Run, shName, method, prog string, k int, way string, nOthers int, serialise bool, in map[string]any, caseNo int) bool {
	scen := "sendwindow." + way + "." + shName
	r.Progress(scen, in)
	healthy := true
	bad := func(sub, detail string, observed, expected any) {
		r.Violate(scen+"."+sub, "schedule", detail, in, observed, expected)
	}
	hung := func(sub, detail string) bool {
		healthy = false
		r.Violate(scen+"."+sub, "schedule", detail, in, goroutineDump(), nil)
		return false
	}
	hooks.Reset(true)
	defer hooks.Reset(false)
	var target atomic.Uint64
	var calls atomic.Int64
	atSend := make(chan struct{})
	releaseSend := make(chan struct{})
	var relOnce sync.Once
	release := func() { relOnce.Do(func() { close(releaseSend) }) }
	if way == "hold" {
		hooks.OnYield("cs.send.afterDoneCheck", func(id uint64) {
			if id == target.Load() && int(calls.Add(1)) == k {
				close(atSend)
				select {
				case <-releaseSend:
				case <-time.After(4 * hangTimeout):
				}
			}
		})
	}
	var blk *c07BlockEnd
	rig := c07NewRigWith(serialise, func(ce *End) goat.RpcReadWriter {
		blk = &c07BlockEnd{End: ce, parked: make(chan struct{})}
		return blk
	})
	hlog := NewHandlerLog()
	tag := fmt.Sprintf("sw%d", caseNo)
	var others *c07Others
	defer func() {
		release()
		if others != nil {
			others.release()
		}
		rig.Close()
	}()
	if nOthers > 0 {
		others = c07NewOthers(tag)
		InstallPrograms(rig.Impl, hlog, others.gate)
		if p := others.start(rig.CC, tag); len(p) > 0 {
			bad("others.start", "the other calls on the connection did not run correctly before the cancel", p, nil)
			return false
		}
	} else {
		InstallPrograms(rig.Impl, hlog, nil)
	}
	ctx, cancel := context.WithCancel(context.Background())
	defer cancel()
	octx := metadata.AppendToOutgoingContext(ctx, "x-tag", tag, "x-prog", prog)
	cs, err := rig.CC.NewStream(octx, descOf(method), method)
	if err != nil {
		bad("open", "stream could not be opened", err.Error(), nil)
		return true
	}
	id := c07FindID(rig.Wire, tag)
	target.Store(id)
	for i := 1; i < k; i++ {
		if err := sendB(cs, []byte(fmt.Sprintf("%s/c%d", tag, i))); err != nil {
			bad("prefix", "a SendMsg before the cancellation failed", c07ErrStr(err), "nil")
			return true
		}
	}
	// the k-th SendMsg goes into the window
	if way == "parked" {
		blk.armed.Store(id)
	}
	sendDone := make(chan error, 1)
	go func() { sendDone <- sendB(cs, []byte(tag+"/held")) }()
	at := atSend
	if way == "parked" {
		at = blk.parked
	}
	if !within(hangTimeout, func() { <-at }) {
		return hung("window", "the SendMsg did not reach the window (yield site / transport write)")
	}
	cancel()
	if way == "hold" {
		// the read loop finishes first and writes its reset; only then does the SendMsg go on
		if !hooks.WaitFor(siteIs("cs.fin.done", id), hangTimeout) {
			return hung("fin.hang", "the client stream's read loop did not finish after the cancellation")
		}
		release()
	}
	var sendErr error
	if !within(hangTimeout, func() { sendErr = <-sendDone }) {
		return hung("send.hang", "the SendMsg that was in flight when the context ended did not return")
	}
	if sendErr == nil {
		bad("send", "the SendMsg that was in flight when the context ended reported success", "nil", "an error")
	}
	if !hooks.WaitFor(siteIs("cs.fin.done", id), hangTimeout) {
		return hung("fin.hang", "the client stream's read loop did not finish after the cancellation")
	}
	var errStrs []string
	for i := 0; i < 3; i++ {
		var e error
		if !within(hangTimeout, func() { _, e = recvB(cs) }) {
			return hung("recv.hang", "RecvMsg after the cancellation did not return")
		}
		errStrs = append(errStrs, c07ErrStr(e))
	}
	for i, es := range errStrs {
		okCtx := es == "Canceled: context canceled"
		// the deviation described at c07ProbeSendFailTeardown; in the hold way the read loop has finished
		// before the SendMsg fails, so it cannot occur there
		okDev := false // repaired in /repo; see c07ProbeSendFailTeardown
		if !(okCtx || okDev) || (i > 0 && es != errStrs[i-1]) {
			bad("recv.status", "RecvMsg after the cancellation did not (keep) return(ing) the Canceled status", errStrs, "Canceled")
			break
		}
		if okDev && i == 0 {
			r.Count("sendwindow.deviation.respChanClosedAfterFailedSend")
		}
	}
	if e := sendB(cs, []byte(tag+"/late")); e == nil {
		bad("send.late", "SendMsg after the cancellation succeeded", "nil", "an error")
	}
	if !hooks.WaitFor(siteIs("srv.stream.cancel", id), hangTimeout) {
		return hung("srv.cancel", "the server's reset branch never ran for the stream")
	}
	if !hooks.WaitFor(siteIs("srv.handler.returned", id), hangTimeout) {
		return hung("handler.hang", "the handler did not return after the caller's context ended")
	}
	if others != nil {
		if p := others.finish(); len(p) > 0 {
			bad("others", "other calls on the connection were affected by the cancellation", p, "all complete correctly")
			healthy = false
		}
	}
	// the wire, at the very end: both writers of the stream (SendMsg, the read loop) have returned
	var kinds []string
	nRst, lastRst := 0, -1
	for _, e := range rig.Wire.Snapshot() {
		if e.Dir != "c2s" || e.Rpc.Id != id {
			continue
		}
		switch {
		case e.Rpc.Reset_ != nil:
			nRst++
			lastRst = len(kinds)
			kinds = append(kinds, "reset")
		case e.Rpc.Body != nil:
			kinds = append(kinds, "body")
		case e.Rpc.Trailer != nil:
			kinds = append(kinds, "trailer")
		default:
			kinds = append(kinds, "open")
		}
	}
	want := append([]string{"open"}, make([]string, 0)...)
	for i := 1; i < k; i++ {
		want = append(want, "body")
	}
	want = append(want, "reset")
	if nRst != 1 {
		bad("wire.resets", "not exactly one reset for the cancelled stream on the wire", kinds, want)
	} else if lastRst != len(kinds)-1 {
		bad("wire.afterReset", "the caller sent something for the stream after its reset", kinds, want)
	} else if strings.Join(kinds, ",") != strings.Join(want, ",") {
		bad("wire.trace", "the stream's c2s trace is not open, the messages sent before the cancellation, one reset", kinds, want)
	}
	r.Eval(fmt.Sprintf("%s/k%d/o%d/ser=%v", scen, k, nOthers, serialise), true)
	r.Count("sendwindow.way." + way)
	r.Count("sendwindow.shape." + shName)
	r.Count(fmt.Sprintf("sendwindow.others.%d", nOthers))
	r.Count(fmt.Sprintf("sendwindow.resets.%d", nRst))
	return healthy
}

// c07Probes records (as counts and samples, not as violations) two behaviours of the real code at the
// edge of the property; see the comments at each.
func c07Probes(r *Run) {
	c07ProbeCtxThenEnd(r)
	c07ProbeSendFailTeardown(r)
	c07ProbeHoldTwoSends(r)
}

// c07ProbeSendFailTeardown: open; cancel; SendMsg (fails with the context's error on a transport that
// honours the context) — all before the stream's freshly started read loop has looked at the context.
// SendMsg's error path unregisters the call, so the read loop's first read can find "registration
// closed" and "context done" both ready; when it picks the former the stream's terminal error is
// Unknown "respChan closed", and that is what every later RecvMsg returns instead of Canceled. The
// choice is the runtime's, so the probe only counts outcomes over many streams.
func c07ProbeSendFailTeardown(r *Run) {
	scen := "probe.sendFailTeardown"
	n := r.Scale(300, 4000)
	hooks.Reset(true)
	defer hooks.Reset(false)
	rig := c07NewRig(true, true)
	defer rig.Close()
	InstallPrograms(rig.Impl, NewHandlerLog(), nil)
	sampled := false
	for i := 0; i < n; i++ {
		tag := fmt.Sprintf("sf%d", i)
		ctx, cancel := context.WithCancel(context.Background())
		octx := metadata.AppendToOutgoingContext(ctx, "x-tag", tag, "x-prog", "echo")
		cs, err := rig.CC.NewStream(octx, descBidi, mBidi)
		if err != nil {
			cancel()
			r.Violate(scen+".open", "schedule", "stream could not be opened", i, err.Error(), nil)
			return
		}
		id := c07FindIDFrom(rig.Wire, tag, i*2)
		cancel()
		sendErr := sendB(cs, []byte("late"))
		if !hooks.WaitFor(siteIs("cs.fin.done", id), hangTimeout) {
			r.Violate(scen+".hang", "schedule", "the client stream did not finish after the cancellation", i, nil, nil)
			return
		}
		_, recvErr := recvB(cs)
		out := c07ErrStr(recvErr)
		r.Eval(scen, true)
		r.Count(scen + ".recvAfter: " + out)
		if sendErr == nil {
			r.Count(scen + ".sendSucceeded")
		}
		if out != "Canceled: context canceled" && !sampled {
			sampled = true
			r.Sample(map[string]any{"probe": scen, "schedule": "NewStream; cancel(); SendMsg (fails: context canceled); wait for the stream to finish; RecvMsg",
				"iteration": i, "sendMsg": c07ErrStr(sendErr), "recvMsg": out, "expected": "Canceled"})
		}
	}
}

// c07FindIDFrom is c07FindID starting at a wire index (long-lived rigs).
func c07FindIDFrom(w *Wire, tag string, from int) uint64 {
	evs := w.Snapshot()
	if from > len(evs) {
		from = 0
	}
	for _, e := range evs[from:] {
		if e.Dir != "c2s" {
			continue
		}
		for _, kv := range e.Rpc.GetHeader().GetHeaders() {
			if kv.Key == "x-tag" && kv.Value == tag {
				return e.Rpc.Id
			}
		}
	}
	return c07FindID(w, tag)
}

// c07ProbeCtxThenEnd: the caller cancels after the stream's read loop has read the server's
// trailer but before it has recorded it (a preemption in front of the finishing block's Lock, forced
// with the yield site cs.fin.beforeLock). Observed on the repaired tree: the RecvMsg issued in that
// window returns Canceled, the next one io.EOF; no reset is sent (the handler had returned). This is
// the same pair the race mode of the families counts as recvReportedCtxThenStreamEnd. Under the
// strictest reading of I2 ("after the first error every later receive returns it") it is a deviation;
// the handler side of the property is not touched.
func c07ProbeCtxThenEnd(r *Run) {
	scen := "probe.ctxThenEnd"
	n := r.Scale(4, 32)
	for i := 0; i < n; i++ {
		hooks.Reset(true)
		release := make(chan struct{})
		atFin := make(chan struct{})
		var once sync.Once
		hooks.OnYield("cs.fin.beforeLock", func(uint64) {
			once.Do(func() { close(atFin) })
			select {
			case <-release:
			case <-time.After(2 * hangTimeout):
			}
		})
		rig := c07NewRig(i%2 == 0, true)
		InstallPrograms(rig.Impl, NewHandlerLog(), nil)
		ctx, cancel := context.WithCancel(context.Background())
		octx := metadata.AppendToOutgoingContext(ctx, "x-tag", "p", "x-prog", "aftereof:1")
		var seq []string
		ok := within(3*hangTimeout, func() {
			cs, err := rig.CC.NewStream(octx, descBidi, mBidi)
			if err != nil {
				return
			}
			cs.CloseSend()
			_, err = recvB(cs) // the response; the read loop goes on to read the trailer
			seq = append(seq, c07ErrStr(err))
			<-atFin // trailer read, not yet recorded
			cancel()
			_, err = recvB(cs)
			seq = append(seq, c07ErrStr(err))
			close(release)
			hooks.WaitFor(siteIs("cs.fin.done", 0), hangTimeout)
			for k := 0; k < 2; k++ {
				_, err = recvB(cs)
				seq = append(seq, c07ErrStr(err))
			}
		})
		cancel()
		nRst := 0
		for _, e := range rig.Wire.Snapshot() {
			if e.Dir == "c2s" && e.Rpc.Reset_ != nil {
				nRst++
			}
		}
		hooks.Reset(false)
		rig.Close()
		if !ok {
			r.Violate(scen+".hang", "schedule", "the probe did not finish", i, seq, nil)
			return
		}
		out := strings.Join(seq, " | ")
		r.Eval(scen, true)
		r.Count(scen + ".outcome: " + out + fmt.Sprintf(" | resets=%d", nRst))
		if i == 0 {
			r.Sample(map[string]any{"probe": scen, "schedule": "CloseSend; RecvMsg (message); hold the read loop at cs.fin.beforeLock after it has read the trailer; cancel; RecvMsg; release; RecvMsg x2",
				"recvResults": seq, "resets": nRst})
		}
	}
}

// c07ProbeHoldTwoSends: a handler that never reads (program `hold`, waits for its context only)
// and a caller that sends TWO messages and then cancels. The first message fills the stream's
// one-slot queue on the server; the second parks the server's read loop in its forwarding select
// (the handler is alive, so the "stream done" case is not ready); the reset sits behind it on the
// connection and is never read. The probe reports whether the handler's context became done within
// a bound; it costs that bound when it does not.
func c07ProbeHoldTwoSends(r *Run) {
	scen := "probe.holdTwoSends"
	bound := 1500 * time.Millisecond
	for _, nSend := range []int{1, 2} {
		hooks.Reset(true)
		rig := c07NewRig(true, true)
		hlog := NewHandlerLog()
		InstallPrograms(rig.Impl, hlog, nil)
		ctx, cancel := context.WithCancel(context.Background())
		octx := metadata.AppendToOutgoingContext(ctx, "x-tag", "h", "x-prog", "hold")
		cs, err := rig.CC.NewStream(octx, descBidi, mBidi)
		if err != nil {
			cancel()
			rig.Close()
			hooks.Reset(false)
			continue
		}
		id := c07FindID(rig.Wire, "h")
		for k := 0; k < nSend; k++ {
			sendB(cs, []byte("m"))
		}
		if nSend == 2 {
			// the read loop is parked in the forwarding select with the second message
			hooks.WaitFor(c07CountPred("srv.forward.enter", id, "", 2), hangTimeout)
		}
		cancel()
		rstOnWire := hooks.WaitFor(siteIs("cs.fin.teardown", id), hangTimeout)
		cancelled := hooks.WaitFor(siteIs("srv.stream.cancel", id), bound)
		returned := cancelled && hooks.WaitFor(siteIs("srv.handler.returned", id), bound)
		r.Eval(fmt.Sprintf("%s/%d", scen, nSend), true)
		out := fmt.Sprintf("%s.sends=%d: resetWritten=%v handlerCancelledWithin%v=%v handlerReturned=%v", scen, nSend, rstOnWire, bound, cancelled, returned)
		r.Count(out)
		r.Sample(map[string]any{"probe": scen, "sends": nSend, "resetWritten": rstOnWire, "handlerCancelled": cancelled, "handlerReturned": returned, "boundMs": bound.Milliseconds()})
		hooks.Reset(false)
		rig.Close()
	}
}
