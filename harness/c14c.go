package main

import (
	"context"
	"fmt"
	"runtime"
	"sync/atomic"
	"time"

	goat "github.com/avos-io/goat"
	"google.golang.org/grpc"
)

// c14ExpiredUnary: unary calls whose deadline has ALREADY passed when they are made, over the
// library's channel transport (its Write picks at random between the finished context and a ready
// peer, so about half of the requests still leave). The caller is gone at once; the handler — a
// long-poll that waits for its context — must end too (the expired deadline is conveyed as one
// millisecond: nothing else tells a unary handler that its caller has left). Afterwards no handler
// is left running for these calls and the connection still serves.
func c14ExpiredUnary(r *Run) {
	if !r.Want("expiredunary") {
		return
	}
	for rep, reps := 0, r.Scale(2, 20); rep < reps && r.NumViolations() <= 4; rep++ {
		c2s, s2c := make(chan *Rpc, 256), make(chan *Rpc, 256)
		cliRW := goat.NewGoatOverChannel(s2c, c2s)
		srvRW := goat.NewGoatOverChannel(c2s, s2c)
		var running, started atomic.Int32
		impl := &Impl{}
		impl.SetUnary(func(ctx context.Context, req []byte) ([]byte, error) {
			if string(req) == "probe" {
				return req, nil
			}
			started.Add(1)
			running.Add(1)
			defer running.Add(-1)
			<-ctx.Done()
			return nil, ctx.Err()
		})
		srv := goat.NewServer("srv")
		srv.RegisterService(&echoDesc, impl)
		ctx, cancelAll := context.WithCancel(context.Background())
		served := make(chan error, 1)
		go func() { served <- srv.Serve(ctx, srvRW) }()
		cc := goat.NewClientConn(cliRW, "cli", "srv")
		const calls = 48
		in := map[string]any{"rep": rep, "calls": calls, "caller_deadline": "expired 5ms before the call", "handler": "waits for its context"}
		r.Progress("expiredunary", in)
		// which of the two the transport's Write picks is the scheduler's choice: keep calling until enough
		// requests have left (at most ten times as many calls)
		for i := 0; i < 10*calls && (i < calls || started.Load() < 16); i++ {
			cctx, cancel := context.WithDeadline(context.Background(), time.Now().Add(-5*time.Millisecond))
			callUnary(cctx, cc, []byte(fmt.Sprintf("late-%d", i)))
			cancel()
		}
		// every call has returned; a handler's context ends one millisecond after it was started
		deadline := time.Now().Add(hangTimeout)
		for running.Load() != 0 && time.Now().Before(deadline) {
			time.Sleep(time.Millisecond)
		}
		r.Eval(fmt.Sprintf("expiredunary/%d", rep), true)
		r.CountN("expiredunary.requests_that_reached_a_handler", int(started.Load()))
		bad := false
		if n := running.Load(); n != 0 {
			bad = true
			r.Violate("expiredunary.leak", "history", fmt.Sprintf("%d unary handler(s) are still running although every call has ended (their callers' deadlines had expired): the handler's context was given no deadline", n), in, goroutineDump(), "0 handlers running")
		}
		if !bad {
			pctx, pcancel := context.WithTimeout(context.Background(), hangTimeout)
			got, err := callUnary(pctx, cc, []byte("probe"))
			pcancel()
			if err != nil || string(got) != "probe" {
				r.Violate("expiredunary.stalled", "history", "the connection no longer serves unary calls", in, fmt.Sprint(err), nil)
			}
		}
		srv.Stop()
		cancelAll()
		cc.Close()
		within(hangTimeout, func() { <-served })
		if bad {
			return
		}
	}
}

// c14Ctx is a context of the application's own (not one of the standard library's cancel contexts):
// the library can follow it only by watching its Done channel.
type c14Ctx struct {
	context.Context
	done chan struct{}
}

func (c *c14Ctx) Done() <-chan struct{} { return c.done }
func (c *c14Ctx) Err() error {
	select {
	case <-c.done:
		return context.Canceled
	default:
		return nil
	}
}

// c14OwnServeContext: Serve is given a context type of the application's own (tied to a socket's
// lifetime, merged from several sources, …). A few hundred RPCs WITH DEADLINES, unary and streaming,
// run to their end. Whenever none is in flight the number of goroutines is back at its idle level:
// nothing started on behalf of a finished RPC keeps watching that context.
func c14OwnServeContext(r *Run) {
	if !r.Want("ownctx") {
		return
	}
	in := map[string]any{"serve_context": "application-defined type with its own Done channel", "rpcs": "150 unary + 150 streaming, each with a deadline"}
	r.Progress("ownctx", in)
	c2s, s2c := make(chan *Rpc, 64), make(chan *Rpc, 64)
	impl := &Impl{}
	impl.SetUnary(func(ctx context.Context, req []byte) ([]byte, error) { return req, nil })
	impl.SetStream(func(m string, ss grpc.ServerStream) error {
		recvB(ss)
		return sendB(ss, []byte("r"))
	})
	srv := goat.NewServer("srv")
	srv.RegisterService(&echoDesc, impl)
	sctx := &c14Ctx{Context: context.Background(), done: make(chan struct{})}
	served := make(chan error, 1)
	go func() { served <- srv.Serve(sctx, goat.NewGoatOverChannel(c2s, s2c)) }()
	cc := goat.NewClientConn(goat.NewGoatOverChannel(s2c, c2s), "cli", "srv")
	round := func(n int) {
		for i := 0; i < n; i++ {
			ctx, cancel := context.WithTimeout(context.Background(), time.Minute)
			if i%2 == 0 {
				callUnary(ctx, cc, []byte("u"))
			} else if cs, err := cc.NewStream(ctx, descBidi, mBidi); err == nil {
				sendB(cs, []byte("m"))
				cs.CloseSend()
				for {
					if _, err := recvB(cs); err != nil {
						break
					}
				}
			}
			cancel()
		}
	}
	// every goroutine of the process counts here: what a finished RPC leaves watching the context has no
	// frame of the library on its stack
	settle := func(want int) int {
		deadline := time.Now().Add(hangTimeout / 2)
		n := runtime.NumGoroutine()
		for n > want && time.Now().Before(deadline) {
			time.Sleep(5 * time.Millisecond)
			n = runtime.NumGoroutine()
		}
		return n
	}
	round(10) // warm-up: lazily started goroutines exist now
	settleGoroutines(0)
	idle := settle(0)
	idle = settle(idle)
	round(300)
	after := settle(idle + 2)
	where := goroutineDump()
	if len(where) > 6000 {
		where = where[:6000]
	}
	r.Eval("ownctx", true)
	r.Count("c14.ownctx")
	if after > idle+2 {
		r.Violate("ownctx.goroutines", "history", fmt.Sprintf("no RPC is in flight, but %d goroutines are alive where the idle level is %d: finished RPCs with a deadline left something watching the Serve context", after, idle), in, where, fmt.Sprintf("%d goroutines", idle))
	}
	close(sctx.done)
	srv.Stop()
	cc.Close()
	close(c2s)
	within(hangTimeout, func() { <-served })
	close(s2c)
	settleGoroutines(0)
}

// c14CancelWithUndeliveredMessage: a server-streaming / bidi call whose caller has NOT taken the
// messages the server sent (the client stream holds one for it) when it cancels. The server is told
// (reset), its handler — which lives as long as its context — ends, and the server connection holds no
// registered stream for the call afterwards.
func c14CancelWithUndeliveredMessage(r *Run) {
	if !r.Want("undelivered") {
		return
	}
	for rep, reps := 0, r.Scale(4, 40); rep < reps && r.NumViolations() <= 4; rep++ {
		for _, method := range []string{mSrvStream, mBidi} {
			in := map[string]any{"method": method, "rep": rep, "caller": "has received headers, takes no message, cancels"}
			r.Progress("undelivered", in)
			rig := NewRig(RigOpt{Serialise: rep%2 == 0})
			hdone := make(chan struct{})
			rig.Impl.SetStream(func(m string, ss grpc.ServerStream) error {
				defer close(hdone)
				if m == mSrvStream {
					recvB(ss)
				}
				for i := 0; i < 3; i++ {
					if sendB(ss, srvMsg(i)) != nil {
						break
					}
				}
				<-ss.Context().Done()
				return ss.Context().Err()
			})
			ctx, cancel := context.WithCancel(context.Background())
			cs, err := rig.CC.NewStream(ctx, descOf(method), method)
			if err != nil {
				cancel()
				rig.Close()
				r.Violate("undelivered.open", "history", "stream could not be opened", in, err.Error(), nil)
				return
			}
			sendB(cs, []byte("req"))
			if method == mSrvStream {
				cs.CloseSend()
			}
			cs.Header() // the first response envelope has reached the client stream
			time.Sleep(3 * time.Millisecond)
			cancel()
			r.Eval(fmt.Sprintf("undelivered/%s/%d", method, rep), true)
			r.Count("c14.undelivered")
			ok := true
			select {
			case <-hdone:
			case <-time.After(c11ProbeDeadline):
				r.Violate("undelivered.handler", "history", "the caller cancelled (with a message it had not taken), but the server's handler is still running: the server holds the stream's registration, goroutine and context", in, goroutineDump(), "handler ended")
				ok = false
			}
			rig.Close()
			if !ok {
				return
			}
		}
	}
}
