package main

import (
	"context"
	"fmt"
	"sync/atomic"
	"time"

	goat "github.com/avos-io/goat"
)

// c14ExpiredUnary: unary calls whose deadline has ALREADY passed when they are made, over the
// library's channel transport (its Write picks at random between the finished context and a ready
// peer, so about half of the requests still leave). The caller is gone at once; the handler — a
// long-poll that waits for its context — must end too (the expired deadline is conveyed as one
// millisecond: nothing else tells a unary handler that its caller has left). Afterwards no handler
// is left running for these calls and the connection still serves.
func c14ExpiredUnary(r *Run) {
	if !r.Want("expiredunary") {
		return
	}
	for rep, reps := 0, r.Scale(2, 20); rep < reps && r.NumViolations() <= 4; rep++ {
		c2s, s2c := make(chan *Rpc, 256), make(chan *Rpc, 256)
		cliRW := goat.NewGoatOverChannel(s2c, c2s)
		srvRW := goat.NewGoatOverChannel(c2s, s2c)
		var running, started atomic.Int32
		impl := &Impl{}
		impl.SetUnary(func(ctx context.Context, req []byte) ([]byte, error) {
			if string(req) == "probe" {
				return req, nil
			}
			started.Add(1)
			running.Add(1)
			defer running.Add(-1)
			<-ctx.Done()
			return nil, ctx.Err()
		})
		srv := goat.NewServer("srv")
		srv.RegisterService(&echoDesc, impl)
		ctx, cancelAll := context.WithCancel(context.Background())
		served := make(chan error, 1)
		go func() { served <- srv.Serve(ctx, srvRW) }()
		cc := goat.NewClientConn(cliRW, "cli", "srv")
		const calls = 48
		in := map[string]any{"rep": rep, "calls": calls, "caller_deadline": "expired 5ms before the call", "handler": "waits for its context"}
		r.Progress("expiredunary", in)
		// which of the two the transport's Write picks is the scheduler's choice: keep calling until enough
		// requests have left (at most ten times as many calls)
		for i := 0; i < 10*calls && (i < calls || started.Load() < 16); i++ {
			cctx, cancel := context.WithDeadline(context.Background(), time.Now().Add(-5*time.Millisecond))
			callUnary(cctx, cc, []byte(fmt.Sprintf("late-%d", i)))
			cancel()
		}
		// every call has returned; a handler's context ends one millisecond after it was started
		deadline := time.Now().Add(hangTimeout)
		for running.Load() != 0 && time.Now().Before(deadline) {
			time.Sleep(time.Millisecond)
		}
		r.Eval(fmt.Sprintf("expiredunary/%d", rep), true)
		r.CountN("expiredunary.requests_that_reached_a_handler", int(started.Load()))
		bad := false
		if n := running.Load(); n != 0 {
			bad = true
			r.Violate("expiredunary.leak", "history", fmt.Sprintf("%d unary handler(s) are still running although every call has ended (their callers' deadlines had expired): the handler's context was given no deadline", n), in, goroutineDump(), "0 handlers running")
		}
		if !bad {
			pctx, pcancel := context.WithTimeout(context.Background(), hangTimeout)
			got, err := callUnary(pctx, cc, []byte("probe"))
			pcancel()
			if err != nil || string(got) != "probe" {
				r.Violate("expiredunary.stalled", "history", "the connection no longer serves unary calls", in, fmt.Sprint(err), nil)
			}
		}
		srv.Stop()
		cancelAll()
		cc.Close()
		within(hangTimeout, func() { <-served })
		if bad {
			return
		}
	}
}
