package main

import (
	"fmt"
	"math/rand"
	"sort"
	"strings"

	"github.com/avos-io/goat/gen/goatorepo"
)

// C17 — a proxy rejects spoofed sources, isolates bad peers and shuts down cleanly (I6).
//
// Scenarios (all on a real goat.NewProxy with scripted peers; every scenario is also written as
// a `pxseq` lock-step case for the Lean model)
//   spoof     envelopes whose source equals / differs from / lacks the sending connection's name:
//             never forwarded (decision event must be proxy.ignore), and a good envelope
//             afterwards is delivered (the proxy survived).
//   isolate   one bad peer (stuck writer, failing reader, failing writer, dial error, slow dial)
//             beside two live peers whose round trips must keep completing; a connection whose
//             read or write fails is removed and reported to the disconnect callback.
//   reattach  a peer re-attaches under its old name before / after the old connection fails (read
//             or write failure; the order is forced through the hook events): traffic for the
//             name reaches the new connection afterwards.
//   random    random mixes of forwarding, spoofing, re-attachment and failures.
// Every isolate / reattach scenario is run once completely and once per step with the proxy's
// context cancelled after that step: Serve must return and the census of goat goroutines must
// come back to its level before NewProxy.

func init() { register("C17", runC17) }

func runC17(r *Run) {
	c17EmptyName(r)
	c17OddShapes(r)
	if r.Want("spoof") {
		c17Spoof(r)
	}
	if r.Want("isolate") {
		c17Isolate(r)
	}
	if r.Want("reattach") {
		c17Reattach(r)
	}
	if r.Want("random") {
		c17Random(r)
	}
	c17HttpPeer(r)
	c17ChanPeerCloses(r)
	c17WsStuckTalker(r)
	c17ReattachFromCallback(r)
	// an unresponsive HTTP destination whose connection idles out while the proxy's write is stuck
	// (c19d.go): the sender's goroutine — the proxy's writeLoop — must not panic
	if r.Want("httppeer") && c17Leaks <= 2 {
		c19HttpStuckWriteTimesOut(r)
	}
}

// ---------------------------------------------------------------- failures of a connection

// c17Failed handles the report of a failed connection object: waits for `reports` calls of the
// disconnect callback, decides removed / stale from the events, and applies the property's
// demands: the failed connection is removed if it is the one registered under its name, and a
// newer connection under the same name is left alone.
func (w *pxWorld) c17Failed(idx int, item string, mark, prevDisc, reports int) bool {
	obj := w.objs[idx]
	name := obj.name
	w.items = append(w.items, fmt.Sprintf("%s%d", item, idx))
	if !w.waitCond(func() bool { return w.disc[name] >= prevDisc+reports }) {
		w.outs = append(w.outs, "nothing")
		w.fail("disconnect", "a connection whose read or write failed was not reported to the disconnect callback", map[string]any{"name": name, "reports": w.discCount(name) - prevDisc, "goroutines": goroutineDump()})
		return false
	}
	removed := false
	for _, e := range hooks.Events()[mark:] {
		if e.Site == "proxy.remove" && e.Detail == name {
			removed = true
		}
	}
	w.mu.Lock()
	w.discSeen[name] = w.disc[name]
	current := w.cur[name] == obj.tap
	if current {
		delete(w.cur, name)
	}
	w.mu.Unlock()
	if removed {
		w.outs = append(w.outs, "removed:"+hxs(name))
	} else {
		w.outs = append(w.outs, "stale:"+hxs(name))
	}
	switch {
	case current && !removed:
		w.fail("notremoved", "a connection whose read or write failed stayed in the routing table", name)
		return false
	case !current && removed:
		w.dead = true
		w.r.Violate(w.scen+".reattach", "schedule", "the failure of an old connection removed the newer connection attached under the same name", w.input(), w.output(), "stale:"+hxs(name))
		return false
	}
	if current {
		// whatever was queued for the dead connection is gone with it
		for s := range w.mon.want[name] {
			delete(w.mon.want[name], s)
		}
		w.infl[name] = 0
	}
	return true
}

func (w *pxWorld) discCount(name string) int {
	w.mu.Lock()
	defer w.mu.Unlock()
	return w.disc[name]
}

// failRead makes Read fail on heap object idx (X item).
func (w *pxWorld) failRead(idx int) bool {
	obj := w.objs[idx]
	mark := len(hooks.Events())
	prev := w.discCount(obj.name)
	if !w.quiet {
		w.r.Progress(w.scen, map[string]any{"pxseq": w.input(), "next": fmt.Sprintf("X%d", idx)})
	}
	obj.tap.FailRead(errInjectedRead)
	return w.c17Failed(idx, "X", mark, prev, 1)
}

// failWrite makes the pending or next Write of heap object idx fail (V item): the writer reports,
// then the reader (its Read ends with the connection's context) reports too. feed, when given,
// sends the envelope whose Write is to fail (otherwise the writer is already stuck in Write).
func (w *pxWorld) failWrite(idx int, feed func() bool) bool {
	obj := w.objs[idx]
	mark := len(hooks.Events())
	prev := w.discCount(obj.name)
	w.r.Progress(w.scen, map[string]any{"pxseq": w.input(), "next": fmt.Sprintf("V%d", idx)})
	obj.tap.FailWrite(errInjectedWrite)
	if feed != nil && !feed() {
		return false
	}
	return w.c17Failed(idx, "V", mark, prev, 2)
}

// fwd sends a well-formed envelope from → to and reads it at to (when to is connected and drained).
func (w *pxWorld) fwd(id uint64, from, to string) bool {
	site, dest, ok := w.send(from, pxGoodEnv(id, from, to))
	if !ok {
		return false
	}
	w.mu.Lock()
	stuck := w.stuck[dest]
	w.mu.Unlock()
	if site == "proxy.enqueue" && w.tapOf(dest) != nil && !stuck {
		return w.take(dest, "T")
	}
	return true
}

// ---------------------------------------------------------------- scripted scenarios with cancellation at each step

type c17Run struct {
	w       *pxWorld
	upto    int // cancel after this many steps; -1 = run everything
	k       int
	stopped bool
	id      uint64
}

func (s *c17Run) do(f func() bool) {
	if s.stopped || s.w.dead {
		s.stopped = true
		return
	}
	if s.upto >= 0 && s.k >= s.upto {
		s.stopped = true
		return
	}
	s.k++
	if !f() {
		s.stopped = true
	}
}

func (s *c17Run) fwd(from, to string) {
	s.do(func() bool { s.id++; return s.w.fwd(s.id, from, to) })
}

// trip: one round trip between two live peers; each leg must complete within hangTimeout.
func (s *c17Run) trip(a, b string) {
	s.fwd(a, b)
	s.fwd(b, a)
}

type c17Scenario struct {
	name  string
	ic    pxIcept
	setup func(w *pxWorld)
	body  func(s *c17Run)
}

func c17Once(r *Run, sc c17Scenario, upto int) int {
	hooks.Reset(true)
	defer hooks.Reset(false)
	base := c17Base()
	w := newPxWorld(r, sc.name, "px", sc.ic, true)
	sc.setup(w)
	w.start()
	w.partial = upto >= 0
	s := &c17Run{w: w, upto: upto}
	sc.body(s)
	in := map[string]any{"pxseq": w.input(), "cancel_after_step": upto}
	r.Progress(sc.name+".cancel", in)
	dead := w.dead
	w.finish(true)
	if n, where := settleGoroutines(base); n > base {
		c17Leaks++
		c17Floor = n
		r.Violate(sc.name+".leak", "schedule", "goroutines of the proxy were left behind after its context was cancelled", in, where, fmt.Sprintf("%d goat goroutines, as before NewProxy", base))
	}
	r.Eval(fmt.Sprintf("%s/cancel@%d", sc.name, upto), !dead)
	r.Count(sc.name)
	return s.k
}

// c17Leaks counts leak reports: each costs hangTimeout, so the families stop after a few.
var c17Leaks int

// c17Floor is the last stable census of goat goroutines. c17Base waits for stragglers of the
// previous scenario (its connection goroutines may still be returning) so that they do not
// inflate the next baseline; after a reported leak the floor moves up and nothing waits again.
var c17Floor int

func c17Base() int {
	n, _ := settleGoroutines(c17Floor)
	c17Floor = n
	return n
}

func c17RunAll(r *Run, scs []c17Scenario) {
	for _, sc := range scs {
		if r.NumViolations() > 4 || c17Leaks > 2 {
			return
		}
		total := c17Once(r, sc, -1)
		for k := 0; k < total && r.NumViolations() <= 4 && c17Leaks <= 2; k++ {
			c17Once(r, sc, k)
		}
	}
}

// ---------------------------------------------------------------- isolate

func c17Isolate(r *Run) {
	live := func(w *pxWorld) { w.attach("a", false); w.attach("b", false) }
	var scs []c17Scenario
	for _, overflow := range []bool{false, true} {
		overflow := overflow
		scs = append(scs, c17Scenario{
			name: "isolate.stuck", ic: pxIcept{Kind: "none"},
			setup: func(w *pxWorld) { live(w); w.stuck["x"] = true; w.attach("x", false) },
			body: func(s *c17Run) {
				s.trip("a", "b")
				s.fwd("a", "x")
				s.do(func() bool { return s.w.hold("x", 1) })
				s.trip("a", "b")
				s.fwd("b", "x")
				s.trip("b", "a")
				if overflow {
					for k := 0; k < 15; k++ {
						s.fwd("a", "x")
						if k%5 == 0 {
							s.trip("a", "b")
						}
					}
					s.fwd("a", "x") // 17 outstanding: dropped (C16's known finding), not a stall
					s.fwd("b", "x")
					s.trip("a", "b")
				}
				s.do(func() bool {
					s.id++
					_, _, ok := s.w.send("x", pxGoodEnv(s.id, "x", "a"))
					return ok && s.w.take("a", "T")
				})
			},
		})
	}
	scs = append(scs,
		c17Scenario{
			name: "isolate.failread", ic: pxIcept{Kind: "none"},
			setup: func(w *pxWorld) { live(w); w.attach("x", false) },
			body: func(s *c17Run) {
				s.trip("a", "x")
				s.trip("a", "b")
				s.do(func() bool { return s.w.failRead(2) })
				s.trip("a", "b")
				s.fwd("a", "x") // gone: dialled, the dial fails, reported again
				s.trip("b", "a")
			},
		},
		c17Scenario{
			name: "isolate.failwrite", ic: pxIcept{Kind: "none"},
			setup: func(w *pxWorld) { live(w); w.attach("x", false) },
			body: func(s *c17Run) {
				s.trip("a", "x")
				s.trip("a", "b")
				s.do(func() bool {
					return s.w.failWrite(2, func() bool {
						s.id++
						_, _, ok := s.w.send("a", pxGoodEnv(s.id, "a", "x"))
						return ok
					})
				})
				s.trip("a", "b")
				s.fwd("a", "x") // gone: dialled, the dial fails, reported again
				s.trip("b", "a")
			},
		},
		c17DialledFails("isolate.dialled.failread"),
		c17Scenario{
			name: "isolate.dialerr", ic: pxIcept{Kind: "none"},
			setup: live,
			body: func(s *c17Run) {
				s.trip("a", "b")
				s.fwd("a", "u1")
				s.trip("a", "b")
				s.fwd("b", "u1")
				s.fwd("a", "u2")
				s.trip("b", "a")
			},
		},
		c17Scenario{
			name: "isolate.slowdial", ic: pxIcept{Kind: "none"},
			setup: func(w *pxWorld) {
				live(w)
				w.dialable["s9"] = true
				w.slow["s9"] = make(chan error, 1)
			},
			body: func(s *c17Run) {
				w := s.w
				mark := 0
				s.trip("a", "b")
				s.do(func() bool { mark = len(hooks.Events()); s.id++; return w.fwd(s.id, "a", "s9") })
				s.do(func() bool {
					// the dial is in progress: newConnection has been entered and is held
					return w.waitCond(func() bool {
						for _, c := range w.dialCalls {
							if c == "s9" {
								return true
							}
						}
						return false
					})
				})
				s.trip("a", "b")
				s.fwd("b", "s9")
				s.trip("b", "a")
				s.do(func() bool {
					w.slow["s9"] <- nil
					return w.dialFinish("s9", true, mark)
				})
				s.do(func() bool { return w.take("s9", "T") })
				s.do(func() bool { return w.take("s9", "T") })
				s.trip("s9", "a")
			},
		},
	)
	c17RunAll(r, scs)
}

// c17DialledFails: a peer the proxy dialled on demand; when ITS connection fails it is removed like any
// other, and the next envelope for the name dials again and is delivered on the new connection.
func c17DialledFails(name string) c17Scenario {
	return c17Scenario{
		name: name, ic: pxIcept{Kind: "none"},
		setup: func(w *pxWorld) { w.attach("a", false); w.attach("b", false); w.dialable["d1"] = true },
		body: func(s *c17Run) {
			s.trip("a", "b")
			s.fwd("a", "d1") // dialled: heap object 2
			s.trip("d1", "a")
			s.do(func() bool { return s.w.failRead(2) })
			s.trip("a", "b")
			s.fwd("a", "d1") // dialled again: heap object 3
			s.trip("d1", "b")
		},
	}
}

// ---------------------------------------------------------------- reattach

func c17Reattach(r *Run) {
	var scs []c17Scenario
	for _, order := range []string{"before", "after"} {
		for _, how := range []string{"read", "write"} {
			order, how := order, how
			scs = append(scs, c17Scenario{
				name: "reattach." + order + "." + how, ic: pxIcept{Kind: "none"},
				setup: func(w *pxWorld) {
					w.attach("a", false)
					if how == "write" {
						w.stuck["x"] = true // the old connection's writer will be stuck in Write
					}
					w.attach("x", false) // heap object 1: the old connection
				},
				body: func(s *c17Run) {
					w := s.w
					failOld := func() bool {
						if how == "read" {
							return w.failRead(1)
						}
						return w.failWrite(1, nil)
					}
					reattach := func() bool {
						w.mu.Lock()
						w.stuck["x"] = false
						w.mu.Unlock()
						w.attach("x", true) // heap object 2
						return true
					}
					if how == "read" {
						s.trip("a", "x")
					} else {
						s.fwd("a", "x")
						s.do(func() bool { return w.hold("x", 1) })
					}
					if order == "before" {
						s.do(reattach)
						s.trip("a", "x") // reaches the new connection; the new connection can send
						s.do(failOld)    // must be stale: forced after the re-attachment
					} else {
						s.do(failOld) // removed (proxy.remove has been logged)
						s.do(reattach)
					}
					s.trip("a", "x")
					s.trip("x", "a")
				},
			})
		}
	}
	// a peer attaches itself under a name for which a (slow) outgoing dial is still in progress; the dial
	// then fails: the report of the failed dial concerns the dial's own connection object, not the
	// connection that was attached meanwhile.
	scs = append(scs, c17Scenario{
		name: "reattach.before.dialerr", ic: pxIcept{Kind: "none"},
		setup: func(w *pxWorld) {
			w.attach("a", false)
			w.slow["s9"] = make(chan error, 1)
		},
		body: func(s *c17Run) {
			w := s.w
			dialIdx := -1
			s.do(func() bool { s.id++; ok := w.fwd(s.id, "a", "s9"); dialIdx = len(w.objs) - 1; return ok })
			s.do(func() bool {
				return w.waitCond(func() bool {
					for _, c := range w.dialCalls {
						if c == "s9" {
							return true
						}
					}
					return false
				})
			})
			s.do(func() bool {
				// what was queued for the dial's object goes down with it
				w.lost["s9"] += w.infl["s9"]
				delete(w.mon.want, "s9")
				w.infl["s9"] = 0
				w.attach("s9", true)
				return true
			})
			s.trip("a", "s9")
			s.do(func() bool { return w.dialFailedAt(dialIdx, "s9") })
			s.trip("a", "s9")
			s.trip("s9", "a")
		},
	})
	c17RunAll(r, scs)
}

// dialFailedAt lets the held dial of heap object idx fail (D item) and applies the property's demand:
// the connection attached under the same name meanwhile stays.
func (w *pxWorld) dialFailedAt(idx int, name string) bool {
	mark := len(hooks.Events())
	w.r.Progress(w.scen, map[string]any{"pxseq": w.input(), "next": fmt.Sprintf("D%d:err", idx)})
	w.items = append(w.items, fmt.Sprintf("D%d:err", idx))
	w.slow[name] <- errPxUnknown
	var ev Event
	if !hooks.WaitFor(func(e Event) bool {
		if e.Seq >= mark && (e.Site == "proxy.remove" || e.Site == "proxy.remove.stale") && e.Detail == name {
			ev = e
			return true
		}
		return false
	}, hangTimeout) {
		w.outs = append(w.outs, "nothing")
		w.fail("dialerr", "a failed dial was never reported to the forwarding loop", name)
		return false
	}
	removed := ev.Site == "proxy.remove"
	if !removed {
		// on a tree that always deletes, the stale event is followed by a remove event: wait for the
		// disconnect callback (called after the table has been updated) and look again
		w.waitCond(func() bool { return w.disc[name] > w.discSeen[name] })
		for _, e := range hooks.Events()[mark:] {
			if e.Site == "proxy.remove" && e.Detail == name {
				removed = true
			}
		}
	}
	w.mu.Lock()
	w.discSeen[name] = w.disc[name]
	w.mu.Unlock()
	if removed {
		w.outs = append(w.outs, "removed:"+hxs(name))
		w.dead = true
		w.r.Violate(w.scen+".reattach", "schedule", "the failure of an outgoing dial removed the connection that had meanwhile been attached under the same name", w.input(), w.output(), "stale:"+hxs(name))
		return false
	}
	w.outs = append(w.outs, "stale:"+hxs(name))
	return true
}

// ---------------------------------------------------------------- spoof

func c17BadEnvs(id *uint64, sender string, others []string, dst string) []*Rpc {
	mk := func(src string) *Rpc {
		*id++
		e := pxGoodEnv(*id, src, dst)
		return e
	}
	var l []*Rpc
	for _, o := range others {
		l = append(l, mk(o))
	}
	l = append(l, mk(""), mk("px"), mk("zz"), mk(strings.ToUpper(sender)), mk(sender+" "))
	*id++
	l = append(l, &Rpc{Id: *id, Body: &goatorepo.Body{Data: []byte("no header")}})
	*id++
	l = append(l, &Rpc{Id: *id})
	*id++
	l = append(l, &Rpc{Id: *id, Status: &goatorepo.ResponseStatus{Code: 3}, Trailer: &goatorepo.Trailer{}, Reset_: &goatorepo.Reset{Type: "RST_STREAM"}})
	// a spoofed source together with a return route to a real peer
	*id++
	l = append(l, &Rpc{Id: *id, Header: &goatorepo.RequestHeader{Source: others[0], Destination: dst, ProxyNext: []string{dst}}})
	return l
}

func c17Spoof(r *Run) {
	rng := r.Rand("c17.spoof")
	ics := []pxIcept{{Kind: "none", Nil: true}, {Kind: "none"}, {Kind: "rw", A: "svc", B: "b"}, {Kind: "rf", A: "c"}}
	for _, ic := range ics {
		if r.NumViolations() > 4 {
			return
		}
		hooks.Reset(true)
		w := newPxWorld(r, "spoof", "px", ic, true)
		for _, n := range []string{"a", "b", "c"} {
			w.attach(n, false)
		}
		w.dialable["s1"] = true
		w.start()
		id := uint64(0)
		ok := true
		for _, sender := range []string{"a", "b"} {
			others := []string{"b", "c", "s1"}
			if sender == "b" {
				others = []string{"a", "c", "s1"}
			}
			for _, dst := range []string{"a", "b", "s1", "svc"} {
				for _, e := range c17BadEnvs(&id, sender, others, dst) {
					site, _, sok := w.send(sender, e)
					if !sok {
						ok = false
						break
					}
					if site != "proxy.ignore" {
						w.fail("forwarded", "an envelope with a missing header or a source that is not the sending connection's name was not ignored", site)
						ok = false
						break
					}
					r.Count("spoof.bad")
					// the proxy survived and still forwards
					if rng.Intn(3) == 0 {
						id++
						if !w.fwd(id, sender, "a") {
							ok = false
							break
						}
					}
				}
				if !ok {
					break
				}
				id++
				if !w.fwd(id, sender, "a") {
					ok = false
					break
				}
			}
			if !ok {
				break
			}
		}
		r.Eval("spoof/"+ic.text(), ok)
		w.finish(true)
		hooks.Reset(false)
	}
}

// ---------------------------------------------------------------- random mixes

func c17Random(r *Run) {
	rng := r.Rand("c17.random")
	n := r.Scale(120, 4000)
	for i := 0; i < n && r.NumViolations() <= 4 && c17Leaks <= 2; i++ {
		c17RandomOne(r, i, rng, 6+rng.Intn(r.Scale(24, 50)))
	}
}

func c17RandomOne(r *Run, idx int, rng *rand.Rand, length int) {
	hooks.Reset(true)
	defer hooks.Reset(false)
	base := c17Base()
	names := []string{"a", "b", "c", "d"}[:2+rng.Intn(3)]
	r.Progress("random", map[string]any{"index": idx, "seed": r.Seed, "names": names, "length": length, "replay": "-only random with the same seed and tier regenerates scenario number index"})
	w := newPxWorld(r, "random", "px", pxIcept{Kind: "none", Nil: rng.Intn(2) == 0}, true)
	w.quiet = true
	for _, n := range names {
		w.attach(n, false)
	}
	w.start()
	failed := map[int]bool{}
	connected := func() []string {
		w.mu.Lock()
		defer w.mu.Unlock()
		l := make([]string, 0, len(w.cur))
		for k := range w.cur {
			l = append(l, k)
		}
		sort.Strings(l)
		return l
	}
	id := uint64(0)
	ok := true
	for k := 0; k < length && ok; k++ {
		conn := connected()
		if len(conn) == 0 {
			w.attach(pick(rng, names), true)
			continue
		}
		switch x := rng.Intn(100); {
		case x < 45:
			id++
			ok = w.fwd(id, pick(rng, conn), pick(rng, names))
			r.Count("random.fwd")
		case x < 60:
			id++
			sender := pick(rng, conn)
			e := pxGoodEnv(id, pick(rng, append([]string{"", "px", "zz"}, names...)), pick(rng, names))
			if rng.Intn(4) == 0 {
				e.Header = nil
			}
			site, dest, sok := w.send(sender, e)
			ok = sok
			if ok && site == "proxy.enqueue" && w.tapOf(dest) != nil {
				ok = w.take(dest, "T")
			}
			r.Count("random.maybe_spoofed")
		case x < 78:
			w.attach(pick(rng, names), true)
			r.Count("random.reattach")
		default:
			var alive []int
			for i, o := range w.objs {
				if !failed[i] && o.tap != nil {
					alive = append(alive, i)
				}
			}
			if len(alive) == 0 {
				continue
			}
			i := alive[rng.Intn(len(alive))]
			failed[i] = true
			w.mu.Lock()
			current := w.cur[w.objs[i].name] == w.objs[i].tap
			w.mu.Unlock()
			ok = w.failRead(i)
			if current {
				r.Count("random.fail.current")
			} else {
				r.Count("random.fail.replaced")
			}
		}
	}
	in := map[string]any{"pxseq": w.input()}
	r.Eval("random/"+w.input(), ok)
	w.finish(true)
	if n, where := settleGoroutines(base); n > base {
		c17Leaks++
		c17Floor = n
		r.Violate("random.leak", "schedule", "goroutines of the proxy were left behind after its context was cancelled", in, where, fmt.Sprintf("%d goat goroutines, as before NewProxy", base))
	}
}
