package main

import (
	"bufio"
	"encoding/hex"
	"encoding/json"
	"fmt"
	"math/rand"
	"os"
	"path/filepath"
	"runtime"
	"sort"
	"strings"
	"sync"
	"time"
)

// Run is the state of one invocation of the harness for one property.
type Run struct {
	Prop   string
	Tier   string
	Seed   int64
	OutDir string
	Only   string // restrict to one scenario (replay)

	rng *rand.Rand

	mu         sync.Mutex
	held       *[]Violation // non-nil while a scenario's first attempt is held back (Hold / Release)
	casesF     *os.File
	cases      *bufio.Writer
	nCases     int
	evals      int
	distinct   map[string]struct{}
	samples    []any
	dist       map[string]int
	violations []Violation
	known      []string
	progressF  *os.File
	traces     int
	quiet      bool // C15: the scenarios of other properties run for their memory accesses only
}

// Violation is one observed failure of the property's executable monitor.
type Violation struct {
	Scenario string `json:"scenario"`
	Kind     string `json:"kind"` // ops | schedule | history | race
	Detail   string `json:"detail"`
	Input    any    `json:"input,omitempty"`
	Observed any    `json:"observed,omitempty"`
	Expected any    `json:"expected,omitempty"`
	Replay   string `json:"replay"`
}

func NewRun(prop, tier string, seed int64, out, only string) (*Run, error) {
	if err := os.MkdirAll(out, 0o755); err != nil {
		return nil, err
	}
	f, err := os.Create(filepath.Join(out, "cases.txt"))
	if err != nil {
		return nil, err
	}
	pf, err := os.Create(filepath.Join(out, "progress.txt"))
	if err != nil {
		return nil, err
	}
	return &Run{
		Prop: prop, Tier: tier, Seed: seed, OutDir: out, Only: only,
		rng:       rand.New(rand.NewSource(seed)),
		casesF:    f,
		cases:     bufio.NewWriterSize(f, 1<<20),
		distinct:  map[string]struct{}{},
		dist:      map[string]int{},
		progressF: pf,
	}, nil
}

func (r *Run) Thorough() bool { return r.Tier == "thorough" }

// Scale picks a size by tier.
func (r *Run) Scale(quick, thorough int) int {
	if r.Thorough() {
		// the C15 runner repeats every other property's workload under the race detector (5-15x slower) on
		// several thread counts: there the thorough size is capped at 4x the quick size
		if scaleCapped && thorough > 4*quick {
			return 4 * quick
		}
		return thorough
	}
	return quick
}

// scaleCapped is set by the C15 runner.
var scaleCapped bool

// Rand returns a generator derived from the run seed and a label, so that
// scenarios are independent of each other's consumption.
func (r *Run) Rand(label string) *rand.Rand {
	var h int64 = r.Seed
	for _, c := range label {
		h = h*1000003 + int64(c)
	}
	return rand.New(rand.NewSource(h))
}

// Progress records the scenario about to run, flushed at once, so that a crash
// of the process can be attributed.
func (r *Run) Progress(scenario string, input any) {
	r.mu.Lock()
	defer r.mu.Unlock()
	b, _ := json.Marshal(map[string]any{"scenario": scenario, "input": input})
	r.progressF.Truncate(0)
	r.progressF.Seek(0, 0)
	r.progressF.Write(b)
	r.progressF.Sync()
}

// Want reports whether the scenario should run (replay filter).
func (r *Run) Want(scenario string) bool {
	return r.Only == "" || r.Only == scenario || strings.HasPrefix(scenario, r.Only)
}

// Case writes one lock-step case for the Lean driver: op, input, the
// implementation's canonical output.
func (r *Run) Case(op, input, out string) {
	r.mu.Lock()
	defer r.mu.Unlock()
	if r.quiet {
		r.evals++
		return
	}
	fmt.Fprintf(r.cases, "%s\t%s\t%s\n", op, input, out)
	r.nCases++
	r.evals++
	key := op + "\t" + input
	r.distinct[key] = struct{}{}
	if len(r.samples) < 6 || (r.nCases%997 == 0 && len(r.samples) < 12) {
		r.samples = append(r.samples, map[string]string{"op": op, "input": clip(input, 200), "impl": clip(out, 200)})
	}
}

// Raw writes a raw line (trace blocks) to the case file.
func (r *Run) Raw(line string) {
	r.mu.Lock()
	defer r.mu.Unlock()
	fmt.Fprintln(r.cases, line)
}

func clip(s string, n int) string {
	if len(s) > n {
		return s[:n] + "..."
	}
	return s
}

// Eval counts one executed scenario instance; key identifies it for the
// distinct count; nontrivial says whether it counts as non-trivial.
func (r *Run) Eval(key string, nontrivial bool) {
	r.mu.Lock()
	defer r.mu.Unlock()
	r.evals++
	if nontrivial {
		r.distinct[key] = struct{}{}
	}
}

func (r *Run) Sample(v any) {
	r.mu.Lock()
	defer r.mu.Unlock()
	if len(r.samples) < 14 {
		r.samples = append(r.samples, v)
	}
}

func (r *Run) Count(k string) { r.CountN(k, 1) }
func (r *Run) CountN(k string, n int) {
	r.mu.Lock()
	defer r.mu.Unlock()
	r.dist[k] += n
}

func (r *Run) Trace() {
	r.mu.Lock()
	defer r.mu.Unlock()
	r.traces++
}

// Known reports a reproduced known finding (see /verif/known_findings.txt).
func (r *Run) KnownFinding(id, what string) {
	r.mu.Lock()
	defer r.mu.Unlock()
	if r.quiet {
		return
	}
	r.known = append(r.known, id+" "+what)
}

// Violate records a violation and writes its replay file.
func (r *Run) Violate(scenario, kind, detail string, input, observed, expected any) {
	r.mu.Lock()
	defer r.mu.Unlock()
	if r.quiet {
		r.dist["monitor-violations-ignored(see the property's own check)"]++
		return
	}
	if r.held != nil {
		// a first attempt of a scenario that is confirmed by a second run before it counts (Hold / Release)
		*r.held = append(*r.held, Violation{Scenario: scenario, Kind: kind, Detail: detail, Input: input, Observed: observed, Expected: expected})
		return
	}
	if len(r.violations) >= 20 {
		return
	}
	name := fmt.Sprintf("replay_%s_%d.json", r.Prop, len(r.violations))
	path := filepath.Join(r.OutDir, name)
	v := Violation{Scenario: scenario, Kind: kind, Detail: detail, Input: input, Observed: observed, Expected: expected, Replay: path}
	b, _ := json.MarshalIndent(map[string]any{
		"property": r.Prop, "kind": kind, "seed": r.Seed, "tier": r.Tier,
		"scenario": scenario, "detail": detail, "input": input, "observed": observed, "expected": expected,
	}, "", " ")
	os.WriteFile(path, b, 0o644)
	r.violations = append(r.violations, v)
}

// Hold makes Violate collect into a side list instead of reporting; Release ends that and returns what
// was collected. Used by scenarios over real network transports whose first failure is confirmed by a
// second, fresh run before it is reported (a genuine defect fails again; a one-in-a-hundred hiccup of
// the loopback stack does not).
func (r *Run) Hold() {
	r.mu.Lock()
	r.held = &[]Violation{}
	r.mu.Unlock()
}

func (r *Run) Release() []Violation {
	r.mu.Lock()
	defer r.mu.Unlock()
	var out []Violation
	if r.held != nil {
		out = *r.held
	}
	r.held = nil
	return out
}

func (r *Run) NumViolations() int {
	r.mu.Lock()
	defer r.mu.Unlock()
	return len(r.violations)
}

// Finish writes result.json.
func (r *Run) Finish(wall time.Duration) error {
	r.mu.Lock()
	defer r.mu.Unlock()
	r.cases.Flush()
	r.casesF.Close()
	r.progressF.Truncate(0)
	r.progressF.Close()
	keys := make([]string, 0, len(r.dist))
	for k := range r.dist {
		keys = append(keys, k)
	}
	sort.Strings(keys)
	dist := map[string]int{}
	for _, k := range keys {
		dist[k] = r.dist[k]
	}
	res := map[string]any{
		"property":            r.Prop,
		"tier":                r.Tier,
		"seed":                r.Seed,
		"evaluations":         r.evals,
		"distinct_nontrivial": len(r.distinct),
		"lockstep_cases":      r.nCases,
		"traces":              r.traces,
		"samples":             r.samples,
		"distribution":        dist,
		"violations":          r.violations,
		"known":               r.known,
		"wall_s":              wall.Seconds(),
		"gomaxprocs":          runtime.GOMAXPROCS(0),
	}
	b, err := json.MarshalIndent(res, "", " ")
	if err != nil {
		return err
	}
	return os.WriteFile(filepath.Join(r.OutDir, "result.json"), b, 0o644)
}

// ---- text encoding shared with the Lean driver (Goat/Drv/Codec.lean) ----

func hx(b []byte) string {
	if len(b) == 0 {
		return "-"
	}
	return hex.EncodeToString(b)
}

func hxs(s string) string { return hx([]byte(s)) }

func hxList(l []string) string {
	if len(l) == 0 {
		return "_"
	}
	p := make([]string, len(l))
	for i, s := range l {
		p[i] = hxs(s)
	}
	return strings.Join(p, ",")
}

// mdCanon renders a map in the driver's canonical form: keys sorted, values in order.
func mdCanon(md map[string][]string) string {
	keys := make([]string, 0, len(md))
	for k := range md {
		if len(md[k]) == 0 {
			continue
		}
		keys = append(keys, k)
	}
	if len(keys) == 0 {
		return "_"
	}
	sort.Strings(keys)
	p := make([]string, len(keys))
	for i, k := range keys {
		p[i] = hxs(k) + "=" + hxList(md[k])
	}
	return strings.Join(p, ";")
}

// within runs f and reports whether it returned within d.
func within(d time.Duration, f func()) bool {
	done := make(chan struct{})
	go func() {
		defer close(done)
		f()
	}()
	select {
	case <-done:
		return true
	case <-time.After(d):
		return false
	}
}

// hangTimeout is how long "no progress" must last before it is called a hang.
// Nothing on a correct tree ever waits this long, so it costs nothing there.
var hangTimeout = 10 * time.Second

func goroutineDump() string {
	buf := make([]byte, 1<<20)
	n := runtime.Stack(buf, true)
	return string(buf[:n])
}

// goatGoroutines counts goroutines with a frame in the goat library (not the harness).
func goatGoroutines() (int, []string) {
	dump := goroutineDump()
	n := 0
	var where []string
	for _, g := range strings.Split(dump, "\n\n") {
		if strings.Contains(g, "github.com/avos-io/goat") {
			n++
			lines := strings.Split(g, "\n")
			for _, l := range lines {
				if strings.HasPrefix(l, "github.com/avos-io/goat") {
					where = append(where, l)
					break
				}
			}
		}
	}
	sort.Strings(where)
	return n, where
}

// settleGoroutines waits until the number of goat goroutines is at most want
// (polling; bounded by hangTimeout) and returns the final census.
// settleFast: set by the C15 runner, where workloads of several properties share one process and the
// census of one is not meaningful for the next.
var settleFast bool

func settleGoroutines(want int) (int, []string) {
	if settleFast {
		return goatGoroutines()
	}
	deadline := time.Now().Add(hangTimeout)
	for {
		n, w := goatGoroutines()
		if n <= want || time.Now().After(deadline) {
			return n, w
		}
		time.Sleep(2 * time.Millisecond)
	}
}
