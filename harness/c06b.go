package main

import (
	"context"
	"fmt"
	"sync"
	"time"

	goat "github.com/avos-io/goat"
	"google.golang.org/grpc"
	"google.golang.org/grpc/stats"
)

// c06CancelInsideCloseSend: the caller's context ends while CloseSend is between its "stream not done"
// check and its write (forced through a client stats handler: OutTrailer is reported exactly there;
// the handler cancels the context and waits until the stream's reset is on the wire). Whatever
// CloseSend then does, the reset stays the client's final envelope on that id: the c2s projection of the
// wire is decided by the protocol automaton.
type c06CancelAtTrailer struct {
	mu     sync.Mutex
	cancel context.CancelFunc
	wire   *Wire
	id     func() uint64
}

func (h *c06CancelAtTrailer) TagRPC(ctx context.Context, _ *stats.RPCTagInfo) context.Context {
	return ctx
}
func (h *c06CancelAtTrailer) HandleRPC(_ context.Context, s stats.RPCStats) {
	if _, ok := s.(*stats.OutTrailer); !ok {
		return
	}
	h.mu.Lock()
	c := h.cancel
	h.cancel = nil
	h.mu.Unlock()
	if c == nil {
		return
	}
	c()
	// wait (bounded) until the reset has been written
	deadline := time.Now().Add(hangTimeout / 4)
	for time.Now().Before(deadline) {
		for _, e := range h.wire.Snapshot() {
			if e.Dir == "c2s" && e.Rpc.Reset_ != nil {
				return
			}
		}
		time.Sleep(200 * time.Microsecond)
	}
}
func (h *c06CancelAtTrailer) TagConn(ctx context.Context, _ *stats.ConnTagInfo) context.Context {
	return ctx
}
func (h *c06CancelAtTrailer) HandleConn(context.Context, stats.ConnStats) {}

func c06CancelInsideCloseSend(r *Run) {
	if !r.Want("closesendcancel") {
		return
	}
	for rep, reps := 0, r.Scale(6, 60); rep < reps && r.NumViolations() <= 4; rep++ {
		method := []string{mBidi, mCliStream}[rep%2]
		in := map[string]any{"method": method, "rep": rep, "schedule": "cancel inside CloseSend, between its done-check and its write; CloseSend resumes once the reset is on the wire"}
		r.Progress("closesendcancel", in)
		h := &c06CancelAtTrailer{}
		rig := NewRig(RigOpt{Serialise: rep%4 < 2, DialOpts: []goat.DialOption{goat.WithStatsHandler(h)}})
		h.wire = rig.Wire
		rig.Impl.SetUnary(func(ctx context.Context, req []byte) ([]byte, error) { return req, nil })
		rig.Impl.SetStream(func(m string, ss grpc.ServerStream) error {
			<-ss.Context().Done()
			return ss.Context().Err()
		})
		ctx, cancel := context.WithCancel(context.Background())
		cs, err := rig.CC.NewStream(ctx, descOf(method), method)
		if err != nil {
			r.Violate("closesendcancel.open", "schedule", "stream could not be opened", in, err.Error(), nil)
			cancel()
			rig.Close()
			return
		}
		sendB(cs, []byte("m"))
		h.mu.Lock()
		h.cancel = cancel
		h.mu.Unlock()
		if !within(hangTimeout, func() { cs.CloseSend() }) {
			r.Violate("closesendcancel.hang", "schedule", "CloseSend did not return", in, goroutineDump(), nil)
		}
		within(hangTimeout, func() {
			for {
				if _, err := recvB(cs); err != nil {
					return
				}
			}
		})
		cancel()
		rig.Close()
		checkWire(r, "closesendcancel.wire", rig.Wire.Snapshot(), in)
		r.Eval(fmt.Sprintf("closesendcancel/%s/%d", method, rep), true)
		r.Count("c06.closesendcancel")
	}
}
