package main

import (
	"context"
	"fmt"
	"io"
	"strings"
	"sync"
	"time"

	goat "github.com/avos-io/goat"
	"github.com/avos-io/goat/gen/goatorepo"
	"google.golang.org/grpc"
	"google.golang.org/grpc/metadata"
	"google.golang.org/grpc/stats"
	"google.golang.org/protobuf/types/known/wrapperspb"
)

// c06CancelInsideCloseSend: the caller's context ends while CloseSend is between its "stream not done"
// check and its write (forced through a client stats handler: OutTrailer is reported exactly there;
// the handler cancels the context and waits until the stream's reset is on the wire). Whatever
// CloseSend then does, the reset stays the client's final envelope on that id: the c2s projection of the
// wire is decided by the protocol automaton.
type c06CancelAtTrailer struct {
	mu     sync.Mutex
	cancel context.CancelFunc
	wire   *Wire
	id     func() uint64
}

func (h *c06CancelAtTrailer) TagRPC(ctx context.Context, _ *stats.RPCTagInfo) context.Context {
	return ctx
}
func (h *c06CancelAtTrailer) HandleRPC(_ context.Context, s stats.RPCStats) {
	if _, ok := s.(*stats.OutTrailer); !ok {
		return
	}
	h.mu.Lock()
	c := h.cancel
	h.cancel = nil
	h.mu.Unlock()
	if c == nil {
		return
	}
	c()
	// wait (bounded) until the reset has been written
	deadline := time.Now().Add(hangTimeout / 4)
	for time.Now().Before(deadline) {
		for _, e := range h.wire.Snapshot() {
			if e.Dir == "c2s" && e.Rpc.Reset_ != nil {
				return
			}
		}
		time.Sleep(200 * time.Microsecond)
	}
}
func (h *c06CancelAtTrailer) TagConn(ctx context.Context, _ *stats.ConnTagInfo) context.Context {
	return ctx
}
func (h *c06CancelAtTrailer) HandleConn(context.Context, stats.ConnStats) {}

func c06CancelInsideCloseSend(r *Run) {
	if !r.Want("closesendcancel") {
		return
	}
	for rep, reps := 0, r.Scale(6, 60); rep < reps && r.NumViolations() <= 4; rep++ {
		method := []string{mBidi, mCliStream}[rep%2]
		in := map[string]any{"method": method, "rep": rep, "schedule": "cancel inside CloseSend, between its done-check and its write; CloseSend resumes once the reset is on the wire"}
		r.Progress("closesendcancel", in)
		h := &c06CancelAtTrailer{}
		rig := NewRig(RigOpt{Serialise: rep%4 < 2, DialOpts: []goat.DialOption{goat.WithStatsHandler(h)}})
		h.wire = rig.Wire
		rig.Impl.SetUnary(func(ctx context.Context, req []byte) ([]byte, error) { return req, nil })
		rig.Impl.SetStream(func(m string, ss grpc.ServerStream) error {
			<-ss.Context().Done()
			return ss.Context().Err()
		})
		ctx, cancel := context.WithCancel(context.Background())
		cs, err := rig.CC.NewStream(ctx, descOf(method), method)
		if err != nil {
			r.Violate("closesendcancel.open", "schedule", "stream could not be opened", in, err.Error(), nil)
			cancel()
			rig.Close()
			return
		}
		sendB(cs, []byte("m"))
		h.mu.Lock()
		h.cancel = cancel
		h.mu.Unlock()
		if !within(hangTimeout, func() { cs.CloseSend() }) {
			r.Violate("closesendcancel.hang", "schedule", "CloseSend did not return", in, goroutineDump(), nil)
		}
		within(hangTimeout, func() {
			for {
				if _, err := recvB(cs); err != nil {
					return
				}
			}
		})
		cancel()
		rig.Close()
		checkWire(r, "closesendcancel.wire", rig.Wire.Snapshot(), in)
		r.Eval(fmt.Sprintf("closesendcancel/%s/%d", method, rep), true)
		r.Count("c06.closesendcancel")
	}
}

// c06ConcurrentHeaderAndSend: a bidi handler with a producer goroutine: one goroutine calls SendHeader
// while another calls SendMsg (the API allows it: one sender for messages, headers from the handler),
// at a moment when the connection's writer is busy with another call's response that the peer is slow
// to take. However the two interleave, the stream's response metadata appears on exactly one envelope,
// the first one, and the shape of the stream's envelopes is accepted by the protocol automaton.
func c06ConcurrentHeaderAndSend(r *Run) {
	if !r.Want("hdrsend") {
		return
	}
	for rep, reps := 0, r.Scale(4, 40); rep < reps && r.NumViolations() <= 4; rep++ {
		in := map[string]any{"rep": rep, "handler": "SendHeader on one goroutine, SendMsg on another", "writer": "busy: the peer is slow to take an earlier unary response"}
		r.Progress("hdrsend", in)
		sc := NewScript(0) // unbuffered Out: the server's writer blocks until the peer reads
		impl := &Impl{}
		impl.SetUnary(func(ctx context.Context, req []byte) ([]byte, error) { return req, nil })
		impl.SetStream(func(m string, ss grpc.ServerStream) error {
			done := make(chan struct{})
			go func() {
				defer close(done)
				time.Sleep(time.Duration(rep%4) * 500 * time.Microsecond)
				sendB(ss, []byte("produced"))
			}()
			ss.SendHeader(metadata.Pairs("k", "v"))
			<-done
			return nil
		})
		srv := goat.NewServer("srv")
		srv.RegisterService(&echoDesc, impl)
		served := make(chan error, 1)
		go func() { served <- srv.Serve(context.Background(), sc) }()
		body, _ := goat_marshal(&wrapperspb.BytesValue{Value: []byte("u")})
		hdr := func(m string) *goatorepo.RequestHeader {
			return &goatorepo.RequestHeader{Method: m, Source: "c", Destination: "srv"}
		}
		ok := true
		for _, e := range []*Rpc{{Id: 1, Header: hdr(mUnary), Body: &goatorepo.Body{Data: body}}, {Id: 2, Header: hdr(mBidi)}} {
			select {
			case sc.In <- e:
			case <-time.After(hangTimeout):
				r.Violate("hdrsend.stall", "history", "the server stopped reading", in, goroutineDump(), nil)
				ok = false
			}
		}
		time.Sleep(5 * time.Millisecond) // the writer holds the unary response; header and message queue up behind it
		var got []*Rpc
		deadline := time.After(hangTimeout)
		for ok {
			select {
			case e := <-sc.Out:
				if e.Id == 2 {
					got = append(got, e)
				}
			case <-deadline:
				r.Violate("hdrsend.stall", "history", "the stream's trailer was never written", in, goroutineDump(), nil)
				ok = false
			}
			if n := len(got); n > 0 && got[n-1].Trailer != nil {
				break
			}
		}
		if ok {
			sh := make([]string, len(got))
			withMD := 0
			for i, e := range got {
				sh[i] = shapeOf(e)
				if len(e.GetHeader().GetHeaders()) > 0 {
					withMD++
					if i != 0 {
						r.Violate("hdrsend.metadata", "history", "response metadata on an envelope that is not the stream's first response envelope", in, strings.Join(wireBriefRpcs(got), " "), "metadata on envelope #1 only")
					}
				}
			}
			if withMD != 1 {
				r.Violate("hdrsend.metadata", "history", "the stream's response metadata must appear on exactly one envelope", in, strings.Join(wireBriefRpcs(got), " "), "exactly one")
			}
			r.Case("accS", "stream|"+strings.Join(sh, ";"), "accept")
		}
		r.Eval(fmt.Sprintf("hdrsend/%d", rep), true)
		r.Count("c06.hdrsend")
		srv.Stop()
		sc.FailRead(io.EOF)
		go func() {
			for range sc.Out {
			}
		}()
		within(hangTimeout, func() { <-served })
	}
}

func wireBriefRpcs(es []*Rpc) []string {
	out := make([]string, len(es))
	for i, e := range es {
		s := ""
		if e.Body != nil {
			s += "B"
		}
		if e.Trailer != nil {
			s += "T"
		}
		if s == "" {
			s = "H"
		}
		if len(e.GetHeader().GetHeaders()) > 0 {
			s += "+md"
		}
		out[i] = s
	}
	return out
}

// c06FailOpen is a client transport on which the opening envelope of the next stream is NOT written: the
// caller's context ends while the write is pending and the write returns that error (a transport that
// honours the context, a peer that is not reading). Everything else passes.
type c06FailOpen struct {
	*End
	mu     sync.Mutex
	cancel context.CancelFunc
}

func (t *c06FailOpen) Write(ctx context.Context, rpc *Rpc) error {
	if rpc.Body == nil && rpc.Trailer == nil && rpc.Reset_ == nil {
		t.mu.Lock()
		c := t.cancel
		t.cancel = nil
		t.mu.Unlock()
		if c != nil {
			c()
			return ctx.Err()
		}
	}
	return t.End.Write(ctx, rpc)
}

// c06ResetWithoutOpen: a streaming call whose opening write fails because the caller's context ended
// while it was pending — nothing of the call reached the wire. Nothing may follow either: a reset for
// an id the client never opened is not an envelope of the protocol (per id, a client's history starts
// with a header-only envelope).
func c06ResetWithoutOpen(r *Run) {
	if !r.Want("failedopen") {
		return
	}
	for rep, reps := 0, r.Scale(4, 40); rep < reps && r.NumViolations() <= 4; rep++ {
		for _, method := range []string{mBidi, mSrvStream, mCliStream} {
			in := map[string]any{"method": method, "rep": rep, "opening_write": "fails with the caller's context error, nothing is emitted"}
			r.Progress("failedopen", in)
			var tr *c06FailOpen
			rig := c07NewRigWith(rep%2 == 0, func(ce *End) goat.RpcReadWriter { tr = &c06FailOpen{End: ce}; return tr })
			rig.Impl.SetUnary(func(ctx context.Context, req []byte) ([]byte, error) { return req, nil })
			rig.Impl.SetStream(func(m string, ss grpc.ServerStream) error { <-ss.Context().Done(); return ss.Context().Err() })
			ctx, cancel := context.WithCancel(context.Background())
			tr.cancel = cancel
			cs, err := rig.CC.NewStream(ctx, descOf(method), method)
			if err == nil {
				recvB(cs)
			}
			// a later, ordinary call on the connection
			cctx, ccancel := context.WithTimeout(context.Background(), hangTimeout)
			callUnary(cctx, rig.CC, []byte("after"))
			ccancel()
			time.Sleep(20 * time.Millisecond) // whatever the client still wants to say about the failed call
			settleGoroutines(2 + 2 + 8)
			evs := rig.Wire.Snapshot()
			r.Eval(fmt.Sprintf("failedopen/%s/%d", method, rep), true)
			r.Count("c06.failedopen")
			checkWire(r, "failedopen.wire", evs, in)
			rig.Close()
		}
	}
}

// c06UnknownMethodStream: a streaming call to a service / method the server does not have, with
// messages sent before anything could come back. Whatever the server says about the id, its side of
// the conversation obeys the protocol: at most one trailer, nothing after it (checkWire).
func c06UnknownMethodStream(r *Run) {
	if !r.Want("unknownmethod") {
		return
	}
	for rep, reps := 0, r.Scale(2, 20); rep < reps && r.NumViolations() <= 4; rep++ {
		for _, method := range []string{"/verif.Echo/Nope", "/nope.Svc/X"} {
			for msgs := 0; msgs <= 3; msgs++ {
				in := map[string]any{"method": method, "messages": msgs, "rep": rep}
				r.Progress("unknownmethod", in)
				rig := NewRig(RigOpt{Serialise: rep%2 == 0})
				rig.Impl.SetUnary(func(ctx context.Context, req []byte) ([]byte, error) { return req, nil })
				ctx, cancel := context.WithCancel(context.Background())
				within(hangTimeout, func() {
					cs, err := rig.CC.NewStream(ctx, descBidi, method)
					if err != nil {
						return
					}
					for i := 0; i < msgs; i++ {
						sendB(cs, []byte("m"))
					}
					cs.CloseSend()
				})
				// a later, ordinary call on the connection is the barrier: the server has seen all of the above
				cctx, ccancel := context.WithTimeout(context.Background(), hangTimeout)
				callUnary(cctx, rig.CC, []byte("after"))
				ccancel()
				time.Sleep(10 * time.Millisecond)
				evs := rig.Wire.Snapshot()
				cancel()
				r.Eval(fmt.Sprintf("unknownmethod/%s/%d/%d", method, msgs, rep), true)
				r.Count("c06.unknownmethod")
				checkWire(r, "unknownmethod.wire", evs, in)
				rig.Close()
			}
		}
	}
}
