package main

import (
	"context"
	"fmt"
	"sync"

	"google.golang.org/grpc/metadata"
	"google.golang.org/grpc/stats"
)

type tagKey struct{ name string }

// StatEv is one HandleRPC / HandleConn callback.
type StatEv struct {
	Tag    int    // the tag TagRPC returned for this RPC (0 = untagged context)
	Kind   string // Begin, End, InHeader, OutHeader, InPayload, OutPayload, InTrailer, OutTrailer, ConnBegin, ConnEnd
	Err    string // End only
	HasErr bool
	MD     metadata.MD
	Method string
}

// Recorder is a stats.Handler that logs everything it sees.
type Recorder struct {
	name string
	mu   sync.Mutex
	n    int
	evs  []StatEv
	tags []string // method per tag
}

func NewRecorder(name string) *Recorder { return &Recorder{name: name} }

func (r *Recorder) TagRPC(ctx context.Context, info *stats.RPCTagInfo) context.Context {
	r.mu.Lock()
	r.n++
	t := r.n
	r.tags = append(r.tags, info.FullMethodName)
	r.mu.Unlock()
	return context.WithValue(ctx, tagKey{r.name}, t)
}

func (r *Recorder) HandleRPC(ctx context.Context, s stats.RPCStats) {
	tag, _ := ctx.Value(tagKey{r.name}).(int)
	ev := StatEv{Tag: tag}
	switch v := s.(type) {
	case *stats.Begin:
		ev.Kind = "Begin"
	case *stats.End:
		ev.Kind = "End"
		if v.Error != nil {
			ev.HasErr = true
			ev.Err = v.Error.Error()
		}
	case *stats.InHeader:
		ev.Kind = "InHeader"
		ev.MD = v.Header.Copy()
		ev.Method = v.FullMethod
	case *stats.OutHeader:
		ev.Kind = "OutHeader"
		ev.MD = v.Header.Copy()
		ev.Method = v.FullMethod
	case *stats.InPayload:
		ev.Kind = "InPayload"
	case *stats.OutPayload:
		ev.Kind = "OutPayload"
	case *stats.InTrailer:
		ev.Kind = "InTrailer"
		ev.MD = v.Trailer.Copy()
	case *stats.OutTrailer:
		ev.Kind = "OutTrailer"
		ev.MD = v.Trailer.Copy()
	default:
		ev.Kind = fmt.Sprintf("%T", s)
	}
	r.mu.Lock()
	r.evs = append(r.evs, ev)
	r.mu.Unlock()
}

func (r *Recorder) TagConn(ctx context.Context, _ *stats.ConnTagInfo) context.Context {
	return context.WithValue(ctx, tagKey{r.name + ".conn"}, 1)
}

func (r *Recorder) HandleConn(ctx context.Context, s stats.ConnStats) {
	ev := StatEv{}
	switch s.(type) {
	case *stats.ConnBegin:
		ev.Kind = "ConnBegin"
	case *stats.ConnEnd:
		ev.Kind = "ConnEnd"
	}
	if v, _ := ctx.Value(tagKey{r.name + ".conn"}).(int); v == 1 {
		ev.Tag = 1
	}
	r.mu.Lock()
	r.evs = append(r.evs, ev)
	r.mu.Unlock()
}

func (r *Recorder) Events() []StatEv {
	r.mu.Lock()
	defer r.mu.Unlock()
	return append([]StatEv(nil), r.evs...)
}

func (r *Recorder) Reset() {
	r.mu.Lock()
	r.evs = nil
	r.mu.Unlock()
}

// ByTag groups RPC events by tag, keeping order.
func (r *Recorder) ByTag() map[int][]StatEv {
	out := map[int][]StatEv{}
	for _, e := range r.Events() {
		if e.Kind == "ConnBegin" || e.Kind == "ConnEnd" {
			continue
		}
		out[e.Tag] = append(out[e.Tag], e)
	}
	return out
}

// MethodOf returns the method TagRPC was given for a tag ("" for an unknown tag).
func (r *Recorder) MethodOf(tag int) string {
	r.mu.Lock()
	defer r.mu.Unlock()
	if tag < 1 || tag > len(r.tags) {
		return ""
	}
	return r.tags[tag-1]
}
