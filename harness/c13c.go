package main

import (
	"context"
	"errors"
	"fmt"
	"io"
	"sync/atomic"
	"time"

	goat "github.com/avos-io/goat"
	"github.com/avos-io/goat/gen/goatorepo"
	"google.golang.org/protobuf/types/known/wrapperspb"
)

// refuseOpenRW refuses (with an error; the connection stays up) the next write of an envelope that
// opens a stream, when armed.
type refuseOpenRW struct {
	*Script
	arm atomic.Bool
	err error
}

func (t *refuseOpenRW) Write(ctx context.Context, e *Rpc) error {
	if e.Body == nil && e.Trailer == nil && e.Reset_ == nil && t.arm.CompareAndSwap(true, false) {
		return t.err
	}
	return t.Script.Write(ctx, e)
}

// c13FailedOpen: a stream whose opening envelope the transport refused (the connection stays up), and
// then envelopes addressed to the id that stream would have had — a peer that did see the open, or any
// peer: ids are sequential. They are envelopes for an unknown id: the client goes on reading, another
// call on the connection gets its own reply, and after the connection is closed every call has ended.
func c13FailedOpen(r *Run) {
	if !r.Want("failedopen") {
		return
	}
	body := func(s string) *goatorepo.Body {
		b, _ := goat_marshal(&wrapperspb.BytesValue{Value: []byte(s)})
		return &goatorepo.Body{Data: b}
	}
	errs := []error{errors.New("refused"), context.DeadlineExceeded, fmt.Errorf("write: %w", context.Canceled), io.ErrShortWrite}
	for rep, reps := 0, r.Scale(4, 40); rep < reps && r.NumViolations() == 0; rep++ {
		for late := 2; late <= 4; late++ {
			in := map[string]any{"open_write_error": errs[rep%len(errs)].Error(), "late_envelopes_for_its_id": late, "rep": rep}
			r.Progress("failedopen", in)
			sc := NewScript(0)
			sc.Out = make(chan *Rpc, 64)
			tr := &refuseOpenRW{Script: sc, err: errs[rep%len(errs)]}
			cc := goat.NewClientConn(tr, "c", "s")
			tr.arm.Store(true)
			opened := false
			within(hangTimeout, func() {
				cs, err := cc.NewStream(context.Background(), descBidi, mBidi)
				opened = err == nil
				_ = cs
			})
			type ares struct {
				out []byte
				err error
			}
			bDone := make(chan ares, 1)
			go func() {
				out, err := callUnary(context.Background(), cc, []byte("b"))
				bDone <- ares{out, err}
			}()
			stalled := false
			var req *Rpc
			for req == nil && !stalled {
				select {
				case e := <-sc.Out:
					if e.Body != nil { // the unary request (not whatever the client says about the failed open)
						req = e
					}
				case <-time.After(hangTimeout):
					stalled = true
				}
			}
			if !stalled && !opened && req.Id > 1 {
				feed := func(e *Rpc) {
					select {
					case sc.In <- e:
					case <-time.After(hangTimeout):
						stalled = true
					}
				}
				for i := 0; i < late && !stalled; i++ {
					feed(&Rpc{Id: req.Id - 1, Header: &goatorepo.RequestHeader{Method: mBidi}, Body: body(fmt.Sprint("late-", i))})
				}
				if !stalled {
					feed(&Rpc{Id: req.Id, Header: &goatorepo.RequestHeader{Method: mUnary}, Body: body("b-reply"), Trailer: &goatorepo.Trailer{}})
				}
				select {
				case a := <-bDone:
					if a.err != nil || string(a.out) != "b-reply" {
						r.Violate("failedopen.reply", "ops", "a unary call did not get the reply addressed to it (envelopes for the id of a stream that failed to open came first)", in, fmt.Sprint(string(a.out), " ", a.err), "b-reply")
					}
				case <-time.After(hangTimeout):
					stalled = true
				}
			}
			if stalled {
				r.Violate("failedopen.stall", "ops", "the client stopped reading its transport or a call never returned (envelopes addressed to the id of a stream whose open the transport refused)", in, goroutineDump(), nil)
			}
			r.Eval(fmt.Sprintf("failedopen/%d/%d", rep, late), true)
			r.Count("c13.failedopen")
			// closing ends every call
			cDone := make(chan struct{})
			go func() { defer close(cDone); callUnary(context.Background(), cc, []byte("c")) }()
			time.Sleep(2 * time.Millisecond)
			sc.FailRead(io.ErrClosedPipe)
			cc.Close()
			if !stalled && !within(hangTimeout, func() { <-cDone }) {
				r.Violate("failedopen.close", "ops", "a call outlived the closing of its connection", in, goroutineDump(), nil)
			}
			settleGoroutines(0)
		}
	}
}
