package main

import (
	"context"
	"fmt"
	"io"
	"math/rand"
	"runtime"
	"strconv"
	"strings"
	"sync"
	"sync/atomic"

	"google.golang.org/grpc"

	"google.golang.org/grpc/codes"
	"google.golang.org/grpc/metadata"
	"google.golang.org/grpc/status"
)

// C02 — streams deliver every message once, in order, then the correct end-of-stream.
//
//   product   (a) the product kinds x handler programs x client programs x counts, 1..N streams
//             multiplexed on one connection, both transport kinds; monitor = checkStream (streamSeq).
//   window    (b) the forced done-check/select window of client RecvMsg (DESIGN C02 strand D).
//   yields    (c) a slice of (a) with randomised yields at the four yield sites of the client.

func init() { register("C02", runC02) }

func runC02(r *Run) {
	hung := false
	if r.Want("product") {
		hung = !c02Product(r)
	}
	if r.Want("window") {
		c02Window(r)
	}
	c02CompletedThenConnFail(r)
	c02ViaProxy(r)
	c02ReusedMessage(r)
	topoSweep(r, "stream")
	c01SharedChain(r)
	c02HttpManyStreams(r)
	c02DemuxLongBurst(r)
	c02CutMidStream(r)
	// a long backlog at a caller that is not reading: order and completeness when it finally reads (c05b.go)
	c05LongBacklog(r)
	// a stream abandoned with unread envelopes, then the next stream: it receives exactly what ITS handler sent
	if r.Want("backlog") {
		c05Backlog(r)
	}
	if r.Want("yields") && !(hung && r.Only == "") {
		// a tree on which the plain product hangs would hang here too, at 2*hangTimeout a time
		c02Yields(r)
	}
}

// c02Combo is one stream shape: which method, what the handler does, what the caller does and how
// many messages the caller sends.
type c02Combo struct {
	Method string `json:"method"`
	Prog   string `json:"prog"`
	Client string `json:"client"`
	N      int    `json:"n"`
}

func (c c02Combo) kind() string { return strings.TrimPrefix(c.Method, "/verif.Echo/") }

func (c c02Combo) key() string {
	p := strings.Split(c.Prog, ":")
	return fmt.Sprintf("%s/%s/%s/n%d/%s", c.kind(), p[0], c.Client, c.N, strings.Join(p[1:], "."))
}

// c02Combos enumerates the meaningful part of the product.
//
// Not meaningful, and left out:
//   - pingpong with anything but echo (without a reply per message it is sendall);
//   - on SrvStream the caller sends exactly one request (runStreamCall enforces it), so the message
//     count is fixed to 1, earlyclose (no request at all) is not a server-streaming call, and the
//     variation is in the handler's burst/aftereof count;
//   - on CliStream the handler answers with at most one message: echo (one reply per message) is a
//     bidirectional shape, so the handlers are aftereof:0/1, burst:1, early:K and fail:K:code;
//   - earlyclose sends nothing, so it is taken once per handler program instead of once per count.
func c02Combos(rng *rand.Rand, counts []int) []c02Combo {
	var out []c02Combo
	code := func() int {
		// any non-OK code; Canceled (1) included on purpose: a handler may fail with it
		return 1 + rng.Intn(16)
	}
	pick := func() int { return counts[rng.Intn(len(counts))] }
	ks := func(n int) []int {
		s := []int{0}
		if n >= 1 {
			s = append(s, (n+1)/2)
		}
		if n >= 2 {
			s = append(s, n)
		}
		return s
	}
	// bidirectional
	for _, n := range counts {
		progs := []string{"echo", "burst:" + strconv.Itoa(pick()), "burst:" + strconv.Itoa(n), "aftereof:" + strconv.Itoa(pick()), "aftereof:" + strconv.Itoa(n)}
		for _, k := range ks(n) {
			progs = append(progs, fmt.Sprintf("early:%d", k), fmt.Sprintf("fail:%d:%d", k, code()))
		}
		for _, p := range progs {
			for _, c := range []string{"sendall", "conc"} {
				out = append(out, c02Combo{mBidi, p, c, n})
			}
		}
		out = append(out, c02Combo{mBidi, "echo", "pingpong", n})
	}
	for _, p := range []string{"echo", "burst:" + strconv.Itoa(pick()), "aftereof:" + strconv.Itoa(pick()), "early:0", fmt.Sprintf("fail:0:%d", code())} {
		out = append(out, c02Combo{mBidi, p, "earlyclose", 0})
	}
	// server streaming: one request, N responses
	for _, n := range counts {
		for _, p := range []string{"burst:" + strconv.Itoa(n), "aftereof:" + strconv.Itoa(n)} {
			for _, c := range []string{"sendall", "conc"} {
				out = append(out, c02Combo{mSrvStream, p, c, 1})
			}
		}
	}
	for _, p := range []string{"echo", "early:0", "early:1", fmt.Sprintf("fail:0:%d", code()), fmt.Sprintf("fail:1:%d", code())} {
		for _, c := range []string{"sendall", "conc"} {
			out = append(out, c02Combo{mSrvStream, p, c, 1})
		}
	}
	out = append(out, c02Combo{mSrvStream, "echo", "pingpong", 1})
	// client streaming: N requests, at most one response
	for _, n := range counts {
		progs := []string{"aftereof:1", "aftereof:0", "burst:1"}
		for _, k := range ks(n) {
			progs = append(progs, fmt.Sprintf("early:%d", k), fmt.Sprintf("fail:%d:%d", k, code()))
		}
		for _, p := range progs {
			for _, c := range []string{"sendall", "conc"} {
				out = append(out, c02Combo{mCliStream, p, c, n})
			}
		}
	}
	for _, p := range []string{"aftereof:1", "early:0", fmt.Sprintf("fail:0:%d", code())} {
		out = append(out, c02Combo{mCliStream, p, "earlyclose", 0})
	}
	return out
}

// c02Payloads draws the caller's messages for one stream: each starts with "<tag>#<i>:" so that no
// two messages of a run are equal (loss, duplication and reordering are all visible), followed by a
// genPayload body.
func c02Payloads(rng *rand.Rand, tag string, n int) [][]byte {
	max := 3000
	if n > 32 {
		max = 200
	}
	p := make([][]byte, n)
	for i := range p {
		p[i] = append([]byte(fmt.Sprintf("%s#%d:", tag, i)), genPayload(rng, max)...)
	}
	return p
}

func c02Bucket(n int) string {
	switch {
	case n == 1:
		return "1"
	case n <= 4:
		return "2-4"
	case n <= 8:
		return "5-8"
	case n <= 16:
		return "9-16"
	}
	return "17-32"
}

// c02RunBatch runs the given stream shapes concurrently on ONE connection and applies checkStream to
// each. It reports whether the batch finished.
func c02RunBatch(r *Run, scen string, rng *rand.Rand, batch []c02Combo, serialise bool, batchNo int) bool {
	in := map[string]any{"batch": batchNo, "serialise": serialise, "streams": batch}
	r.Progress(scen, in)
	// No flow control below: every envelope of the batch must fit the pipe, or a caller that is
	// still sending while the multiplexer waits for it to receive would stall (finding #10, C11).
	need := 64
	for _, c := range batch {
		need += 2*c.N + 512
	}
	rig := NewRig(RigOpt{Serialise: serialise, Cap: need})
	log := NewHandlerLog()
	InstallPrograms(rig.Impl, log, nil)
	obs := make([]*StreamObs, len(batch))
	var wg sync.WaitGroup
	for i, c := range batch {
		tag := fmt.Sprintf("b%d.%d", batchNo, i)
		pl := c02Payloads(rng, tag, c.N)
		wg.Add(1)
		go func(i int, c c02Combo, tag string) {
			defer wg.Done()
			obs[i] = runStreamCall(context.Background(), rig.CC, c.Method, tag, c.Prog, c.Client, c.N, func(j int) []byte {
				if j < len(pl) {
					return pl[j]
				}
				return cliMsg(tag, j) // SrvStream sends one request whatever N is
			})
		}(i, c, tag)
	}
	if !within(2*hangTimeout, wg.Wait) {
		r.Violate(scen+".hang", "history", "a batch of streams did not finish", in, goroutineDump(), "every stream ends")
		rig.Close()
		return false
	}
	for i, c := range batch {
		cin := map[string]any{"batch": batchNo, "serialise": serialise, "streams": len(batch), "index": i, "combo": c, "all": batch}
		checkStream(r, scen, obs[i], log, cin)
		p := strings.Split(c.Prog, ":")[0]
		r.Eval(fmt.Sprintf("%s/%s/ser=%v/k=%s", scen, c.key(), serialise, c02Bucket(len(batch))), c.N > 0 || p != "echo")
		r.Count(scen + ".kind." + c.kind())
		r.Count(scen + ".handler." + p)
		r.Count(scen + ".client." + c.Client)
		r.Count(fmt.Sprintf("%s.count.%d", scen, c.N))
		r.CountN(scen+".messages.c2s", len(obs[i].Sent))
		r.CountN(scen+".messages.s2c", len(obs[i].Received))
		if obs[i].Terminal == "EOF" {
			r.Count(scen + ".end.EOF")
		} else {
			r.Count(scen + ".end.status")
		}
	}
	r.Count(scen + ".streamsPerConn." + c02Bucket(len(batch)))
	r.Count(fmt.Sprintf("%s.transport.serialise=%v", scen, serialise))
	if !rig.Close() {
		r.Violate(scen+".close", "history", "Serve did not return after the batch", in, nil, nil)
	}
	return true
}

// c02RunCombos cuts the (shuffled) combos into batches of 1..maxStreams streams and runs each batch.
func c02RunCombos(r *Run, scen string, rng *rand.Rand, combos []c02Combo, maxStreams int, serialise bool, batchNo *int) bool {
	rng.Shuffle(len(combos), func(i, j int) { combos[i], combos[j] = combos[j], combos[i] })
	size := 1
	for len(combos) > 0 && r.NumViolations() <= 4 {
		k := size
		if k > len(combos) {
			k = len(combos)
		}
		*batchNo++
		if !c02RunBatch(r, scen, rng, combos[:k], serialise, *batchNo) {
			return false // a hang costs 2*hangTimeout: one per family is enough
		}
		combos = combos[k:]
		// 1, 2, 3, 5, 8, … max, max, 1, …: small and full batches both occur
		switch {
		case size >= maxStreams:
			size = 1
		case size < 3:
			size++
		default:
			size = size * 8 / 5
			if size > maxStreams {
				size = maxStreams
			}
		}
	}
	return true
}

func c02Counts(r *Run, rng *rand.Rand) []int {
	if !r.Thorough() {
		return []int{0, 1, 2, 17}
	}
	c := []int{0, 1, 2, 17, 200}
	for i := 0; i < 3; i++ {
		c = append(c, 3+rng.Intn(197))
	}
	return c
}

// (a) the product.
func c02Product(r *Run) bool {
	rng := r.Rand("c02.product")
	maxStreams := r.Scale(8, 32)
	rounds := r.Scale(3, 14)
	batchNo := 0
	for round := 0; round < rounds; round++ {
		for _, serialise := range []bool{true, false} {
			combos := c02Combos(rng, c02Counts(r, rng))
			if !c02RunCombos(r, "product", rng, combos, maxStreams, serialise, &batchNo) {
				return false
			}
		}
	}
	// the widest case on its own: maxStreams streams of the largest count, all kinds, one connection
	big := r.Scale(17, 200)
	var wide []c02Combo
	shapes := []c02Combo{
		{mBidi, "echo", "conc", big}, {mBidi, "echo", "pingpong", big}, {mBidi, "echo", "sendall", big},
		{mSrvStream, "burst:" + strconv.Itoa(big), "sendall", 1}, {mCliStream, "aftereof:1", "sendall", big},
		{mBidi, "aftereof:" + strconv.Itoa(big), "conc", big}, {mBidi, "burst:" + strconv.Itoa(big), "conc", big},
		{mBidi, fmt.Sprintf("early:%d", big/2), "sendall", big},
	}
	for len(wide) < maxStreams {
		wide = append(wide, shapes[len(wide)%len(shapes)])
	}
	for _, serialise := range []bool{true, false} {
		if r.NumViolations() > 4 {
			break
		}
		batchNo++
		if !c02RunBatch(r, "product", rng, wide, serialise, batchNo) {
			return false
		}
	}
	return true
}

// ---- (b) the forced window ----

// c02WindowCtl holds ONE chosen RecvMsg call of the stream under test between its done-check and
// its select until the read loop's finishing block has set done (event cs.fin.done), and holds the
// read loop's finishing block until that RecvMsg has passed its done-check. So the RecvMsg is known
// to have seen "not done", and its select is known to find both the cancelled stream context and the
// closed body channel.
type c02WindowCtl struct {
	mu      sync.Mutex
	holdAt  int // which RecvMsg call (1-based) of the stream is held
	calls   int
	reached chan struct{}
	entered bool // the chosen call went through the window
	finSeen bool // cs.fin.done was logged while it was held
	finHeld bool // the finishing block waited for the chosen call
}

func (w *c02WindowCtl) arm(holdAt int) {
	w.mu.Lock()
	w.holdAt, w.calls, w.reached = holdAt, 0, make(chan struct{})
	w.entered, w.finSeen, w.finHeld = false, false, false
	w.mu.Unlock()
}

func (w *c02WindowCtl) install() {
	hooks.OnYield("cs.recv.afterDoneCheck", func(id uint64) {
		w.mu.Lock()
		w.calls++
		hit := w.calls == w.holdAt
		ch := w.reached
		w.mu.Unlock()
		if !hit {
			return
		}
		close(ch)
		ok := hooks.WaitFor(siteIs("cs.fin.done", id), hangTimeout)
		w.mu.Lock()
		w.entered, w.finSeen = true, ok
		w.mu.Unlock()
	})
	hooks.OnYield("cs.fin.beforeLock", func(id uint64) {
		w.mu.Lock()
		ch := w.reached
		w.mu.Unlock()
		ok := within(hangTimeout, func() { <-ch })
		w.mu.Lock()
		w.finHeld = ok
		w.mu.Unlock()
	})
}

func c02Window(r *Run) {
	iters := r.Scale(64, 1024)
	rng := r.Rand("c02.window")
	type variant struct {
		name string
		msgs int // messages the handler sends before returning (after the caller's half-close)
		fail bool
	}
	variants := []variant{{"ok", 0, false}, {"fail", 0, true}, {"msgs", -1, false}, {"failmsgs", -1, true}}
	methods := []string{mBidi, mSrvStream, mCliStream}
	for _, v := range variants {
		for _, serialise := range []bool{true, false} {
			if r.NumViolations() > 4 {
				return
			}
			scen := "window." + v.name
			hooks.Reset(true)
			w := &c02WindowCtl{}
			w.install()
			rig := NewRig(RigOpt{Serialise: serialise})
			hlog := NewHandlerLog()
			InstallPrograms(rig.Impl, hlog, nil)
			// "failmsgs": m messages, then a non-OK status. No workload program does that, so it is added here.
			c02InstallSendThenFail(rig.Impl, hlog)
			for it := 0; it < iters && r.NumViolations() <= 4; it++ {
				method := methods[it%3]
				m := v.msgs
				if m < 0 {
					m = 1 + rng.Intn(3)
					if method == mCliStream {
						m = 1
					}
				}
				code := codes.Code(2 + rng.Intn(15)) // never OK, never Canceled: Canceled must be distinguishable
				prog := "early:0"
				switch {
				case v.fail && m == 0:
					prog = fmt.Sprintf("fail:0:%d", int(code))
				case v.fail:
					prog = fmt.Sprintf("c02sendfail:%d:%d", m, int(code))
				case m > 0:
					prog = fmt.Sprintf("aftereof:%d", m)
				}
				tag := fmt.Sprintf("w%d", it)
				in := map[string]any{"variant": v.name, "iteration": it, "method": method, "prog": prog, "serialise": serialise,
					"schedule": fmt.Sprintf("hold RecvMsg #%d at cs.recv.afterDoneCheck until cs.fin.done; hold cs.fin.beforeLock until that RecvMsg is at the yield", m+1)}
				r.Progress(scen, in)
				w.arm(m + 1)
				ctx := metadata.AppendToOutgoingContext(context.Background(), "x-tag", tag, "x-prog", prog)
				cs, err := rig.CC.NewStream(ctx, descOf(method), method)
				if err != nil {
					r.Violate(scen+".open", "schedule", "stream could not be opened", in, err.Error(), nil)
					break
				}
				if m > 0 {
					// the handler sends after it has seen the half-close
					if err := cs.CloseSend(); err != nil {
						r.Violate(scen+".closesend", "schedule", "CloseSend failed on a live stream", in, err.Error(), nil)
						break
					}
				}
				var got [][]byte
				var termErr error
				returned := within(3*hangTimeout, func() {
					for {
						b, err := recvB(cs)
						if err != nil {
							termErr = err
							return
						}
						got = append(got, b)
						if len(got) > m+2 {
							return
						}
					}
				})
				if !returned {
					r.Violate(scen+".hang", "schedule", "RecvMsg did not return", in, goroutineDump(), nil)
					break
				}
				w.mu.Lock()
				entered, finSeen, finHeld := w.entered, w.finSeen, w.finHeld
				w.mu.Unlock()
				if !entered || !finSeen || !finHeld {
					// the schedule itself did not happen: the predicted events never came
					r.Violate(scen+".schedule", "schedule", "the forced window could not be set up: the predicted hook events did not occur", in,
						map[string]bool{"recvReachedWindow": entered, "finDoneLogged": finSeen, "finWaitedForRecv": finHeld}, nil)
					break
				}
				want := make([][]byte, m)
				for i := range want {
					want[i] = srvMsg(i)
				}
				if !seqEqual(got, want) {
					r.Violate(scen+".s2c", "schedule", "caller received something other than exactly what the handler sent", in, seqStr(got), seqStr(want))
				}
				obs := "nil"
				if termErr == io.EOF {
					obs = "EOF"
				} else if termErr != nil {
					obs = status.Code(termErr).String() + ": " + termErr.Error()
				}
				if v.fail {
					if termErr == io.EOF || termErr == nil || status.Code(termErr) != code {
						r.Violate(scen+".status", "schedule", "the handler failed, but the RecvMsg held in the done-check/select window did not return the handler's status", in, obs, code.String())
					}
				} else if termErr != io.EOF {
					r.Violate(scen+".eof", "schedule", "the handler returned nil, but the RecvMsg held in the done-check/select window did not return io.EOF", in, obs, "EOF")
				}
				r.Eval(fmt.Sprintf("%s/%s/ser=%v/m=%d", scen, strings.TrimPrefix(method, "/verif.Echo/"), serialise, m), true)
				r.Count(scen + ".forced")
				r.Count(scen + ".outcome." + strings.SplitN(obs, ":", 2)[0])
			}
			hooks.Reset(false)
			rig.Close()
		}
	}
}

// c02InstallSendThenFail wraps the installed stream programs with one more:
//
//	c02sendfail:M:CODE   consume until EOF, send M messages, then return status CODE
func c02InstallSendThenFail(impl *Impl, log *HandlerLog) {
	inner := impl.getStream()
	impl.SetStream(func(method string, ss grpc.ServerStream) error {
		prog := strings.Split(mdGet(ss.Context(), "x-prog"), ":")
		if prog[0] != "c02sendfail" {
			return inner(method, ss)
		}
		tag := mdGet(ss.Context(), "x-tag")
		m, _ := strconv.Atoi(prog[1])
		c, _ := strconv.Atoi(prog[2])
		for {
			if _, err := recvB(ss); err != nil {
				break
			}
		}
		for i := 0; i < m; i++ {
			if err := sendB(ss, srvMsg(i)); err != nil {
				return err
			}
			log.mu.Lock()
			log.Sent[tag] = append(log.Sent[tag], srvMsg(i))
			log.mu.Unlock()
		}
		err := status.Error(codes.Code(c), "boom after "+prog[1])
		log.mu.Lock()
		log.Result[tag] = err.Error()
		log.mu.Unlock()
		return err
	})
}

// ---- (c) randomised yields ----

func c02Mix(x uint64) uint64 {
	x += 0x9e3779b97f4a7c15
	x = (x ^ (x >> 30)) * 0xbf58476d1ce4e5b9
	x = (x ^ (x >> 27)) * 0x94d049bb133111eb
	return x ^ (x >> 31)
}

// c02InstallRandomYields makes every pass through the four yield sites give up the processor a
// number of times derived from the seed, the site, the stream id and a pass counter.
func c02InstallRandomYields(seed uint64) *uint64 {
	var passes uint64
	for i, site := range []string{"cs.recv.afterDoneCheck", "cs.send.afterDoneCheck", "cs.fin.beforeLock", "mux.beforeDeliver"} {
		salt := uint64(i+1) * 0x51ed270b
		hooks.OnYield(site, func(id uint64) {
			n := atomic.AddUint64(&passes, 1)
			h := c02Mix(seed ^ salt ^ (id << 32) ^ n)
			k := int(h % 6)
			if h>>8%16 == 0 {
				k = 20 + int(h>>16%40)
			}
			for ; k > 0; k-- {
				runtime.Gosched()
			}
		})
	}
	return &passes
}

func c02Yields(r *Run) {
	rng := r.Rand("c02.yields")
	hooks.Reset(false)
	passes := c02InstallRandomYields(rng.Uint64())
	maxStreams := r.Scale(8, 32)
	batchNo := 0
	rounds := r.Scale(3, 14)
	for round := 0; round < rounds; round++ {
		for _, serialise := range []bool{true, false} {
			combos := c02Combos(rng, c02Counts(r, rng))
			// a slice of the product: every third shape, chosen after shuffling
			rng.Shuffle(len(combos), func(i, j int) { combos[i], combos[j] = combos[j], combos[i] })
			combos = combos[:len(combos)/3]
			if !c02RunCombos(r, "yields", rng, combos, maxStreams, serialise, &batchNo) {
				hooks.Reset(false)
				return
			}
		}
	}
	r.CountN("yields.passesThroughYieldSites", int(atomic.LoadUint64(passes)))
	hooks.Reset(false)
}
