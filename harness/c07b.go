package main

import (
	"context"
	"fmt"
	"sync"
	"time"

	goat "github.com/avos-io/goat"
	"google.golang.org/grpc"
	"google.golang.org/grpc/codes"
	"google.golang.org/grpc/metadata"
	"google.golang.org/grpc/status"
)

// c07CancelOnOpen is a client transport that ends the caller's context at the very moment the opening
// envelope of a stream has been handed to the transport: the first position of the wire trace. The
// server has seen the open; whatever the client does with a call that is already dead when its stream
// object is built, the handler must be cancelled (a reset must follow the open).
type c07CancelOnOpen struct {
	*End
	mu     sync.Mutex
	cancel context.CancelFunc // fired once, after the next stream-opening envelope has been written
}

func (t *c07CancelOnOpen) Write(ctx context.Context, rpc *Rpc) error {
	err := t.End.Write(ctx, rpc)
	if err == nil && rpc.Body == nil && rpc.Trailer == nil && rpc.Reset_ == nil {
		t.mu.Lock()
		c := t.cancel
		t.cancel = nil
		t.mu.Unlock()
		if c != nil {
			c()
		}
	}
	return err
}

func c07CancelDuringOpen(r *Run) {
	if !r.Want("duringopen") {
		return
	}
	reps := r.Scale(6, 80)
	for rep := 0; rep < reps && r.NumViolations() <= 4; rep++ {
		for _, method := range []string{mBidi, mSrvStream, mCliStream} {
			how := []string{"cancel", "deadline"}[rep%2]
			in := map[string]any{"method": method, "how": how, "rep": rep, "position": "right after the opening envelope was written"}
			scen := "duringopen." + how
			r.Progress(scen, in)
			var tr *c07CancelOnOpen
			rig := c07NewRigWith(rep%4 < 2, func(ce *End) goat.RpcReadWriter { tr = &c07CancelOnOpen{End: ce}; return tr })
			hctx := make(chan context.Context, 4)
			rig.Impl.SetUnary(func(ctx context.Context, req []byte) ([]byte, error) { return req, nil })
			rig.Impl.SetStream(func(m string, ss grpc.ServerStream) error {
				hctx <- ss.Context()
				<-ss.Context().Done()
				return ss.Context().Err()
			})
			var ctx context.Context
			var cancel context.CancelFunc
			if how == "cancel" {
				ctx, cancel = context.WithCancel(context.Background())
				tr.cancel = cancel
			} else {
				// a deadline far enough away for the open to be written, made to "expire" at the same point
				ctx, cancel = context.WithTimeout(context.Background(), time.Hour)
				tr.cancel = cancel
			}
			ctx = metadata.AppendToOutgoingContext(ctx, "x-prog", "hold")
			cs, err := rig.CC.NewStream(ctx, descOf(method), method)
			if err == nil {
				// the caller's calls fail with the context's status
				if _, rerr := recvB(cs); rerr == nil {
					r.Violate(scen+".recv", "schedule", "RecvMsg succeeded on a stream whose context had ended", in, nil, nil)
				}
			}
			// the handler was started by the open: its context must end
			select {
			case h := <-hctx:
				select {
				case <-h.Done():
				case <-time.After(hangTimeout):
					r.Violate(scen+".handler", "schedule", "the caller's context ended right after the stream was opened, but the handler's context was never cancelled (no reset reached the server)", in,
						map[string]any{"NewStream error": fmt.Sprint(err), "wire": wireBrief(rig.Wire.Snapshot())}, "handler context done")
				}
			case <-time.After(hangTimeout):
				r.Violate(scen+".setup", "schedule", "the opening envelope was written but no handler was started", in, wireBrief(rig.Wire.Snapshot()), nil)
			}
			cancel()
			r.Eval(fmt.Sprintf("%s/%s/%d", scen, method, rep), true)
			r.Count("c07." + scen)
			rig.Close()
		}
	}
}

func wireBrief(evs []WireEv) []string {
	out := make([]string, 0, len(evs))
	for _, e := range evs {
		out = append(out, e.Dir+" "+shapeOf(e.Rpc))
	}
	return out
}

// c07CancelAfterNeighbourReturnedEarly: two streams on one connection. Stream A's handler returns after
// its first message while its caller has three more under way; afterwards the caller of stream B
// (opened earlier, its handler waiting on its context) cancels. B's caller gets Canceled, its reset is
// read, and B's handler context becomes done — whatever A's leftovers did to the connection.
func c07CancelAfterNeighbourReturnedEarly(r *Run) {
	if !r.Want("neighbour") {
		return
	}
	for rep, reps := 0, r.Scale(3, 24); rep < reps && r.NumViolations() <= 4; rep++ {
		in := map[string]any{"rep": rep, "stream A": "handler returns after 1 of 4 messages", "stream B": "cancelled by its caller afterwards"}
		r.Progress("neighbour", in)
		rig := NewRig(RigOpt{Serialise: rep%2 == 0})
		hctxB := make(chan context.Context, 1)
		aDone := make(chan struct{})
		rig.Impl.SetStream(func(m string, ss grpc.ServerStream) error {
			if mdGet(ss.Context(), "x-who") == "B" {
				hctxB <- ss.Context()
				<-ss.Context().Done()
				return ss.Context().Err()
			}
			defer close(aDone)
			recvB(ss)
			return status.Error(codes.InvalidArgument, "first message rejected")
		})
		bctx, bcancel := context.WithCancel(metadata.AppendToOutgoingContext(context.Background(), "x-who", "B"))
		csB, err := rig.CC.NewStream(bctx, descBidi, mBidi)
		if err != nil {
			bcancel()
			r.Violate("neighbour.open", "schedule", "stream B could not be opened", in, err.Error(), nil)
			rig.Close()
			return
		}
		var hc context.Context
		select {
		case hc = <-hctxB:
		case <-time.After(hangTimeout):
			r.Violate("neighbour.setup", "schedule", "handler B was not started", in, goroutineDump(), nil)
			bcancel()
			rig.Close()
			return
		}
		// stream A: four messages, the handler leaves after the first
		actx, acancel := context.WithTimeout(metadata.AppendToOutgoingContext(context.Background(), "x-who", "A"), 2*hangTimeout)
		if csA, err := rig.CC.NewStream(actx, descCli, mCliStream); err == nil {
			for i := 0; i < 4; i++ {
				if sendB(csA, []byte(fmt.Sprintf("a%d", i))) != nil {
					break
				}
			}
			select {
			case <-aDone:
			case <-time.After(hangTimeout):
			}
			time.Sleep(3 * time.Millisecond)
		}
		bcancel()
		ok := true
		if !within(hangTimeout, func() {
			if _, err := recvB(csB); status.Code(err) != codes.Canceled {
				r.Violate("neighbour.caller", "schedule", "a receive after the caller's cancellation did not return Canceled", in, fmt.Sprint(err), "Canceled")
			}
		}) {
			r.Violate("neighbour.caller", "schedule", "a receive after the caller's cancellation did not return", in, goroutineDump(), nil)
			ok = false
		}
		select {
		case <-hc.Done():
		case <-time.After(c11ProbeDeadline):
			r.Violate("neighbour.handler", "schedule", "stream B was cancelled by its caller, but its handler's context is still live (another stream's handler had returned early with messages under way)", in, "live after "+c11ProbeDeadline.String(), "done")
			ok = false
		}
		acancel()
		r.Eval(fmt.Sprintf("neighbour/%d", rep), true)
		r.Count("c07.neighbour")
		rig.Close()
		if !ok {
			return
		}
	}
}
