package main

import (
	"context"
	"fmt"
	"io"
	"strings"
	"sync"
	"time"

	goat "github.com/avos-io/goat"
	"google.golang.org/grpc"
	"google.golang.org/grpc/codes"
	"google.golang.org/grpc/metadata"
	"google.golang.org/grpc/stats"
	"google.golang.org/grpc/status"
	"google.golang.org/protobuf/types/known/wrapperspb"
)

func init() { register("C20", runC20) }

type callLog struct {
	mu  sync.Mutex
	evs []string
}

func (l *callLog) add(s string) { l.mu.Lock(); l.evs = append(l.evs, s); l.mu.Unlock() }
func (l *callLog) take() string {
	l.mu.Lock()
	defer l.mu.Unlock()
	s := strings.Join(l.evs, ",")
	l.evs = nil
	return s
}

func runC20(r *Run) {
	if r.Want("chain") {
		c20Chain(r)
	}
	c20ChainRetry(r)
	if r.Want("client") {
		c20ClientInterceptor(r)
	}
	if r.Want("stats") {
		c20Stats(r)
	}
	c20ServerReset(r)
	c20RefusedRequest(r)
	c20WrappedError(r)
}

// c20Chain: server-side chains of 1..6 interceptors that rewrite request, reply and context.
func c20Chain(r *Run) {
	for n := 1; n <= 6; n++ {
		log := &callLog{}
		var unary []grpc.UnaryServerInterceptor
		var stream []grpc.StreamServerInterceptor
		for k := 0; k < n; k++ {
			k := k
			unary = append(unary, func(ctx context.Context, req any, info *grpc.UnaryServerInfo, next grpc.UnaryHandler) (any, error) {
				log.add(fmt.Sprintf("e%d", k))
				in := req.(*wrapperspb.BytesValue)
				// what the previous stage put into the context must be visible here
				if k > 0 {
					if v, _ := ctx.Value(tagKey{fmt.Sprint("stage", k-1)}).(int); v != k-1 {
						log.add(fmt.Sprintf("ctxlost%d", k))
					}
				}
				ctx = context.WithValue(ctx, tagKey{fmt.Sprint("stage", k)}, k)
				out, err := next(ctx, &wrapperspb.BytesValue{Value: append(append([]byte{}, in.Value...), byte(k))})
				log.add(fmt.Sprintf("x%d", k))
				if err != nil {
					return nil, status.Error(status.Code(err), status.Convert(err).Message()+fmt.Sprint(k))
				}
				o := out.(*wrapperspb.BytesValue)
				return &wrapperspb.BytesValue{Value: append(append([]byte{}, o.Value...), byte(100+k))}, nil
			})
			stream = append(stream, func(srv any, ss grpc.ServerStream, info *grpc.StreamServerInfo, next grpc.StreamHandler) error {
				log.add(fmt.Sprintf("e%d", k))
				err := next(srv, ss)
				log.add(fmt.Sprintf("x%d", k))
				return err
			})
		}
		rig := NewRig(RigOpt{Serialise: true, SrvOpts: []goat.ServerOption{goat.ChainUnaryInterceptor(unary...), goat.ChainStreamInterceptor(stream...)}})
		fail := false
		rig.Impl.SetUnary(func(ctx context.Context, req []byte) ([]byte, error) {
			log.add("F")
			if v, _ := ctx.Value(tagKey{fmt.Sprint("stage", n-1)}).(int); v != n-1 {
				log.add("ctxlostF")
			}
			if fail {
				return nil, status.Error(codes.NotFound, "nf")
			}
			return req, nil
		})
		rig.Impl.SetStream(func(method string, ss grpc.ServerStream) error {
			log.add("F")
			return nil
		})
		for _, req := range [][]byte{nil, []byte("a"), []byte("hello world")} {
			in := map[string]any{"chain": n, "request": hx(req)}
			r.Progress("chain", in)
			fail = false
			out, err := callUnary(context.Background(), rig.CC, req)
			got := log.take() + "|" + hx(out)
			if err != nil {
				got = "ERR " + err.Error()
			}
			r.Case("chainlog", fmt.Sprintf("%d|%s", n, hx(req)), got)
			r.Count(fmt.Sprintf("chain.unary.len%d", n))
			// errors travel back through every stage in reverse order
			fail = true
			_, err = callUnary(context.Background(), rig.CC, req)
			lg := log.take()
			want := ""
			for k := n - 1; k >= 0; k-- {
				want += fmt.Sprint(k)
			}
			if status.Code(err) != codes.NotFound || status.Convert(err).Message() != "nf"+want {
				r.Violate("chain.error", "ops", "an error returned by the handler must pass through the interceptors in reverse registration order", in, fmt.Sprint(err), "nf"+want)
			}
			if strings.Count(lg, "F") != 1 {
				r.Violate("chain.once", "ops", "handler not run exactly once", in, lg, nil)
			}
		}
		// streaming chain: the log only
		cs, err := rig.CC.NewStream(context.Background(), descBidi, mBidi)
		if err == nil {
			cs.CloseSend()
			recvB(cs)
		}
		var want []string
		for k := 0; k < n; k++ {
			want = append(want, fmt.Sprintf("e%d", k))
		}
		want = append(want, "F")
		for k := n - 1; k >= 0; k-- {
			want = append(want, fmt.Sprintf("x%d", k))
		}
		if got := log.take(); got != strings.Join(want, ",") {
			r.Violate("chain.stream", "ops", "stream interceptors must run once each, in registration order around the handler", n, got, strings.Join(want, ","))
		}
		r.Eval(fmt.Sprintf("chain.stream/%d", n), true)
		rig.Close()
	}
}

// c20ClientInterceptor: a client interceptor is called exactly once per RPC and what it changes is
// what the peer and the caller observe.
func c20ClientInterceptor(r *Run) {
	calls := 0
	ui := func(ctx context.Context, method string, req, reply any, cc *grpc.ClientConn, invoker grpc.UnaryInvoker, opts ...grpc.CallOption) error {
		calls++
		ctx = metadata.AppendToOutgoingContext(ctx, "x-from-interceptor", "yes")
		in := req.(*wrapperspb.BytesValue)
		err := invoker(ctx, method, &wrapperspb.BytesValue{Value: append([]byte("I:"), in.Value...)}, reply, cc, opts...)
		if err == nil {
			o := reply.(*wrapperspb.BytesValue)
			o.Value = append(o.Value, []byte(":O")...)
		}
		return err
	}
	scalls := 0
	si := func(ctx context.Context, desc *grpc.StreamDesc, cc *grpc.ClientConn, method string, streamer grpc.Streamer, opts ...grpc.CallOption) (grpc.ClientStream, error) {
		scalls++
		ctx = metadata.AppendToOutgoingContext(ctx, "x-from-interceptor", "yes")
		return streamer(ctx, desc, cc, method, opts...)
	}
	rig := NewRig(RigOpt{Serialise: true, DialOpts: []goat.DialOption{goat.WithUnaryInterceptor(ui), goat.WithStreamInterceptor(si)}})
	defer rig.Close()
	var sawMD, sawReq string
	rig.Impl.SetUnary(func(ctx context.Context, req []byte) ([]byte, error) {
		sawMD = mdGet(ctx, "x-from-interceptor")
		sawReq = string(req)
		return req, nil
	})
	rig.Impl.SetStream(func(method string, ss grpc.ServerStream) error {
		sawMD = mdGet(ss.Context(), "x-from-interceptor")
		return nil
	})
	for i := 0; i < 5; i++ {
		calls, sawMD, sawReq = 0, "", ""
		out, err := callUnary(context.Background(), rig.CC, []byte("q"))
		r.Eval(fmt.Sprintf("client.unary/%d", i), true)
		if err != nil || calls != 1 || sawMD != "yes" || sawReq != "I:q" || string(out) != "I:q:O" {
			r.Violate("client.unary", "ops", "client interceptor must run once and its changes must be what the peer and the caller observe", i, fmt.Sprintf("calls=%d md=%q req=%q reply=%q err=%v", calls, sawMD, sawReq, out, err), "calls=1 md=yes req=I:q reply=I:q:O")
		}
		scalls, sawMD = 0, ""
		cs, err := rig.CC.NewStream(context.Background(), descBidi, mBidi)
		if err == nil {
			cs.CloseSend()
			recvB(cs)
		}
		r.Eval(fmt.Sprintf("client.stream/%d", i), true)
		if err != nil || scalls != 1 || sawMD != "yes" {
			r.Violate("client.stream", "ops", "client stream interceptor must run once and its context changes must reach the handler", i, fmt.Sprintf("calls=%d md=%q err=%v", scalls, sawMD, err), nil)
		}
	}
}

func kindsOf(evs []StatEv) string {
	p := make([]string, len(evs))
	for i, e := range evs {
		p[i] = e.Kind
		if e.Kind == "End" && e.HasErr {
			p[i] = "EndErr"
		}
	}
	if len(p) == 0 {
		return "_"
	}
	return strings.Join(p, ",")
}

// c20Stats: 1..3 recording stats handlers per side over all kinds and outcomes.
func c20Stats(r *Run) {
	outcomes := []string{"ok", "handler-error", "cancel", "deadline", "transport-failure", "failed-open", "precancel", "ok-coded-error"}
	kinds := []string{"unary", mBidi, mSrvStream, mCliStream}
	for nh := 1; nh <= 3; nh++ {
		for _, oc := range outcomes {
			for _, kind := range kinds {
				if oc == "failed-open" && kind == "unary" {
					continue
				}
				c20StatsOne(r, nh, oc, kind)
				if r.NumViolations() > 4 {
					return
				}
			}
		}
	}
}

// c20OKCoded is a non-nil error whose gRPC status carries the code OK.
type c20OKCoded struct{}

func (c20OKCoded) Error() string              { return "failed, but the status table says OK" }
func (c20OKCoded) GRPCStatus() *status.Status { return status.New(codes.OK, "") }

func c20StatsOne(r *Run, nh int, oc, kind string) {
	var crecs, srecs []*Recorder
	var dopts []goat.DialOption
	var sopts []goat.ServerOption
	for i := 0; i < nh; i++ {
		c, s := NewRecorder(fmt.Sprint("c", i)), NewRecorder(fmt.Sprint("s", i))
		crecs, srecs = append(crecs, c), append(srecs, s)
		dopts = append(dopts, goat.WithStatsHandler(c))
		sopts = append(sopts, goat.StatsHandler(s))
	}
	in := map[string]any{"handlers": nh, "outcome": oc, "kind": kind}
	if oc == "transport-failure" {
		in["read_error"] = []string{"injected", "io.EOF", "wrapped io.ErrUnexpectedEOF"}[nh%3]
	}
	r.Progress("stats", in)
	rig := NewRig(RigOpt{Serialise: true, DialOpts: dopts, SrvOpts: sopts})
	release := make(chan struct{})
	rig.Impl.SetUnary(func(ctx context.Context, req []byte) ([]byte, error) {
		switch oc {
		case "handler-error":
			return nil, status.Error(codes.Aborted, "x")
		case "ok-coded-error":
			return nil, c20OKCoded{}
		case "cancel", "deadline", "transport-failure":
			select {
			case <-ctx.Done():
				return nil, ctx.Err()
			case <-release:
				return nil, status.Error(codes.Canceled, "released")
			}
		}
		return req, nil
	})
	rig.Impl.SetStream(func(method string, ss grpc.ServerStream) error {
		switch oc {
		case "handler-error":
			recvB(ss)
			return status.Error(codes.Aborted, "x")
		case "ok-coded-error":
			// a failure whose GRPCStatus says OK (an error-translating interceptor's table gap): the handler
			// did fail, and the caller is told so
			recvB(ss)
			return c20OKCoded{}
		case "cancel", "deadline", "transport-failure":
			select {
			case <-ss.Context().Done():
				return ss.Context().Err()
			case <-release:
				return status.Error(codes.Canceled, "released")
			}
		}
		for {
			b, err := recvB(ss)
			if err != nil {
				break
			}
			if method != mCliStream {
				sendB(ss, b)
			}
		}
		if method == mCliStream {
			sendB(ss, []byte("sum"))
		}
		return nil
	})
	ctx, cancel := context.WithCancel(context.Background())
	if oc == "deadline" {
		ctx, cancel = context.WithTimeout(context.Background(), 40*time.Millisecond)
	}
	if oc == "failed-open" {
		rig.CEnd.FailWrite(errInjectedWrite)
	}
	if oc == "precancel" {
		cancel() // the call is made on a context that has already ended
	}
	trigger := func() {
		switch oc {
		case "cancel":
			cancel()
		case "transport-failure":
			// what a dead transport reports varies: a cleanly closed byte stream says io.EOF
			rig.CEnd.FailRead([]error{errInjectedRead, io.EOF, fmt.Errorf("read: %w", io.ErrUnexpectedEOF)}[nh%3])
		}
	}
	var err error
	ok := within(hangTimeout, func() {
		if kind == "unary" {
			if oc == "cancel" || oc == "transport-failure" {
				go func() { time.Sleep(20 * time.Millisecond); trigger() }()
			}
			_, err = callUnary(ctx, rig.CC, []byte("p"))
			return
		}
		var cs grpc.ClientStream
		cs, err = rig.CC.NewStream(ctx, descOf(kind), kind)
		if err != nil {
			return
		}
		sendB(cs, []byte("m"))
		if oc == "cancel" || oc == "transport-failure" {
			trigger()
		} else {
			cs.CloseSend()
		}
		for {
			if _, e := recvB(cs); e != nil {
				if e != io.EOF {
					err = e
				}
				break
			}
		}
	})
	cancel()
	close(release)
	if !ok {
		r.Violate("stats.hang", "ops", "RPC did not finish", in, goroutineDump(), nil)
	}
	success := err == nil
	if success && (oc == "transport-failure" || oc == "cancel" || oc == "handler-error" || oc == "ok-coded-error") && kind != "unary" {
		// the handler never returned nil (it was cut off, cancelled, or failed): this RPC did not succeed,
		// whatever the caller was told
		r.Violate("stats.outcome", "ops", "an RPC that did not succeed ("+oc+") was reported to the caller as completed: its stats End says success as well", in, "RecvMsg: io.EOF", "an error")
		success = false
	}
	if !success && oc == "ok" {
		r.Violate("stats.outcome", "ops", "an RPC whose handler returned nil on a healthy connection failed at the caller", in, fmt.Sprint(err), "success")
	}
	// the client's End is emitted by the stream's read loop; wait for it rather than guess
	deadline := time.Now().Add(hangTimeout)
	for _, c := range crecs {
		for time.Now().Before(deadline) {
			done := true
			for _, evs := range c.ByTag() {
				hasEnd := false
				for _, e := range evs {
					if e.Kind == "End" {
						hasEnd = true
					}
				}
				if !hasEnd {
					done = false
				}
			}
			if done {
				break
			}
			time.Sleep(time.Millisecond)
		}
	}
	if kind == "unary" && (oc == "cancel" || oc == "deadline" || oc == "precancel") {
		// whatever the client still tells the server about a unary call its caller gave up on gets the time
		// to arrive: the server must not take it for ANOTHER request (one RPC: one pass through the chain,
		// one Begin / End per stats handler)
		time.Sleep(40 * time.Millisecond)
	}
	rig.Close()
	// server side End is emitted before Serve returns for streams; unary workers may lag: wait likewise
	for _, s := range srecs {
		for time.Now().Before(deadline) {
			done := true
			for _, evs := range s.ByTag() {
				if len(evs) > 0 && evs[len(evs)-1].Kind != "End" {
					done = false
				}
			}
			if done {
				break
			}
			time.Sleep(time.Millisecond)
		}
	}
	r.Eval(fmt.Sprintf("stats/%d/%s/%s", nh, oc, kind), true)
	r.Count("stats." + oc)
	check := func(side string, recs []*Recorder, wantSuccess *bool) {
		for _, rec := range recs {
			byTag := rec.ByTag()
			if evs, ok := byTag[0]; ok {
				r.Violate("stats.untagged", "ops", side+": event delivered with a context that TagRPC did not return", in, kindsOf(evs), nil)
			}
			if len(byTag) > 1 {
				r.Violate("stats.tags", "ops", side+": more than one TagRPC for one RPC", in, len(byTag), 1)
			}
			for _, evs := range byTag {
				ks := kindsOf(evs)
				exp := "ok:nil"
				if wantSuccess != nil && !*wantSuccess {
					exp = "ok:err"
				}
				if wantSuccess != nil {
					r.Case("statshape", "1|"+ks, exp)
				} else {
					// server side of a cancelled/expired/failed call: shape only
					got := "ok:nil"
					for _, e := range evs {
						if e.Kind == "End" && e.HasErr {
							got = "ok:err"
						}
					}
					r.Case("statshape", "1|"+ks, got)
				}
				if evs[0].Kind != "Begin" {
					r.Violate("stats.begin", "ops", side+": Begin is not the first event", in, ks, nil)
				}
				nb, ne := 0, 0
				for _, e := range evs {
					if e.Kind == "Begin" {
						nb++
					}
					if e.Kind == "End" {
						ne++
						if wantSuccess != nil && e.HasErr == *wantSuccess {
							r.Violate("stats.enderr", "ops", side+": End.Error must be nil exactly when the RPC succeeded", in, ks, fmt.Sprint("success=", *wantSuccess))
						}
					}
				}
				if nb != 1 || ne != 1 {
					r.Violate("stats.once", "ops", side+": exactly one Begin and one End per RPC", in, ks, nil)
				}
			}
			// connection events
			cb, ce := 0, 0
			for _, e := range rec.Events() {
				if e.Kind == "ConnBegin" {
					cb++
				}
				if e.Kind == "ConnEnd" {
					ce++
				}
			}
			if cb != 1 || ce != 1 {
				r.Violate("stats.conn", "ops", side+": exactly one ConnBegin and one ConnEnd per connection", in, fmt.Sprintf("begin=%d end=%d", cb, ce), nil)
			}
		}
	}
	check("client", crecs, &success)
	var srvSuccess *bool
	if oc == "ok" || oc == "handler-error" || oc == "ok-coded-error" {
		srvSuccess = &success
	}
	if oc != "failed-open" {
		check("server", srecs, srvSuccess)
	}
	_ = stats.Begin{}
}
