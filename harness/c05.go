package main

import (
	"bytes"
	"context"
	"crypto/sha256"
	"fmt"
	"io"
	"math/rand"
	"strings"
	"sync"
	"time"

	goat "github.com/avos-io/goat"
	"github.com/avos-io/goat/gen/goatorepo"
	"google.golang.org/grpc"
	"google.golang.org/grpc/codes"
	"google.golang.org/grpc/metadata"
	"google.golang.org/grpc/status"
	"google.golang.org/protobuf/types/known/wrapperspb"
)

func init() { register("C05", runC05) }

// C05 — multiplexed calls are isolated: unique ids, envelopes reach only their owner.
//
//   perm     (a) every interleaving of the response envelope sequences of k outstanding calls (and of stray
//            envelopes for an unknown id) is fed to the real client through a scripted transport; each call
//            must have observed exactly its own envelopes, in order; one `cliseq` lock-step case per order.
//   alloc    (b) callers released from a barrier each start a call; ids on the wire are pairwise distinct and
//            every envelope that can be attributed to a call carries that call's id (idsDistinct / ownerOnly).
//   history  (b) the same monitors over one connection's history of sequential and concurrent calls.
//   server   (c) concurrent streams and unary calls: every handler sees only its own caller's messages, every
//            caller only its own handler's header, messages, trailer and status.

func runC05(r *Run) {
	if r.Want("perm") {
		c05Perm(r)
	}
	// a violation in one family ends the run: the later families would only pay hang timeouts
	if r.Want("backlog") && r.NumViolations() == 0 {
		c05Backlog(r)
	}
	if r.NumViolations() == 0 {
		c05LongBacklog(r)
	}
	if r.NumViolations() == 0 {
		c05TrailerHeaders(r)
	}
	if r.NumViolations() == 0 {
		c05SlowHandler(r)
	}
	if r.NumViolations() == 0 {
		c05SharedMD(r)
	}
	if r.NumViolations() == 0 {
		c05UnaryTrailerOwner(r)
	}
	// concurrent calls whose envelopes are large enough to stay in the transport's hands for a while,
	// over the websocket (c01c.go): no caller is handed bytes of another call
	if r.NumViolations() == 0 {
		c01WebsocketWith(r, 8, 512*1024, 1024*1024)
	}
	if r.NumViolations() == 0 {
		hooks.Reset(true)
		c05IdsAfterReadFailure(r)
		hooks.Reset(false)
	}
	// the per-call order of envelopes also holds for calls relayed by a proxy (c02c.go)
	if r.NumViolations() == 0 {
		c02ViaProxy(r)
	}
	// concurrent unary calls with payloads up to 64 KiB and forced completion orders of the worker pool
	// (the C01 pairing rounds): no caller may be handed bytes of another call's reply
	if r.Want("pairing") && r.NumViolations() == 0 {
		rng := r.Rand("c05.pairing")
		for _, serialise := range []bool{true, false} {
			net := c01Direct(serialise)
			for round, rounds := 0, r.Scale(12, 80); round < rounds; round++ {
				if !c01Round(r, net, []int{8, 16}[round%2], round, rng) {
					break
				}
			}
			net.close()
		}
	}
	if r.Want("alloc") && r.NumViolations() == 0 {
		c05Alloc(r)
	}
	if r.Want("history") && r.NumViolations() == 0 {
		c05History(r)
	}
	if r.Want("server") && r.NumViolations() == 0 {
		c05Server(r)
	}
}

// ---------------------------------------------------------------- (a) exhaustive interleavings

type c05Env struct {
	respEnv
	who string // which call the envelope belongs to: a (unary), b, c (streams), x (nobody)
	seq int    // position in its call's own sequence
}

func c05Body(who string, seq int) []byte { return []byte(fmt.Sprintf("%s%d", who, seq)) }

func (e c05Env) rpc(id uint64) *Rpc {
	re := e.respEnv
	re.ID = id
	r := re.rpc()
	if r.Header != nil && e.Meta == 1 {
		r.Header.Headers = []*goatorepo.KeyValue{{Key: "who", Value: e.who}}
	}
	if r.Body != nil {
		b, _ := goat_marshal(&wrapperspb.BytesValue{Value: c05Body(e.who, e.seq)})
		r.Body = &goatorepo.Body{Data: b}
	}
	if r.Status != nil {
		r.Status.Message = "m-" + e.who
	}
	if r.Trailer != nil {
		r.Trailer.Metadata = []*goatorepo.KeyValue{{Key: "t", Value: e.who}}
	}
	return r
}

func c05Seq(who string, shapes ...respEnv) []c05Env {
	out := make([]c05Env, len(shapes))
	for i, s := range shapes {
		out[i] = c05Env{s, who, i}
	}
	return out
}

var (
	c05HdrOnly   = respEnv{Hdr: true, Meta: 1, Status: -1}
	c05BodyEnv   = respEnv{Hdr: true, Status: -1, Body: true}
	c05OKTrailer = respEnv{Hdr: true, Status: 0, Trailer: 1}
	c05ErrTrail  = respEnv{Hdr: true, Status: 5, Trailer: 1}
	c05ResetEnv  = respEnv{Hdr: true, Status: -1, Trailer: 1, Reset: true}
)

func c05Unary(variant int) []c05Env {
	switch variant {
	case 1:
		return c05Seq("a", respEnv{Hdr: true, Status: 0, Body: true, Trailer: 1}) // explicit OK status with the body
	case 2:
		return c05Seq("a", c05ErrTrail) // error reply
	}
	return c05Seq("a", respEnv{Hdr: true, Status: -1, Body: true, Trailer: 1}) // the reply as the server writes it
}

// c05Stream: header-only, n bodies, terminal (0 OK trailer, 1 error trailer, 2 reset).
func c05Stream(who string, bodies, term int) []c05Env {
	sh := []respEnv{c05HdrOnly}
	for i := 0; i < bodies; i++ {
		sh = append(sh, c05BodyEnv)
	}
	sh = append(sh, []respEnv{c05OKTrailer, c05ErrTrail, c05ResetEnv}[term])
	return c05Seq(who, sh...)
}

func c05Stray(n int) []c05Env {
	return c05Seq("x", c05BodyEnv, c05OKTrailer)[:n]
}

// c05Interleavings calls f with every interleaving (multiset permutation) of the sequences.
func c05Interleavings(seqs [][]c05Env, f func([]c05Env) bool) bool {
	total := 0
	for _, s := range seqs {
		total += len(s)
	}
	pos := make([]int, len(seqs))
	cur := make([]c05Env, 0, total)
	var rec func() bool
	rec = func() bool {
		if len(cur) == total {
			return f(append([]c05Env(nil), cur...))
		}
		for i, s := range seqs {
			if pos[i] < len(s) {
				cur = append(cur, s[pos[i]])
				pos[i]++
				ok := rec()
				pos[i]--
				cur = cur[:len(cur)-1]
				if !ok {
					return false
				}
			}
		}
		return true
	}
	return rec()
}

type c05StreamRes struct {
	msgs    [][]byte
	err     error
	hdr     metadata.MD
	hdrErr  error
	trailer metadata.MD
}

// c05One runs one interleaving: a unary call (a), a stream (b) and optionally a second stream (c) are
// outstanding on one connection; the envelopes are injected in the given order.
func c05One(r *Run, order []c05Env, withC, withStats bool) bool {
	sc := NewScript(0)
	sc.Out = make(chan *Rpc, 64)
	var opts []goat.DialOption
	if withStats {
		opts = append(opts, goat.WithStatsHandler(NewRecorder("c")))
	}
	cc := goat.NewClientConn(sc, "c", "s", opts...)
	defer sc.FailRead(io.ErrUnexpectedEOF)

	ids := map[string]uint64{"x": 7}
	takeOut := func(what string) (uint64, bool) {
		select {
		case e := <-sc.Out:
			return e.Id, true
		case <-time.After(hangTimeout):
			r.Violate("perm.start", "ops", what+" was not written", nil, goroutineDump(), nil)
			return 0, false
		}
	}
	type ares struct {
		out []byte
		err error
	}
	aDone := make(chan ares, 1)
	go func() {
		out, err := callUnary(context.Background(), cc, []byte("q"))
		aDone <- ares{out, err}
	}()
	var ok bool
	if ids["a"], ok = takeOut("the unary request"); !ok {
		return false
	}
	open := func(who string) (chan c05StreamRes, bool) {
		cs, err := cc.NewStream(context.Background(), descBidi, mBidi)
		if err != nil {
			r.Violate("perm.start", "ops", "stream could not be opened", nil, err.Error(), nil)
			return nil, false
		}
		if ids[who], ok = takeOut("the stream's opening envelope"); !ok {
			return nil, false
		}
		ch := make(chan c05StreamRes, 1)
		go func() {
			var res c05StreamRes
			for {
				b, err := recvB(cs)
				if err != nil {
					res.err = err
					break
				}
				res.msgs = append(res.msgs, b)
			}
			res.hdr, res.hdrErr = cs.Header()
			res.trailer = cs.Trailer()
			ch <- res
		}()
		return ch, true
	}
	bDone, ok := open("b")
	if !ok {
		return false
	}
	var cDone chan c05StreamRes
	if withC {
		if cDone, ok = open("c"); !ok {
			return false
		}
	}
	// the model addresses the calls as ids 1 and 2 (stream c is 3, strays are 7)
	if ids["a"] == ids["b"] || (withC && (ids["c"] == ids["a"] || ids["c"] == ids["b"])) {
		r.Violate("perm.ids", "ops", "two outstanding calls were given the same id", nil, fmt.Sprint(ids), nil)
		return false
	}
	for ids["x"] == ids["a"] || ids["x"] == ids["b"] || ids["x"] == ids["c"] {
		ids["x"] += 100
	}
	parts := make([]string, len(order))
	for i, e := range order {
		re := e.respEnv
		re.ID = ids[e.who]
		parts[i] = re.input()
	}
	input := fmt.Sprintf("%d|%s", b2i(withStats), strings.Join(parts, ";"))
	r.Progress("perm", input)

	for k, e := range order {
		select {
		case sc.In <- e.rpc(ids[e.who]):
		case <-time.After(hangTimeout):
			r.Violate("perm.stall", "ops", "the client stopped reading its transport", input, fmt.Sprintf("envelope %d", k), goroutineDump())
			return false
		}
	}
	if !sc.WaitReads(len(order)+1, hangTimeout) {
		r.Violate("perm.stall", "ops", "the client read loop did not come back for more input", input, nil, goroutineDump())
		return false
	}
	// every call has been sent its complete response: each must finish on its own
	var a ares
	var b, c c05StreamRes
	finished := map[string]bool{"c": !withC}
	timeout := time.After(hangTimeout)
	for timedOut := false; !timedOut && !(finished["a"] && finished["b"] && finished["c"]); {
		select {
		case a = <-aDone:
			finished["a"] = true
		case b = <-bDone:
			finished["b"] = true
		case c = <-cDone:
			finished["c"] = true
		case <-timeout:
			timedOut = true
			var missing []string
			for _, w := range []string{"a", "b", "c"} {
				if !finished[w] {
					missing = append(missing, w)
				}
			}
			r.Violate("perm.undelivered", "ops", "a call did not finish although all of its envelopes were delivered to the connection", input,
				map[string]any{"unfinished": missing, "goroutines": goroutineDump()}, nil)
		}
	}
	allFinished := finished["a"] && finished["b"] && finished["c"]

	// what each call must have observed: exactly its own envelopes, in order
	own := func(who string) (bodies [][]byte, term respEnv) {
		for _, e := range order {
			if e.who == who {
				if e.Body && e.Trailer == 0 {
					bodies = append(bodies, c05Body(e.who, e.seq))
				}
				term = e.respEnv
			}
		}
		return
	}
	var aEnv c05Env
	for _, e := range order {
		if e.who == "a" {
			aEnv = e
		}
	}
	if !finished["a"] {
		// reported above
	} else if aEnv.Status > 0 {
		if a.err == nil || status.Code(a.err) != codes.Code(aEnv.Status) || status.Convert(a.err).Message() != "m-a" {
			r.Violate("perm.owner", "ops", "the unary call did not observe its own status", input, fmt.Sprint(a.out, a.err), "code 5 m-a")
		}
	} else if a.err != nil || !bytes.Equal(a.out, c05Body("a", aEnv.seq)) {
		r.Violate("perm.owner", "ops", "the unary call did not observe its own reply", input, fmt.Sprintf("%q %v", a.out, a.err), string(c05Body("a", aEnv.seq)))
	}
	checkStreamRes := func(who string, res c05StreamRes) string {
		bodies, term := own(who)
		wantTerm := "eof"
		switch {
		case term.Reset:
			wantTerm = "unavailable"
		case term.Status > 0:
			wantTerm = fmt.Sprintf("status%d", term.Status)
		}
		got := termOf(res.err)
		if !seqEqual(res.msgs, bodies) {
			r.Violate("perm.owner", "ops", "stream "+who+" did not receive exactly its own messages in order", input, seqStr(res.msgs), seqStr(bodies))
		}
		if got != wantTerm || (term.Status > 0 && status.Convert(res.err).Message() != "m-"+who) {
			r.Violate("perm.owner", "ops", "stream "+who+" did not end with its own status", input, fmt.Sprint(res.err), wantTerm+" m-"+who)
		}
		if res.hdrErr != nil || len(res.hdr.Get("who")) != 1 || res.hdr.Get("who")[0] != who {
			r.Violate("perm.owner", "ops", "stream "+who+" did not observe its own header", input, fmt.Sprint(res.hdr, res.hdrErr), who)
		}
		if len(res.trailer.Get("t")) != 1 || res.trailer.Get("t")[0] != who {
			r.Violate("perm.owner", "ops", "stream "+who+" did not observe its own trailer", input, fmt.Sprint(res.trailer), who)
		}
		return got
	}
	bTerm := ""
	if finished["b"] {
		bTerm = checkStreamRes("b", b)
	}
	if withC && finished["c"] {
		checkStreamRes("c", c)
	}
	if !allFinished {
		return false
	}
	// the caller's verdicts as the model computes them from the same sequence
	aObs := "ok"
	if a.err != nil {
		aObs = fmt.Sprintf("err%d", status.Code(a.err))
	}
	obs := fmt.Sprintf("A=%s|B=%d;%s|H=%s", aObs, len(b.msgs), bTerm, map[bool]string{true: "err", false: "ok"}[b.hdrErr != nil])
	r.Case("cliseq", input, obs)
	r.CountN("perm.envelopes", len(order))
	return r.NumViolations() <= 4
}

func c05Perm(r *Run) {
	type shape struct {
		u, bodies, term, stray int
		c                      bool
	}
	var shapes []shape
	maxB, maxS := 2, 1
	terms := []int{0, 1}
	if r.Thorough() {
		maxB, maxS = 3, 2
		terms = []int{0, 1, 2}
	}
	for u := 0; u < 3; u++ {
		for b := 1; b <= maxB; b++ {
			for _, t := range terms {
				for s := 0; s <= maxS; s++ {
					shapes = append(shapes, shape{u, b, t, s, false})
				}
			}
		}
	}
	if !r.Thorough() {
		// the largest shape once, and a reset
		shapes = append(shapes, shape{0, 3, 0, 2, false}, shape{0, 1, 2, 1, false}, shape{0, 1, 0, 0, true})
	} else {
		// k = 3 outstanding calls: unary, 3-body stream, second stream, two strays (27 720 orders)
		shapes = append(shapes, shape{0, 1, 0, 0, true}, shape{0, 3, 0, 2, true}, shape{2, 2, 1, 1, true})
	}
	n := 0
	for _, sh := range shapes {
		seqs := [][]c05Env{c05Unary(sh.u), c05Stream("b", sh.bodies, sh.term)}
		if sh.c {
			seqs = append(seqs, c05Stream("c", 1, (sh.term+1)%2))
		}
		if sh.stray > 0 {
			seqs = append(seqs, c05Stray(sh.stray))
		}
		cnt := 0
		ok := c05Interleavings(seqs, func(order []c05Env) bool {
			cnt++
			n++
			return c05One(r, order, sh.c, n%2 == 1)
		})
		r.CountN(fmt.Sprintf("perm.orders.bodies%d.stray%d.calls%d", sh.bodies, sh.stray, 2+b2i(sh.c)), cnt)
		if !ok {
			return
		}
	}
	r.CountN("perm.orders.total", n)
}

// ---------------------------------------------------------------- (b) id allocation, wire monitors

// c05Tagged extracts the call tag from a payload the harness produced ("<tag>/c<i>" or "<tag>|...").
func c05TagOf(p []byte) string {
	if i := bytes.IndexAny(p, "/|"); i > 0 && p[0] == 'T' {
		return string(p[:i])
	}
	return ""
}

func c05Payload(e *Rpc) []byte {
	if e.Body == nil {
		return nil
	}
	m := new(wrapperspb.BytesValue)
	if protoUnmarshal(e.Body.Data, m) != nil {
		return nil
	}
	return m.Value
}

// c05UnF inverts unaryF when v is in its image.
func c05UnF(v []byte) ([]byte, bool) {
	if len(v) < 8 {
		return nil, false
	}
	req := make([]byte, 0, len(v)-8)
	for i := len(v) - 1; i >= 8; i-- {
		req = append(req, v[i])
	}
	h := sha256.Sum256(req)
	return req, bytes.Equal(h[:8], v[:8])
}

type c05WireMon struct {
	tagID  map[string]uint64
	idTag  map[uint64]string
	nEnv   int
	nAttr  int
	issued map[string]bool
}

func newC05WireMon() *c05WireMon {
	return &c05WireMon{tagID: map[string]uint64{}, idTag: map[uint64]string{}, issued: map[string]bool{}}
}

// feed applies idsDistinct and ownerOnly to the envelopes of one connection, in wire order.
func (m *c05WireMon) feed(r *Run, scen string, evs []WireEv, in any) {
	xtag := func(e *Rpc) string {
		for _, kv := range e.GetHeader().GetHeaders() {
			if kv.Key == "x-tag" {
				return kv.Value
			}
		}
		return ""
	}
	// The log is ordered per direction only; a response can be logged before the request it answers.
	// The responses are therefore checked in a second pass, after all opening envelopes of the slice.
	for pass := 0; pass < 2; pass++ {
		for _, e := range evs {
			if (e.Dir == "c2s") != (pass == 0) {
				continue
			}
			m.nEnv++
			id := e.Rpc.Id
			if e.Dir == "c2s" {
				tag := xtag(e.Rpc)
				if tag != "" {
					// the first envelope of a call
					if prev, ok := m.idTag[id]; ok && prev != tag {
						r.Violate(scen+".idsDistinct", "history", "two calls of one connection put the same id on the wire", in, map[string]any{"id": id, "calls": []string{prev, tag}}, nil)
						return
					}
					if prev, ok := m.tagID[tag]; ok && prev != id {
						r.Violate(scen+".ownerOnly", "history", "one call opened with two ids", in, map[string]any{"call": tag, "ids": []uint64{prev, id}}, nil)
						return
					}
					m.tagID[tag] = id
					m.idTag[id] = tag
					m.nAttr++
				}
				if t := c05TagOf(c05Payload(e.Rpc)); t != "" && m.issued[t] {
					m.nAttr++
					if want, ok := m.tagID[t]; !ok || want != id {
						r.Violate(scen+".ownerOnly", "history", "a message of one call was written with another id", in, map[string]any{"call": t, "id": id, "call_id": want}, nil)
						return
					}
				} else if tag == "" {
					if _, ok := m.idTag[id]; !ok {
						r.Violate(scen+".ownerOnly", "history", "the client wrote an envelope with an id no call had opened", in, map[string]any{"id": id, "envelope": shapeOf(e.Rpc)}, nil)
						return
					}
				}
				continue
			}
			// s2c: attribute by content (an echoed message, or unaryF of a tagged request)
			p := c05Payload(e.Rpc)
			t := c05TagOf(p)
			if t == "" {
				if req, ok := c05UnF(p); ok {
					t = c05TagOf(req)
				}
			}
			if t != "" && m.issued[t] {
				m.nAttr++
				if want, ok := m.tagID[t]; !ok || want != id {
					r.Violate(scen+".ownerOnly", "history", "a response belonging to one call was written with another call's id", in, map[string]any{"call": t, "id": id, "call_id": want}, nil)
					return
				}
			}
		}
	}
}

type c05Call struct {
	tag    string
	kind   int // 0 unary, 1 bidi echo, 2 server stream, 3 client stream
	nSend  int
	client string
}

func c05GenCall(rng *rand.Rand, tag string) c05Call {
	return c05Call{tag: tag, kind: rng.Intn(4), nSend: 1 + rng.Intn(3), client: []string{"sendall", "pingpong", "conc"}[rng.Intn(3)]}
}

// c05Run executes one call and checks that the caller saw its own data only.
func c05Run(r *Run, scen string, cc grpc.ClientConnInterface, c c05Call, in any) {
	switch c.kind {
	case 0:
		req := []byte(c.tag + "|" + strings.Repeat("u", c.nSend))
		ctx := metadata.AppendToOutgoingContext(context.Background(), "x-tag", c.tag)
		out, err := callUnary(ctx, cc, req)
		if err != nil || !bytes.Equal(out, unaryF(req)) {
			r.Violate(scen+".ownerOnly.caller", "history", "a unary caller did not get the reply to its own request", in, map[string]any{"call": c.tag, "reply": clip(hx(out), 80), "err": fmt.Sprint(err)}, nil)
		}
	default:
		method := []string{"", mBidi, mSrvStream, mCliStream}[c.kind]
		prog := []string{"", "echo", "burst:2", "aftereof:1"}[c.kind]
		o := runStreamCall(context.Background(), cc, method, c.tag, prog, c.client, c.nSend, nil)
		bad := o.OpenErr != "" || o.Terminal != "EOF"
		switch c.kind {
		case 1:
			bad = bad || !seqEqual(o.Received, o.Sent)
		case 2:
			bad = bad || !seqEqual(o.Received, [][]byte{srvMsg(0), srvMsg(1)})
		case 3:
			bad = bad || !seqEqual(o.Received, [][]byte{srvMsg(0)})
		}
		if bad {
			r.Violate(scen+".ownerOnly.caller", "history", "a streaming caller did not observe exactly its own handler's messages and end of stream", in,
				map[string]any{"call": c.tag, "method": method, "open": o.OpenErr, "received": seqStr(o.Received), "terminal": o.Terminal, "sent": seqStr(o.Sent)}, nil)
		}
	}
}

// c05Burst releases the calls from a barrier and waits for them.
func c05Burst(r *Run, scen string, cc grpc.ClientConnInterface, calls []c05Call, in any) bool {
	start := make(chan struct{})
	var wg sync.WaitGroup
	for _, c := range calls {
		wg.Add(1)
		go func(c c05Call) {
			defer wg.Done()
			<-start
			c05Run(r, scen, cc, c, in)
		}(c)
	}
	close(start)
	if !within(hangTimeout, wg.Wait) {
		r.Violate(scen+".hang", "history", "calls did not finish", in, goroutineDump(), nil)
		return false
	}
	return true
}

func c05Alloc(r *Run) {
	rng := r.Rand("c05.alloc")
	g := r.Scale(32, 64)
	conns := r.Scale(6, 40)
	rounds := r.Scale(20, 25)
	for c := 0; c < conns; c++ {
		serialise := c%2 == 0
		rig := NewRig(RigOpt{Serialise: serialise})
		InstallPrograms(rig.Impl, NewHandlerLog(), nil)
		mon := newC05WireMon()
		seen := 0
		for round := 0; round < rounds; round++ {
			in := map[string]any{"connection": c, "round": round, "callers": g, "serialise": serialise, "seed": r.Seed}
			r.Progress("alloc", in)
			calls := make([]c05Call, g)
			for i := range calls {
				calls[i] = c05GenCall(rng, fmt.Sprintf("T%d.%d.%d", c, round, i))
				mon.issued[calls[i].tag] = true
				r.Count(fmt.Sprintf("alloc.kind%d", calls[i].kind))
			}
			finished := c05Burst(r, "alloc", rig.CC, calls, in)
			evs := rig.Wire.Snapshot()
			mon.feed(r, "alloc", evs[seen:], in)
			seen = len(evs)
			if !finished {
				rig.Close()
				return
			}
			if len(mon.tagID) != (round+1)*g {
				r.Violate("alloc.idsDistinct", "history", "the number of distinct opening envelopes differs from the number of calls", in, len(mon.tagID), (round+1)*g)
			}
			r.Eval(fmt.Sprintf("alloc/%d/%d", c, round), true)
			if r.NumViolations() > 4 {
				rig.Close()
				return
			}
		}
		// envelopes written after the last caller returned (late trailers)
		r.CountN("alloc.calls", rounds*g)
		r.CountN("alloc.envelopes", mon.nEnv)
		r.CountN("alloc.envelopes.attributed", mon.nAttr)
		rig.Close()
	}
}

func c05History(r *Run) {
	rng := r.Rand("c05.history")
	target := r.Scale(5000, 100000)
	rig := NewRig(RigOpt{Serialise: true, Cap: 8192})
	defer rig.Close()
	InstallPrograms(rig.Impl, NewHandlerLog(), nil)
	mon := newC05WireMon()
	seen, n, phase := 0, 0, 0
	for n < target && r.NumViolations() <= 4 {
		phase++
		in := map[string]any{"phase": phase, "calls_before": n, "seed": r.Seed}
		r.Progress("history", in)
		if phase%50 == 0 {
			InstallPrograms(rig.Impl, NewHandlerLog(), nil) // keep the handler log small
		}
		if phase%2 == 1 {
			// sequential stretch
			k := 1 + rng.Intn(20)
			for i := 0; i < k; i++ {
				c := c05GenCall(rng, fmt.Sprintf("T%d.s%d", phase, i))
				mon.issued[c.tag] = true
				c05Run(r, "history", rig.CC, c, in)
			}
			n += k
			r.CountN("history.sequential", k)
		} else {
			k := 2 + rng.Intn(63)
			calls := make([]c05Call, k)
			for i := range calls {
				calls[i] = c05GenCall(rng, fmt.Sprintf("T%d.b%d", phase, i))
				mon.issued[calls[i].tag] = true
			}
			if !c05Burst(r, "history", rig.CC, calls, in) {
				mon.feed(r, "history", rig.Wire.Snapshot()[seen:], in)
				return
			}
			n += k
			r.CountN("history.concurrent", k)
		}
		evs := rig.Wire.Snapshot()
		mon.feed(r, "history", evs[seen:], in)
		seen = len(evs)
		if len(mon.tagID) != n {
			r.Violate("history.idsDistinct", "history", "the number of distinct opening envelopes differs from the number of calls", in, len(mon.tagID), n)
			return
		}
	}
	r.Eval("history", true)
	r.CountN("history.envelopes", mon.nEnv)
	r.CountN("history.envelopes.attributed", mon.nAttr)
	r.CountN("history.ids", len(mon.idTag))
}

// ---------------------------------------------------------------- (c) server side

type c05SrvLog struct {
	mu  sync.Mutex
	bad []string
	n   int
}

func (l *c05SrvLog) note(format string, a ...any) {
	l.mu.Lock()
	if len(l.bad) < 8 {
		l.bad = append(l.bad, fmt.Sprintf(format, a...))
	}
	l.mu.Unlock()
}

func c05StatusOf(tag string) error {
	h := 0
	for _, c := range tag {
		h = h*31 + int(c)
	}
	if h%3 == 0 {
		return nil
	}
	return status.Error(codes.Code(3+h%12), "st-"+tag)
}

// c05Install: every handler marks what it produces with its call's tag and checks what it receives.
func c05Install(impl *Impl, l *c05SrvLog) {
	impl.SetUnary(func(ctx context.Context, req []byte) ([]byte, error) {
		tag := mdGet(ctx, "x-tag")
		l.mu.Lock()
		l.n++
		l.mu.Unlock()
		if !bytes.HasPrefix(req, []byte(tag+"|")) {
			l.note("the unary handler of call %s received %q", tag, clip(string(req), 40))
		}
		return unaryF(req), nil
	})
	impl.SetStream(func(method string, ss grpc.ServerStream) error {
		tag := mdGet(ss.Context(), "x-tag")
		if err := ss.SetHeader(metadata.Pairs("who", tag)); err != nil {
			return err
		}
		for i := 0; ; i++ {
			b, err := recvB(ss)
			if err == io.EOF {
				break
			}
			if err != nil {
				return err
			}
			l.mu.Lock()
			l.n++
			l.mu.Unlock()
			if !bytes.Equal(b, cliMsg(tag, i)) {
				l.note("the handler of stream %s received %q as its message %d", tag, clip(string(b), 40), i)
			}
			if err := sendB(ss, b); err != nil {
				return err
			}
		}
		ss.SetTrailer(metadata.Pairs("who", tag))
		return c05StatusOf(tag)
	})
}

func c05Server(r *Run) {
	rng := r.Rand("c05.server")
	rounds := r.Scale(60, 1500)
	for _, serialise := range []bool{true, false} {
		rig := NewRig(RigOpt{Serialise: serialise})
		slog := &c05SrvLog{}
		c05Install(rig.Impl, slog)
		for round := 0; round < rounds && r.NumViolations() <= 4; round++ {
			nStreams := 2 + rng.Intn(5)
			nUnary := rng.Intn(9)
			in := map[string]any{"round": round, "streams": nStreams, "unary": nUnary, "serialise": serialise, "seed": r.Seed}
			r.Progress("server", in)
			start := make(chan struct{})
			var wg sync.WaitGroup
			for i := 0; i < nStreams; i++ {
				tag := fmt.Sprintf("T%d.%d", round, i)
				nSend := 1 + rng.Intn(12)
				conc := rng.Intn(2) == 0
				wg.Add(1)
				go func() {
					defer wg.Done()
					<-start
					c05StreamCaller(r, rig.CC, tag, nSend, conc, in)
				}()
			}
			for i := 0; i < nUnary; i++ {
				tag := fmt.Sprintf("T%d.u%d", round, i)
				wg.Add(1)
				go func() {
					defer wg.Done()
					<-start
					req := []byte(tag + "|payload")
					out, err := callUnary(metadata.AppendToOutgoingContext(context.Background(), "x-tag", tag), rig.CC, req)
					if err != nil || !bytes.Equal(out, unaryF(req)) {
						r.Violate("server.ownerOnly.caller", "schedule", "a unary caller did not get the reply to its own request", in, map[string]any{"call": tag, "reply": hx(out), "err": fmt.Sprint(err)}, nil)
					}
				}()
			}
			close(start)
			if !within(hangTimeout, wg.Wait) {
				r.Violate("server.hang", "schedule", "calls did not finish", in, goroutineDump(), nil)
				break
			}
			slog.mu.Lock()
			bad := append([]string(nil), slog.bad...)
			slog.mu.Unlock()
			if len(bad) > 0 {
				r.Violate("server.ownerOnly.handler", "schedule", "a handler received a message that its own caller did not send, or out of order", in, bad, nil)
				break
			}
			r.Eval(fmt.Sprintf("server/%v/%d", serialise, round), true)
			r.CountN("server.streams", nStreams)
			r.CountN("server.unary", nUnary)
		}
		slog.mu.Lock()
		r.CountN("server.messages.checked", slog.n)
		slog.mu.Unlock()
		rig.Close()
	}
}

// c05StreamCaller: a bidirectional echo call; the caller checks header, messages, trailer and status.
func c05StreamCaller(r *Run, cc grpc.ClientConnInterface, tag string, nSend int, conc bool, in any) {
	fail := func(what string, got, want any) {
		r.Violate("server.ownerOnly.caller", "schedule", "stream "+tag+": "+what, in, got, want)
	}
	ctx := metadata.AppendToOutgoingContext(context.Background(), "x-tag", tag)
	cs, err := cc.NewStream(ctx, descBidi, mBidi)
	if err != nil {
		fail("could not be opened", err.Error(), nil)
		return
	}
	var got [][]byte
	var term error
	recvAll := func() {
		for {
			b, err := recvB(cs)
			if err != nil {
				term = err
				return
			}
			got = append(got, b)
		}
	}
	var want [][]byte
	for i := 0; i < nSend; i++ {
		want = append(want, cliMsg(tag, i))
	}
	if conc {
		var wg sync.WaitGroup
		wg.Add(1)
		go func() {
			defer wg.Done()
			for _, m := range want {
				if sendB(cs, m) != nil {
					return
				}
			}
			cs.CloseSend()
		}()
		recvAll()
		wg.Wait()
	} else {
		for _, m := range want {
			if err := sendB(cs, m); err != nil {
				fail("send failed", err.Error(), nil)
				break
			}
			b, err := recvB(cs)
			if err != nil {
				term = err
				break
			}
			got = append(got, b)
		}
		if term == nil {
			cs.CloseSend()
			recvAll()
		}
	}
	if !seqEqual(got, want) {
		fail("did not receive exactly its own handler's messages in order", seqStr(got), seqStr(want))
	}
	if wantSt := c05StatusOf(tag); wantSt == nil {
		if term != io.EOF {
			fail("did not end with its own handler's status", fmt.Sprint(term), "EOF")
		}
	} else if status.Code(term) != status.Code(wantSt) || status.Convert(term).Message() != "st-"+tag {
		fail("did not end with its own handler's status", fmt.Sprint(term), wantSt.Error())
	}
	if h, err := cs.Header(); err != nil || len(h.Get("who")) != 1 || h.Get("who")[0] != tag {
		fail("did not observe its own handler's header", fmt.Sprint(h, err), tag)
	}
	if t := cs.Trailer(); len(t.Get("who")) != 1 || t.Get("who")[0] != tag {
		fail("did not observe its own handler's trailer", fmt.Sprint(t), tag)
	}
}
