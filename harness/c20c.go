package main

import (
	"context"
	"fmt"
	"io"
	"strings"
	"time"

	goat "github.com/avos-io/goat"
	"github.com/avos-io/goat/gen/goatorepo"
	"google.golang.org/grpc"
	"google.golang.org/grpc/codes"
	"google.golang.org/grpc/status"
)

// c20ServerReset: a stream the SERVER resets (the envelope goat's server writes for a body of a stream
// it does not know: reset + empty trailer, no status) is a failed RPC: the caller gets an error, and
// every client stats handler gets its one End with a non-nil error.
func c20ServerReset(r *Run) {
	if !r.Want("stats") {
		return
	}
	for nh := 1; nh <= 2; nh++ {
		for _, kind := range []string{mBidi, mSrvStream, mCliStream} {
			for _, withTrailer := range []bool{true, false} {
				var recs []*Recorder
				var dopts []goat.DialOption
				for i := 0; i < nh; i++ {
					c := NewRecorder(fmt.Sprint("c", i))
					recs = append(recs, c)
					dopts = append(dopts, goat.WithStatsHandler(c))
				}
				in := map[string]any{"handlers": nh, "outcome": "server-reset", "kind": kind, "reset_envelope_carries_empty_trailer": withTrailer}
				r.Progress("stats", in)
				sc := NewScript(16)
				cc := goat.NewClientConn(sc, "c", "srv", dopts...)
				ctx, cancel := context.WithTimeout(context.Background(), 2*hangTimeout)
				var term error
				ok := within(3*hangTimeout, func() {
					cs, err := cc.NewStream(ctx, descOf(kind), kind)
					if err != nil {
						term = err
						return
					}
					open := <-sc.Out
					sendB(cs, []byte("m"))
					rst := &Rpc{Id: open.Id, Header: &goatorepo.RequestHeader{Method: kind, Source: "srv", Destination: "c"}, Reset_: &goatorepo.Reset{Type: "RST_STREAM"}}
					if withTrailer {
						rst.Trailer = &goatorepo.Trailer{}
					}
					sc.In <- rst
					for {
						if _, e := recvB(cs); e != nil {
							term = e
							return
						}
					}
				})
				cancel()
				if !ok {
					r.Violate("stats.hang", "ops", "RPC did not finish", in, goroutineDump(), nil)
				}
				if term == nil || term == io.EOF {
					r.Violate("stats.reset.success", "ops", "a stream reset by the server was reported to the caller as completed", in, fmt.Sprint(term), "an error")
				}
				deadline := time.Now().Add(hangTimeout)
				for _, c := range recs {
					for time.Now().Before(deadline) {
						done := false
						for _, evs := range c.ByTag() {
							for _, e := range evs {
								if e.Kind == "End" {
									done = true
								}
							}
						}
						if done {
							break
						}
						time.Sleep(time.Millisecond)
					}
				}
				r.Eval(fmt.Sprintf("stats/%d/server-reset/%s/%v", nh, kind, withTrailer), true)
				r.Count("stats.server-reset")
				for _, rec := range recs {
					for _, evs := range rec.ByTag() {
						ks := kindsOf(evs)
						r.Case("statshape", "1|"+ks, "ok:err")
						ne := 0
						for _, e := range evs {
							if e.Kind == "End" {
								ne++
								if !e.HasErr {
									r.Violate("stats.enderr", "ops", "client: End.Error must be nil exactly when the RPC succeeded (the stream was reset by the server)", in, ks, "success=false")
								}
							}
						}
						if ne != 1 || evs[0].Kind != "Begin" {
							r.Violate("stats.once", "ops", "client: exactly one Begin (first) and one End per RPC", in, ks, nil)
						}
					}
				}
				sc.FailRead(io.ErrClosedPipe)
				cc.Close()
				settleGoroutines(0)
			}
		}
	}
}

// c20WrappedError: server interceptors (unary and stream, two stages each) that annotate the handler's
// error by wrapping it (fmt.Errorf("stage k: %w", err)). What leaves the chain still carries the
// handler's status: the caller of a unary call and of a stream observe its code.
func c20WrappedError(r *Run) {
	if !r.Want("chain") {
		return
	}
	var unary []grpc.UnaryServerInterceptor
	var stream []grpc.StreamServerInterceptor
	for k := 0; k < 2; k++ {
		k := k
		unary = append(unary, func(ctx context.Context, req any, info *grpc.UnaryServerInfo, next grpc.UnaryHandler) (any, error) {
			out, err := next(ctx, req)
			if err != nil {
				return nil, fmt.Errorf("stage %d: %w", k, err)
			}
			return out, nil
		})
		stream = append(stream, func(srv any, ss grpc.ServerStream, info *grpc.StreamServerInfo, next grpc.StreamHandler) error {
			if err := next(srv, ss); err != nil {
				return fmt.Errorf("stage %d: %w", k, err)
			}
			return nil
		})
	}
	rig := NewRig(RigOpt{Serialise: true, SrvOpts: []goat.ServerOption{goat.ChainUnaryInterceptor(unary...), goat.ChainStreamInterceptor(stream...)}})
	defer rig.Close()
	rig.Impl.SetUnary(func(ctx context.Context, req []byte) ([]byte, error) {
		return nil, status.Error(codes.PermissionDenied, "no")
	})
	rig.Impl.SetStream(func(m string, ss grpc.ServerStream) error {
		recvB(ss)
		return status.Error(codes.PermissionDenied, "no")
	})
	for _, kind := range []string{"unary", mBidi, mSrvStream, mCliStream} {
		in := map[string]any{"kind": kind, "interceptors": "two stages, each wraps the error it passes on", "handler": "PermissionDenied"}
		r.Progress("chain.wrapped", in)
		var err error
		ctx, cancel := context.WithTimeout(context.Background(), 2*hangTimeout)
		if kind == "unary" {
			_, err = callUnary(ctx, rig.CC, []byte("x"))
		} else if cs, e := rig.CC.NewStream(ctx, descOf(kind), kind); e != nil {
			err = e
		} else {
			sendB(cs, []byte("m"))
			cs.CloseSend()
			for {
				if _, e := recvB(cs); e != nil {
					err = e
					break
				}
			}
		}
		cancel()
		r.Eval("chain.wrapped/"+kind, true)
		r.Count("chain.wrapped")
		if status.Code(err) != codes.PermissionDenied {
			r.Violate("chain.wrapped", "ops", "the error the interceptor chain returned wraps the handler's status, but the caller did not observe its code", in, fmt.Sprint(err), "PermissionDenied")
		}
	}
}

// c20RefusedRequest: a request the SERVER refuses before any handler runs (request metadata that does
// not decode, under a lower-case and a mixed-case -bin key; unary and stream). Whatever the server's
// stats handlers are shown for such a call must still be balanced and truthful: an RPC that has a
// Begin has exactly one End, and that End carries an error because the peer was answered with a
// non-OK status / a reset. (No events at all is fine: the call never became an RPC.)
func c20RefusedRequest(r *Run) {
	if !r.Want("stats") {
		return
	}
	for nh := 1; nh <= 2; nh++ {
		for _, method := range []string{mUnary, mBidi} {
			for _, key := range []string{"k-bin", "K-Bin"} {
				var recs []*Recorder
				var sopts []goat.ServerOption
				for i := 0; i < nh; i++ {
					s := NewRecorder(fmt.Sprint("s", i))
					recs = append(recs, s)
					sopts = append(sopts, goat.StatsHandler(s))
				}
				in := map[string]any{"handlers": nh, "outcome": "refused: undecodable request metadata", "method": method, "key": key}
				r.Progress("stats", in)
				sc := NewScript(16)
				impl := &Impl{}
				srv := goat.NewServer("srv", sopts...)
				srv.RegisterService(&echoDesc, impl)
				ctx, cancel := context.WithCancel(context.Background())
				served := make(chan error, 1)
				go func() { served <- srv.Serve(ctx, sc) }()
				req := &Rpc{Id: 7, Header: &goatorepo.RequestHeader{Method: method, Source: "c", Destination: "srv",
					Headers: []*goatorepo.KeyValue{{Key: key, Value: "!!"}}}}
				if method == mUnary {
					req.Body = &goatorepo.Body{Data: []byte("p")}
				}
				sc.In <- req
				refused := false
				select {
				case e := <-sc.Out:
					refused = e.Id == 7 && (e.Reset_ != nil || (e.Status != nil && e.Status.Code != 0))
				case <-time.After(hangTimeout):
				}
				// a well-formed call afterwards is the barrier: its End is the last thing the server does for it
				sc.In <- &Rpc{Id: 9, Header: &goatorepo.RequestHeader{Method: mUnary, Source: "c", Destination: "srv"}, Body: &goatorepo.Body{Data: []byte("p")}}
				select {
				case <-sc.Out:
				case <-time.After(hangTimeout):
				}
				time.Sleep(5 * time.Millisecond)
				r.Eval(fmt.Sprintf("stats/%d/refused/%s/%s", nh, method, key), true)
				r.Count("stats.refused")
				if refused {
					for _, rec := range recs {
						for tag, evs := range rec.ByTag() {
							// the barrier call is an ordinary unary call: told apart by its payload events
							if len(evs) == 0 || rec.MethodOf(tag) != method || strings.Contains(kindsOf(evs), "InPayload") {
								continue
							}
							ks := kindsOf(evs)
							ne := 0
							for _, e := range evs {
								if e.Kind == "End" {
									ne++
									if !e.HasErr {
										r.Violate("stats.refused.enderr", "ops", "server: End.Error must be nil exactly when the RPC succeeded (the request was refused with a non-OK answer)", in, ks, "End with an error, or no events")
									}
								}
							}
							if ne != 1 || evs[0].Kind != "Begin" {
								r.Violate("stats.refused.once", "ops", "server: exactly one Begin (first) and one End per RPC", in, ks, nil)
							}
						}
					}
				}
				srv.Stop()
				cancel()
				sc.FailRead(io.ErrClosedPipe)
				within(hangTimeout, func() { <-served })
				settleGoroutines(0)
			}
		}
	}
}
