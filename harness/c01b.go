package main

import (
	"context"
	"fmt"
	"io"
	"strings"
	"sync"
	"sync/atomic"
	"time"

	goat "github.com/avos-io/goat"
	"google.golang.org/grpc"
	"google.golang.org/grpc/metadata"
	"google.golang.org/protobuf/types/known/wrapperspb"
)

// c01ProxyShared: the proxy topology WITHOUT a demultiplexer — several clients, one proxy, and the
// server serving the proxy's single connection directly, as the repository's own proxy tests do for
// unary traffic. Every client numbers its calls from 1, so ids of different clients coincide on the
// server's connection; a unary call must still get the reply to its own request. To make coincidences
// certain, the first client keeps `held` streams open (ids 1..held on its connection) for the whole
// life of the topology while the other clients' unary calls run through the same ids.
func c01ProxyShared(serialise bool, l int) *c01Net {
	const held = 48
	names := c01Names(l)
	impl := &Impl{}
	var entered atomic.Int64
	impl.SetStream(func(method string, ss grpc.ServerStream) error {
		entered.Add(1)
		<-ss.Context().Done()
		return ss.Context().Err()
	})
	srv := goat.NewServer("srv")
	srv.RegisterService(&echoDesc, impl)
	ctx, cancel := context.WithCancel(context.Background())
	var running sync.WaitGroup
	var mu sync.Mutex
	stopped := false
	var ends []*End
	proxy := goat.NewProxy(ctx, "proxy",
		func(id string) (goat.RpcReadWriter, error) {
			if id != "srv" {
				return nil, fmt.Errorf("no such peer %q", id)
			}
			mu.Lock()
			defer mu.Unlock()
			if stopped {
				return nil, fmt.Errorf("stopped")
			}
			pe, se := NewPipe(4096, serialise, nil)
			ends = append(ends, pe, se)
			running.Add(1)
			go func() { defer running.Done(); srv.Serve(ctx, se) }()
			return pe, nil
		}, nil, nil)
	running.Add(1)
	go func() { defer running.Done(); proxy.Serve() }()
	n := &c01Net{kind: "proxyshared", serialise: serialise, impl: impl, names: names, limit: goat.VerifClientBufferSize}
	var wires []*Wire
	for _, name := range names {
		w := &Wire{}
		ce, pe := NewPipe(4096, serialise, w)
		mu.Lock()
		ends = append(ends, ce, pe)
		mu.Unlock()
		wires = append(wires, w)
		proxy.AddClient(name, pe)
		n.ccs = append(n.ccs, goat.NewClientConn(ce, name, "srv"))
	}
	// the first client's long-lived streams
	sctx, scancel := context.WithCancel(metadata.AppendToOutgoingContext(context.Background(), "x-prog", "hold"))
	// one at a time: the proxy queues at most 16 envelopes per destination (known finding C16)
	for i := 0; i < held; i++ {
		if _, err := n.ccs[0].NewStream(sctx, descBidi, mBidi); err != nil {
			break
		}
		for deadline := time.Now().Add(hangTimeout); entered.Load() < int64(i+1) && time.Now().Before(deadline); {
			time.Sleep(50 * time.Microsecond)
		}
	}
	// the unary calls of a round come from the OTHER clients (the first one's ids are above `held`)
	n.ccs = n.ccs[1:]
	n.names = n.names[1:]
	n.wire = func(r *Run, in any) {
		for _, w := range wires[1:] {
			checkWire(r, "pairing.wire", w.Snapshot(), in)
		}
	}
	n.close = func() {
		scancel()
		mu.Lock()
		stopped = true
		es := append([]*End(nil), ends...)
		mu.Unlock()
		srv.Stop()
		cancel()
		for _, e := range es {
			e.FailRead(io.ErrClosedPipe)
			e.FailWrite(io.ErrClosedPipe)
		}
		for _, cc := range n.ccs {
			cc.Close()
		}
		if !within(hangTimeout, running.Wait) {
			println("c01ProxyShared: teardown incomplete")
			println(goroutineDump())
		}
	}
	return n
}

// c01ReusedReply: grpc.ClientConnInterface.Invoke must OVERWRITE the reply message it is given. One caller
// reuses a single reply message for a series of calls whose replies shrink down to the empty message
// (zero-length encoding): after each call the message holds exactly the handler's reply to THAT request.
func c01ReusedReply(r *Run) {
	if !r.Want("reuse") {
		return
	}
	for _, serialise := range []bool{true, false} {
		rig := NewRig(RigOpt{Serialise: serialise})
		// the handler drops the first byte of the request
		rig.Impl.SetUnary(func(ctx context.Context, req []byte) ([]byte, error) {
			if len(req) == 0 {
				return nil, nil
			}
			return req[1:], nil
		})
		out := new(wrapperspb.BytesValue)
		for _, req := range []string{"xyz", "ab", "q", "", "mn", "k", "k", ""} {
			in := map[string]any{"request": req, "serialise": serialise, "reply_message": "reused across the calls of this series"}
			r.Progress("reuse", in)
			var err error
			if !within(hangTimeout, func() {
				err = rig.CC.Invoke(context.Background(), mUnary, &wrapperspb.BytesValue{Value: []byte(req)}, out)
			}) {
				r.Violate("reuse.none", "ops", "a unary call did not return", in, goroutineDump(), nil)
				rig.Close()
				return
			}
			want := ""
			if len(req) > 0 {
				want = req[1:]
			}
			if err != nil || string(out.Value) != want {
				r.Violate("reuse.reply", "ops", "the reply message does not hold the handler's reply to this request (the caller reuses one message; Invoke must overwrite it)", in,
					fmt.Sprintf("reply=%q err=%v", out.Value, err), fmt.Sprintf("%q", want))
				rig.Close()
				return
			}
			r.Eval(fmt.Sprintf("reuse/%v/%s", serialise, req), true)
			r.Count("reuse.calls")
		}
		rig.Close()
	}
}

// c01MethodSpelling: the server accepts a method with or without the leading slash (parseRawMethod); a
// unary call made under either spelling gets its reply.
func c01MethodSpelling(r *Run) {
	if !r.Want("spelling") {
		return
	}
	for _, serialise := range []bool{true, false} {
		rig := NewRig(RigOpt{Serialise: serialise})
		rig.Impl.SetUnary(func(ctx context.Context, req []byte) ([]byte, error) { return unaryF(req), nil })
		for i, method := range []string{mUnary, strings.TrimPrefix(mUnary, "/"), mUnary, strings.TrimPrefix(mUnary, "/")} {
			in := map[string]any{"method": method, "serialise": serialise}
			r.Progress("spelling", in)
			req := []byte(fmt.Sprintf("spelled-%d", i))
			out := new(wrapperspb.BytesValue)
			ctx, cancel := context.WithTimeout(context.Background(), hangTimeout)
			err := rig.CC.Invoke(ctx, method, &wrapperspb.BytesValue{Value: req}, out)
			cancel()
			if err != nil || string(out.Value) != string(unaryF(req)) {
				r.Violate("spelling.none", "ops", "a unary call whose method is spelled the way the server accepts did not get the handler's reply", in, fmt.Sprintf("reply=%x err=%v", out.Value, err), fmt.Sprintf("%x", unaryF(req)))
				break
			}
			r.Eval(fmt.Sprintf("spelling/%v/%d", serialise, i), true)
			r.Count("spelling.calls")
		}
		rig.Close()
	}
}
