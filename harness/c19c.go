package main

import (
	"context"
	"errors"
	"fmt"
	"strings"
	"time"

	goat "github.com/avos-io/goat"
	"github.com/avos-io/goat/gen/goatorepo"
	"google.golang.org/protobuf/proto"
)

// c19ChanCancelledRead (scenario chan): an envelope written to the channel transport is read on the
// other end also when Reads whose context is already done (or ends meanwhile) are mixed in: such a Read
// may fail or may return the next envelope, but whatever was written comes out, in write order, without
// a gap. Likewise a Write whose context is done either fails and delivers nothing, or succeeds and delivers.
func c19ChanCancelledRead(r *Run) {
	const n = 300
	r.Progress("chan.cancelledread", n)
	ab := make(chan *Rpc, 8)
	wr := goat.NewGoatOverChannel(make(chan *Rpc), ab)
	rd := goat.NewGoatOverChannel(ab, make(chan *Rpc))
	dead, kill := context.WithCancel(context.Background())
	kill()
	var accepted []uint64
	wdone := make(chan struct{})
	go func() {
		defer close(wdone)
		for i := uint64(1); i <= n; i++ {
			ctx := context.Background()
			if i%5 == 0 {
				ctx = dead
			}
			if err := wr.Write(ctx, &Rpc{Id: i}); err == nil {
				accepted = append(accepted, i)
			} else if i%5 != 0 {
				return
			}
		}
	}()
	var got []uint64
	failedReads, luckyReads := 0, 0
	stop := time.After(3 * hangTimeout)
	finished := false
loop:
	for !finished {
		// a Read on a context that is already done
		if e, err := rd.Read(dead); err == nil {
			got = append(got, e.Id)
			luckyReads++
		} else {
			failedReads++
		}
		// a Read on a context that ends after a moment, then one that waits
		for _, d := range []time.Duration{50 * time.Microsecond, 20 * time.Millisecond} {
			ctx, cancel := context.WithTimeout(context.Background(), d)
			e, err := rd.Read(ctx)
			cancel()
			if err == nil {
				got = append(got, e.Id)
			}
		}
		select {
		case <-wdone:
			// drain what is left with patient reads
			for {
				ctx, cancel := context.WithTimeout(context.Background(), 20*time.Millisecond)
				e, err := rd.Read(ctx)
				cancel()
				if err != nil {
					break
				}
				got = append(got, e.Id)
			}
			finished = true
		case <-stop:
			break loop
		default:
		}
	}
	<-wdone
	r.Eval("chan.cancelledread", true)
	r.CountN("chan.cancelledread.envelopes", len(accepted))
	r.CountN("chan.cancelledread.failed_reads", failedReads)
	r.CountN("chan.cancelledread.done_ctx_reads_that_returned_an_envelope", luckyReads)
	if fmt.Sprint(got) != fmt.Sprint(accepted) {
		miss := ""
		seen := map[uint64]bool{}
		for _, id := range got {
			seen[id] = true
		}
		for _, id := range accepted {
			if !seen[id] {
				miss = fmt.Sprintf("first missing id %d", id)
				break
			}
		}
		r.Violate("chan.cancelledread", "ops", "envelopes whose Write succeeded were not all read, in write order, on the other end (Reads with a finished context were mixed in; such a Read may fail but must not swallow an envelope): "+miss,
			map[string]any{"written": n, "accepted": len(accepted)}, fmt.Sprintf("read %d: %v", len(got), clipIDs(got)), fmt.Sprintf("accepted %d", len(accepted)))
	}
}

func clipIDs(ids []uint64) string {
	if len(ids) > 40 {
		return fmt.Sprint(ids[:40]) + "…"
	}
	return fmt.Sprint(ids)
}

// c19ChanObs (scenario chan): ONE goroutine drives both ends of a buffered channel transport with a random
// sequence of Writes and Reads, a third of them on a context that is already done, and logs how each
// call ended. The sequence is decided by the Lean model of the transport (op `chanobs`,
// Transport.chanObs: a failed call has no effect, a Read returns the head of the queue): accepted with
// the number of envelopes still in flight that the harness counted itself.
func c19ChanObs(r *Run) {
	rng := r.Rand("c19.chanobs")
	dead, kill := context.WithCancel(context.Background())
	kill()
	for round, rounds := 0, r.Scale(60, 3000); round < rounds; round++ {
		const capQ = 6
		ab := make(chan *Rpc, capQ)
		wr := goat.NewGoatOverChannel(make(chan *Rpc), ab)
		rd := goat.NewGoatOverChannel(ab, make(chan *Rpc))
		var evs []string
		inflight, next := 0, uint64(1)
		for k, n := 0, 4+rng.Intn(40); k < n; k++ {
			ctx := context.Background()
			done := rng.Intn(3) == 0
			if done {
				ctx = dead
			}
			if rng.Intn(2) == 0 {
				if !done && inflight == capQ {
					continue // would block
				}
				id := next
				next++
				if err := wr.Write(ctx, &Rpc{Id: id}); err == nil {
					evs = append(evs, fmt.Sprintf("w%d", id))
					inflight++
				} else {
					evs = append(evs, fmt.Sprintf("W%d", id))
				}
			} else {
				if !done && inflight == 0 {
					continue // would block
				}
				if e, err := rd.Read(ctx); err == nil {
					evs = append(evs, fmt.Sprintf("r%d", e.Id))
					inflight--
				} else {
					evs = append(evs, "R")
				}
			}
		}
		in := "_"
		if len(evs) > 0 {
			in = ""
			for i, e := range evs {
				if i > 0 {
					in += " "
				}
				in += e
			}
		}
		r.Case("chanobs", in, fmt.Sprintf("accept:inflight=%d", inflight))
		r.Count("chan.obs.sequences")
		r.CountN("chan.obs.events", len(evs))
	}
}

// c19ChanSecondWriter (scenario chan): two goroutines write to the same channel transport while the
// peer is not reading. The first Write stays blocked on a context that lives on; the second Write
// returns once ITS context is done — each blocked call answers to its own context. Then the peer
// reads: the first envelope arrives, and a later Write works.
func c19ChanSecondWriter(r *Run) {
	r.Progress("chan.ctx.write.second", nil)
	ab := make(chan *Rpc)
	wr := goat.NewGoatOverChannel(make(chan *Rpc), ab)
	rd := goat.NewGoatOverChannel(ab, make(chan *Rpc))
	first := make(chan error, 1)
	go func() { first <- wr.Write(context.Background(), &Rpc{Id: 1}) }()
	time.Sleep(20 * time.Millisecond) // the first writer is in its Write
	ctx2, cancel2 := context.WithCancel(context.Background())
	second := make(chan error, 1)
	go func() { second <- wr.Write(ctx2, &Rpc{Id: 2}) }()
	time.Sleep(20 * time.Millisecond)
	cancel2()
	r.Eval("chan.ctx.write.second", true)
	secondReturned := false
	select {
	case err := <-second:
		secondReturned = true
		if err == nil {
			r.Violate("chan.ctx.write.second", "ops", "a Write reported success although nobody read the envelope", nil, "nil", "an error")
		}
	case <-time.After(hangTimeout):
		r.Violate("chan.ctx.write.second", "ops", "a blocked Write did not return once its own context was done (another Write on the same transport, with a live context, was blocked as well)", nil, "still blocked after "+hangTimeout.String(), "returns with an error")
	}
	// the peer reads now
	rctx, rcancel := context.WithTimeout(context.Background(), hangTimeout)
	e, err := rd.Read(rctx)
	rcancel()
	if err != nil || (e.Id != 1 && secondReturned) {
		r.Violate("chan.ctx.write.first", "ops", "the envelope of the Write that stayed blocked did not arrive once the peer read", nil, fmt.Sprint(e.GetId(), err), 1)
	}
	select {
	case err := <-first:
		if err != nil && e.GetId() == 1 {
			r.Violate("chan.ctx.write.first", "ops", "the Write whose envelope was read reported an error", nil, err.Error(), "nil")
		}
	case <-time.After(hangTimeout):
		r.Violate("chan.ctx.write.first", "ops", "the first Write did not return after the peer had read", nil, nil, nil)
	}
}

// c19WsConcurrentWriters (scenario ws): several goroutines write to ONE websocket transport at the same
// time (as the callers of concurrent unary RPCs do). Every envelope read on the other end equals one
// that was written, each exactly once, and each writer's envelopes arrive in its own write order.
func c19WsConcurrentWriters(r *Run) {
	p, err := c19NewWsPair()
	if err != nil {
		r.Count("ws.concurrent.no_listener")
		return
	}
	defer p.Close()
	cw, sw := goat.NewGoatOverWebsocket(p.cli), goat.NewGoatOverWebsocket(p.srv)
	writers, per := 8, r.Scale(30, 400)
	r.Progress("ws.concurrent", map[string]any{"writers": writers, "envelopes_each": per})
	rng := r.Rand("c19.ws.concurrent")
	want := make([][]*Rpc, writers)
	for w := range want {
		for k := 0; k < per; k++ {
			body := make([]byte, 600+rng.Intn(6000))
			rng.Read(body)
			want[w] = append(want[w], &Rpc{Id: uint64(w*100000 + k), Header: &goatorepo.RequestHeader{Source: fmt.Sprintf("w%d", w), Method: "/m"}, Body: &goatorepo.Body{Data: body}})
		}
	}
	werr := make(chan error, writers)
	for w := 0; w < writers; w++ {
		go func(w int) {
			for _, e := range want[w] {
				ctx, cancel := context.WithTimeout(context.Background(), 2*hangTimeout)
				err := cw.Write(ctx, e)
				cancel()
				if err != nil {
					werr <- err
					return
				}
			}
			werr <- nil
		}(w)
	}
	next := make([]int, writers)
	bad := false
	for i := 0; i < writers*per && !bad; i++ {
		ctx, cancel := context.WithTimeout(context.Background(), 2*hangTimeout)
		e, err := sw.Read(ctx)
		cancel()
		if err != nil {
			r.Violate("ws.concurrent.read", "ops", "Read failed while concurrent writers were sending well-formed envelopes", map[string]any{"read_so_far": i}, err.Error(), nil)
			bad = true
			break
		}
		w := int(e.Id / 100000)
		if w < 0 || w >= writers || next[w] >= per || !proto.Equal(e, want[w][next[w]]) {
			exp := "nothing (unknown writer)"
			if w >= 0 && w < writers && next[w] < per {
				exp = c19Brief(want[w][next[w]])
			}
			r.Violate("ws.concurrent.equal", "ops", "an envelope read from the websocket is not the next envelope its writer wrote (several goroutines were writing to the transport at once)", map[string]any{"read_so_far": i}, c19Brief(e), exp)
			bad = true
			break
		}
		next[w]++
	}
	r.Eval("ws.concurrent", true)
	r.CountN("ws.concurrent.envelopes", writers*per)
	if !bad {
		for w := 0; w < writers; w++ {
			select {
			case err := <-werr:
				if err != nil {
					r.Violate("ws.concurrent.write", "ops", "a Write failed on a healthy websocket", nil, err.Error(), nil)
				}
			case <-time.After(hangTimeout):
			}
		}
	}
}

// c19WsLarge (scenario ws): bodies at and just above 1 MiB (the application has lifted the websocket
// library's read limit on its connections, as c19NewWsPair does) are carried like any other envelope,
// in both directions, and the connection survives them.
func c19WsLarge(r *Run) {
	p, err := c19NewWsPair()
	if err != nil {
		r.Count("ws.large.no_listener")
		return
	}
	defer p.Close()
	cw, sw := goat.NewGoatOverWebsocket(p.cli), goat.NewGoatOverWebsocket(p.srv)
	rng := r.Rand("c19.ws.large")
	for i, n := range []int{1<<20 - 4096, 1<<20 - 1, 1 << 20, 1<<20 + 4096, 3 << 20, 16} {
		body := make([]byte, n)
		rng.Read(body)
		e := &Rpc{Id: uint64(900 + i), Header: &goatorepo.RequestHeader{Method: "/s/m", Source: "a", Destination: "b", Headers: []*goatorepo.KeyValue{{Key: "k", Value: "v"}}}, Body: &goatorepo.Body{Data: body}}
		in := map[string]any{"body_bytes": n}
		r.Progress("ws.large", in)
		for dir, pair := range [][2]goat.RpcReadWriter{{cw, sw}, {sw, cw}} {
			werr := make(chan error, 1)
			go func() {
				ctx, cancel := context.WithTimeout(context.Background(), 2*hangTimeout)
				defer cancel()
				werr <- pair[0].Write(ctx, e)
			}()
			ctx, cancel := context.WithTimeout(context.Background(), 2*hangTimeout)
			got, err := pair[1].Read(ctx)
			cancel()
			if err != nil || !proto.Equal(got, e) {
				r.Violate("ws.large", "ops", "an envelope with a large body written on one end of the websocket was not read equal on the other end", map[string]any{"body_bytes": n, "direction": dir}, fmt.Sprint(c19Brief(got), " ", err), c19Brief(e))
				return
			}
			if err := <-werr; err != nil {
				r.Violate("ws.large", "ops", "Write of a large envelope failed", in, err.Error(), nil)
				return
			}
		}
		r.Eval(fmt.Sprintf("ws.large/%d", n), true)
		r.Count("ws.large")
	}
}

// c19ChanClosed (scenario chan): the peer closes its end of the channel transport (close(inQ)): what was
// written before arrives, and then Read FAILS — at once and every time — rather than blocking, spinning
// or returning nothing; a Read with a finished context fails as well.
func c19ChanClosed(r *Run) {
	r.Progress("chan.closed", nil)
	ab := make(chan *Rpc, 4)
	rd := goat.NewGoatOverChannel(ab, make(chan *Rpc))
	ab <- &Rpc{Id: 1}
	ab <- &Rpc{Id: 2}
	close(ab)
	var ids []uint64
	for i := 0; i < 5; i++ {
		var e *Rpc
		var err error
		if !within(hangTimeout, func() {
			ctx, cancel := context.WithTimeout(context.Background(), hangTimeout/2)
			defer cancel()
			e, err = rd.Read(ctx)
		}) {
			r.Violate("chan.closed", "ops", "Read on a channel transport whose peer has closed its end did not return", map[string]any{"read": i}, goroutineDump(), "an error")
			return
		}
		if err == nil && e != nil {
			ids = append(ids, e.Id)
			continue
		}
		if err == nil && e == nil {
			r.Violate("chan.closed", "ops", "Read returned neither an envelope nor an error", map[string]any{"read": i}, "(nil, nil)", "an error")
			return
		}
		if errors.Is(err, context.DeadlineExceeded) {
			r.Violate("chan.closed", "ops", "Read on a channel transport whose peer has closed its end only returned when its own context ended (the closure is never reported)", map[string]any{"read": i}, err.Error(), "an error saying the channel is closed, at once")
			return
		}
	}
	r.Eval("chan.closed", true)
	if fmt.Sprint(ids) != "[1 2]" {
		r.Violate("chan.closed", "ops", "what was written before the peer closed its end did not arrive", nil, fmt.Sprint(ids), "[1 2]")
	}
}

// c19ReusedEnvelope (scenarios ws, http): a sender keeps ONE envelope object and refills it between
// writes (a new body of another length, another header field): every write carries what the object
// holds at that moment.
func c19ReusedEnvelope(r *Run, kind string) {
	scen := kind + ".reused"
	r.Progress(scen, nil)
	var w, rd goat.RpcReadWriter
	switch kind {
	case "ws":
		p, err := c19NewWsPair()
		if err != nil {
			r.Count(scen + ".no_listener")
			return
		}
		defer p.Close()
		w, rd = goat.NewGoatOverWebsocket(p.cli), goat.NewGoatOverWebsocket(p.srv)
	case "http":
		recv := c19NewNode(c19IdentityMapper)
		defer recv.Close()
		sender := c19NewNode(c19IdentityMapper)
		defer sender.Close()
		w = sender.goh.NewConnection(recv.addr)
		ch := make(chan goat.RpcReadWriter, 1)
		go func() {
			select {
			case c := <-recv.conns:
				ch <- c.rw
			case <-time.After(2 * hangTimeout):
			}
		}()
		// the first write announces the connection at the receiver
		defer func() {}()
		rd = &lazyRW{ch: ch}
	}
	e := &Rpc{Id: 1, Header: &goatorepo.RequestHeader{Method: "/s/m", Source: "writer", Destination: "d"}, Body: &goatorepo.Body{Data: []byte("0123456789")}}
	for i, n := range []int{10, 300, 0, 70000, 5} {
		e.Id = uint64(i + 1)
		e.Body.Data = make([]byte, n)
		for j := range e.Body.Data {
			e.Body.Data[j] = byte(i + j)
		}
		e.Header.Destination = strings.Repeat("d", 1+i*3)
		want := proto.Clone(e).(*Rpc)
		werr := make(chan error, 1)
		go func() {
			ctx, cancel := context.WithTimeout(context.Background(), 2*hangTimeout)
			defer cancel()
			werr <- w.Write(ctx, e)
		}()
		ctx, cancel := context.WithTimeout(context.Background(), 2*hangTimeout)
		got, err := rd.Read(ctx)
		cancel()
		we := <-werr
		r.Eval(fmt.Sprintf("%s/%d", scen, n), true)
		if we != nil || err != nil || !proto.Equal(got, want) {
			r.Violate(scen, "ops", "an envelope object that the sender refills between writes was not carried as it stood at the time of the write", map[string]any{"write": i, "body_bytes": n}, fmt.Sprint("write error: ", we, "; read: ", c19Brief(got), " ", err), c19Brief(want))
			return
		}
	}
	r.Count(scen)
}

// lazyRW reads from a connection that is announced later.
type lazyRW struct {
	ch chan goat.RpcReadWriter
	rw goat.RpcReadWriter
}

func (l *lazyRW) Read(ctx context.Context) (*Rpc, error) {
	if l.rw == nil {
		select {
		case l.rw = <-l.ch:
		case <-ctx.Done():
			return nil, ctx.Err()
		}
	}
	return l.rw.Read(ctx)
}
func (l *lazyRW) Write(ctx context.Context, e *Rpc) error { return errors.New("read side only") }
