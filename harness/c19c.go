package main

import (
	"context"
	"fmt"
	"time"

	goat "github.com/avos-io/goat"
)

// c19ChanCancelledRead (scenario chan): an envelope written to the channel transport is read on the
// other end also when Reads whose context is already done (or ends meanwhile) are mixed in: such a Read
// may fail or may return the next envelope, but whatever was written comes out, in write order, without
// a gap. Likewise a Write whose context is done either fails and delivers nothing, or succeeds and delivers.
func c19ChanCancelledRead(r *Run) {
	const n = 300
	r.Progress("chan.cancelledread", n)
	ab := make(chan *Rpc, 8)
	wr := goat.NewGoatOverChannel(make(chan *Rpc), ab)
	rd := goat.NewGoatOverChannel(ab, make(chan *Rpc))
	dead, kill := context.WithCancel(context.Background())
	kill()
	var accepted []uint64
	wdone := make(chan struct{})
	go func() {
		defer close(wdone)
		for i := uint64(1); i <= n; i++ {
			ctx := context.Background()
			if i%5 == 0 {
				ctx = dead
			}
			if err := wr.Write(ctx, &Rpc{Id: i}); err == nil {
				accepted = append(accepted, i)
			} else if i%5 != 0 {
				return
			}
		}
	}()
	var got []uint64
	failedReads, luckyReads := 0, 0
	stop := time.After(3 * hangTimeout)
	finished := false
loop:
	for !finished {
		// a Read on a context that is already done
		if e, err := rd.Read(dead); err == nil {
			got = append(got, e.Id)
			luckyReads++
		} else {
			failedReads++
		}
		// a Read on a context that ends after a moment, then one that waits
		for _, d := range []time.Duration{50 * time.Microsecond, 20 * time.Millisecond} {
			ctx, cancel := context.WithTimeout(context.Background(), d)
			e, err := rd.Read(ctx)
			cancel()
			if err == nil {
				got = append(got, e.Id)
			}
		}
		select {
		case <-wdone:
			// drain what is left with patient reads
			for {
				ctx, cancel := context.WithTimeout(context.Background(), 20*time.Millisecond)
				e, err := rd.Read(ctx)
				cancel()
				if err != nil {
					break
				}
				got = append(got, e.Id)
			}
			finished = true
		case <-stop:
			break loop
		default:
		}
	}
	<-wdone
	r.Eval("chan.cancelledread", true)
	r.CountN("chan.cancelledread.envelopes", len(accepted))
	r.CountN("chan.cancelledread.failed_reads", failedReads)
	r.CountN("chan.cancelledread.done_ctx_reads_that_returned_an_envelope", luckyReads)
	if fmt.Sprint(got) != fmt.Sprint(accepted) {
		miss := ""
		seen := map[uint64]bool{}
		for _, id := range got {
			seen[id] = true
		}
		for _, id := range accepted {
			if !seen[id] {
				miss = fmt.Sprintf("first missing id %d", id)
				break
			}
		}
		r.Violate("chan.cancelledread", "ops", "envelopes whose Write succeeded were not all read, in write order, on the other end (Reads with a finished context were mixed in; such a Read may fail but must not swallow an envelope): "+miss,
			map[string]any{"written": n, "accepted": len(accepted)}, fmt.Sprintf("read %d: %v", len(got), clipIDs(got)), fmt.Sprintf("accepted %d", len(accepted)))
	}
}

func clipIDs(ids []uint64) string {
	if len(ids) > 40 {
		return fmt.Sprint(ids[:40]) + "…"
	}
	return fmt.Sprint(ids)
}

// c19ChanObs (scenario chan): ONE goroutine drives both ends of a buffered channel transport with a random
// sequence of Writes and Reads, a third of them on a context that is already done, and logs how each
// call ended. The sequence is decided by the Lean model of the transport (op `chanobs`,
// Transport.chanObs: a failed call has no effect, a Read returns the head of the queue): accepted with
// the number of envelopes still in flight that the harness counted itself.
func c19ChanObs(r *Run) {
	rng := r.Rand("c19.chanobs")
	dead, kill := context.WithCancel(context.Background())
	kill()
	for round, rounds := 0, r.Scale(60, 3000); round < rounds; round++ {
		const capQ = 6
		ab := make(chan *Rpc, capQ)
		wr := goat.NewGoatOverChannel(make(chan *Rpc), ab)
		rd := goat.NewGoatOverChannel(ab, make(chan *Rpc))
		var evs []string
		inflight, next := 0, uint64(1)
		for k, n := 0, 4+rng.Intn(40); k < n; k++ {
			ctx := context.Background()
			done := rng.Intn(3) == 0
			if done {
				ctx = dead
			}
			if rng.Intn(2) == 0 {
				if !done && inflight == capQ {
					continue // would block
				}
				id := next
				next++
				if err := wr.Write(ctx, &Rpc{Id: id}); err == nil {
					evs = append(evs, fmt.Sprintf("w%d", id))
					inflight++
				} else {
					evs = append(evs, fmt.Sprintf("W%d", id))
				}
			} else {
				if !done && inflight == 0 {
					continue // would block
				}
				if e, err := rd.Read(ctx); err == nil {
					evs = append(evs, fmt.Sprintf("r%d", e.Id))
					inflight--
				} else {
					evs = append(evs, "R")
				}
			}
		}
		in := "_"
		if len(evs) > 0 {
			in = ""
			for i, e := range evs {
				if i > 0 {
					in += " "
				}
				in += e
			}
		}
		r.Case("chanobs", in, fmt.Sprintf("accept:inflight=%d", inflight))
		r.Count("chan.obs.sequences")
		r.CountN("chan.obs.events", len(evs))
	}
}
