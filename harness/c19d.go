package main

import (
	"context"
	"fmt"
	"net"
	"net/http"
	"net/http/httptest"
	"strings"
	"sync"
	"sync/atomic"
	"time"

	goat "github.com/avos-io/goat"
	"github.com/avos-io/goat/gen/goatorepo"
	"github.com/jonboulle/clockwork"
)

// flakyHTTP is an HTTP endpoint in the middle of a restart: the first request it sees is cut off at
// once (the connection is closed without an answer), every later one is accepted and then never
// answered — until the endpoint is closed.
type flakyHTTP struct {
	addr     string
	srv      *http.Server
	requests atomic.Int32
	release  chan struct{}
	once     sync.Once
}

func newFlakyHTTP() (*flakyHTTP, error) {
	ln, err := net.Listen("tcp", "127.0.0.1:0")
	if err != nil {
		return nil, err
	}
	f := &flakyHTTP{addr: ln.Addr().String(), release: make(chan struct{})}
	f.srv = &http.Server{Handler: http.HandlerFunc(func(w http.ResponseWriter, req *http.Request) {
		if f.requests.Add(1) == 1 {
			if hj, ok := w.(http.Hijacker); ok {
				if c, _, err := hj.Hijack(); err == nil {
					c.Close()
					return
				}
			}
			panic(http.ErrAbortHandler)
		}
		select {
		case <-f.release:
		case <-req.Context().Done():
		}
	})}
	go f.srv.Serve(ln)
	return f, nil
}

func (f *flakyHTTP) Close() {
	f.once.Do(func() { close(f.release) })
	f.srv.Close()
}

// c19HttpCtxRetry (scenario http): a Write to an endpoint whose first request fails fast and whose
// later requests hang. Whatever the transport does about the failure (give up, try again), the Write
// returns once its context is done.
func c19HttpCtxRetry(r *Run) {
	r.Progress("http.ctx.write.flaky", nil)
	f, err := newFlakyHTTP()
	if err != nil {
		r.Count("http.ctx.write.flaky.no_listener")
		return
	}
	defer f.Close()
	node := c19NewNode(c19IdentityMapper)
	defer node.Close()
	w := node.goh.NewConnection(f.addr)
	ctx, cancel := context.WithCancel(context.Background())
	defer cancel()
	res := make(chan error, 1)
	go func() { res <- w.Write(ctx, &Rpc{Id: 6, Header: &goatorepo.RequestHeader{Source: "writer"}}) }()
	returnedEarly := false
	select {
	case <-res:
		returnedEarly = true // the transport gave up after the failed request: fine
	case <-time.After(150 * time.Millisecond):
	}
	cancel()
	r.Eval("http.ctx.write.flaky", true)
	r.CountN("http.ctx.write.flaky.requests_seen", int(f.requests.Load()))
	if !returnedEarly {
		select {
		case <-res:
		case <-time.After(hangTimeout):
			r.Violate("http.ctx.write.flaky", "ops", "a Write to an endpoint whose first request failed and whose next request is never answered did not return once its context was done",
				map[string]any{"endpoint": "first request: connection closed without an answer; later requests: accepted, never answered", "requests_seen": f.requests.Load()},
				"still blocked "+hangTimeout.String()+" after the context was cancelled", "returns with an error")
		}
	}
}

// c17HttpPeer (C17): the same endpoint as a peer the proxy dials through the HTTP transport
// (GoatOverHttp.NewConnection is made to be the proxy's dial function). An envelope is forwarded to it,
// then the proxy's context is cancelled: no goroutine of the proxy stays behind.
func c17HttpPeer(r *Run) {
	if !r.Want("httppeer") {
		return
	}
	for rep := 0; rep < r.Scale(1, 4) && c17Leaks <= 2; rep++ {
		base := c17Base()
		f, err := newFlakyHTTP()
		if err != nil {
			r.Count("httppeer.no_listener")
			return
		}
		node := c19NewNode(c19IdentityMapper)
		in := map[string]any{"peer": "dialled over HTTP; first request cut off, later ones never answered", "rep": rep}
		r.Progress("httppeer", in)
		ctx, cancel := context.WithCancel(context.Background())
		proxy := goat.NewProxy(ctx, "px", func(id string) (goat.RpcReadWriter, error) {
			if id != "h" {
				return nil, fmt.Errorf("no such peer %q", id)
			}
			return node.goh.NewConnection(f.addr), nil
		}, nil, func(string, error) {})
		served := make(chan struct{})
		go func() { defer close(served); proxy.Serve() }()
		a := NewScript(16)
		proxy.AddClient("a", a)
		for i := uint64(1); i <= 2; i++ {
			select {
			case a.In <- pxGoodEnv(i, "a", "h"):
			case <-time.After(hangTimeout):
			}
		}
		// let the first POST fail and whatever follows it start
		deadline := time.Now().Add(hangTimeout)
		for f.requests.Load() < 1 && time.Now().Before(deadline) {
			time.Sleep(time.Millisecond)
		}
		time.Sleep(100 * time.Millisecond)
		cancel()
		if !within(hangTimeout, func() { <-served }) {
			r.Violate("httppeer.serve", "schedule", "Serve did not return after the proxy's context was cancelled", in, goroutineDump(), nil)
		}
		r.Eval(fmt.Sprintf("httppeer/%d", rep), true)
		r.CountN("httppeer.requests_seen", int(f.requests.Load()))
		// the endpoint still holds its requests open: only the proxy's own cancellation can free its goroutines
		if n, where := settleGoroutines(base + 0); n > base {
			var px []string
			for _, w := range where {
				if containsAny(w, "proxyClient", "httpReadWriter", "Proxy)") {
					px = append(px, w)
				}
			}
			if len(px) > 0 {
				c17Leaks++
				r.Violate("httppeer.leak", "schedule", "goroutines of the proxy were left behind after its context was cancelled (a peer dialled over HTTP whose first request failed and whose later requests hang)", in, px, "none")
			}
		}
		a.FailRead(errInjectedRead)
		f.Close()
		node.Close()
		settleGoroutines(base)
		c17Floor, _ = goatGoroutines()
	}
}

func containsAny(s string, subs ...string) bool {
	for _, x := range subs {
		if len(x) > 0 && len(s) >= len(x) {
			for i := 0; i+len(x) <= len(s); i++ {
				if s[i:i+len(x)] == x {
					return true
				}
			}
		}
	}
	return false
}

// hungHTTP accepts every request and never answers (until closed).
type hungHTTP struct {
	addr     string
	srv      *http.Server
	requests atomic.Int32
	release  chan struct{}
	once     sync.Once
}

func newHungHTTP() (*hungHTTP, error) {
	ln, err := net.Listen("tcp", "127.0.0.1:0")
	if err != nil {
		return nil, err
	}
	h := &hungHTTP{addr: ln.Addr().String(), release: make(chan struct{})}
	h.srv = &http.Server{Handler: http.HandlerFunc(func(w http.ResponseWriter, req *http.Request) {
		h.requests.Add(1)
		select {
		case <-h.release:
		case <-req.Context().Done():
		}
	})}
	go h.srv.Serve(ln)
	return h, nil
}

func (h *hungHTTP) Close() {
	h.once.Do(func() { close(h.release) })
	h.srv.Close()
}

// c19HttpStuckWriteTimesOut (scenario clean): a Write to a peer that never answers is in flight; the
// connection then idles past its timeout and the cleaner retires it; finally the Write's context ends.
// The Write returns an error, the connection's Read fails, and nothing panics — in particular not the
// goroutine of the sender (in a proxy that is the peer's writeLoop: its panic is the process's).
func c19HttpStuckWriteTimesOut(r *Run) (ok bool) {
	scenario := "clean.stuckwrite"
	r.Progress(scenario, nil)
	peer, err := newHungHTTP()
	if err != nil {
		r.Count(scenario + ".no_listener")
		return true
	}
	defer peer.Close()
	hooks.Reset(true)
	defer hooks.Reset(false)
	interval, timeout := 10*time.Second, 20*time.Second
	clk := clockwork.NewFakeClock()
	node := c19NewNode(c19IdentityMapper, goat.WithClock(clk), goat.WithConnectionCleanupInterval(interval), goat.WithConnectionTimeout(timeout))
	defer node.Close()
	if !within(hangTimeout, func() { clk.BlockUntil(1) }) {
		r.Violate(scenario, "schedule", "the cleaner never created its ticker", nil, nil, nil)
		return false
	}
	fc := &c19Clock{clk: clk, interval: interval}
	rw := node.goh.NewConnection(peer.addr)
	ctx, cancel := context.WithCancel(context.Background())
	defer cancel()
	type wres struct {
		err error
		pan any
	}
	wch := make(chan wres, 1)
	go func() {
		var out wres
		defer func() {
			out.pan = recover()
			wch <- out
		}()
		out.err = rw.Write(ctx, &Rpc{Id: 7, Header: &goatorepo.RequestHeader{Source: "writer", Method: "/s/m"}})
	}()
	deadline := time.Now().Add(hangTimeout)
	for peer.requests.Load() < 1 && time.Now().Before(deadline) {
		time.Sleep(time.Millisecond)
	}
	// the connection idles out while the Write is stuck
	_, unreg := fc.tickUntilUnregistered(peer.addr, 0, 6)
	r.Count(fmt.Sprintf("%s.unregistered=%v", scenario, unreg))
	rch := make(chan error, 1)
	go func() {
		rctx, rcancel := context.WithTimeout(context.Background(), hangTimeout)
		defer rcancel()
		_, err := rw.Read(rctx)
		rch <- err
	}()
	cancel() // the sender gives up (a proxy cancels the write when the connection's reader has failed)
	r.Eval(scenario, true)
	ok = true
	select {
	case w := <-wch:
		if w.pan != nil {
			r.Violate(scenario+".panic", "schedule", "a Write whose connection had been retired by the idle cleaner panicked when its context ended (in a proxy this is the peer's writeLoop goroutine: the process dies)", map[string]any{"peer": "never answers", "order": "write in flight, idle timeout, write cancelled"}, fmt.Sprint(w.pan), "an error")
			ok = false
		} else if w.err == nil {
			r.Violate(scenario, "schedule", "a Write that nobody answered reported success", nil, "nil", "an error")
			ok = false
		}
	case <-time.After(hangTimeout):
		r.Violate(scenario, "schedule", "a stuck Write did not return once its context was done", nil, goroutineDump(), nil)
		ok = false
	}
	select {
	case err := <-rch:
		if err == nil {
			r.Violate(scenario, "schedule", "Read on a retired connection returned an envelope", nil, nil, "an error")
			ok = false
		}
	case <-time.After(2 * hangTimeout):
		r.Violate(scenario, "schedule", "Read on a retired connection did not return", nil, goroutineDump(), nil)
		ok = false
	}
	return ok
}

// c19HttpLostResponse (scenario http): the receiving end takes a POST and hands the envelope to its
// reader, and then the TCP connection dies before the response gets back to the writer. Whatever the
// writer makes of that (an error is fine), the envelope is read on the other end exactly ONCE — a
// transport that posts it again delivers a duplicate — and the next envelope follows it.
func c19HttpLostResponse(r *Run) {
	scenario := "http.lostresponse"
	r.Progress(scenario, nil)
	recv := c19NewNode(c19IdentityMapper)
	defer recv.Close()
	// in front of the receiving node: lets ServeHTTP deliver, then cuts the FIRST request's connection
	var n atomic.Int32
	front := httptest.NewServer(http.HandlerFunc(func(w http.ResponseWriter, req *http.Request) {
		first := n.Add(1) == 1
		rec := httptest.NewRecorder()
		recv.goh.ServeHTTP(rec, req)
		if first {
			if hj, ok := w.(http.Hijacker); ok {
				if c, _, err := hj.Hijack(); err == nil {
					c.Close()
					return
				}
			}
		}
		w.WriteHeader(rec.Code)
	}))
	defer front.Close()
	sender := c19NewNode(c19IdentityMapper)
	defer sender.Close()
	w := sender.goh.NewConnection(strings.TrimPrefix(front.URL, "http://"))
	// the reader on the receiving end
	got := make(chan uint64, 8)
	go func() {
		var rw goat.RpcReadWriter
		select {
		case c := <-recv.conns:
			rw = c.rw
		case <-time.After(2 * hangTimeout):
			return
		}
		for {
			ctx, cancel := context.WithTimeout(context.Background(), hangTimeout)
			e, err := rw.Read(ctx)
			cancel()
			if err != nil {
				return
			}
			got <- e.Id
		}
	}()
	env := func(id uint64) *Rpc {
		return &Rpc{Id: id, Header: &goatorepo.RequestHeader{Source: "writer", Method: "/s/m"}}
	}
	ctx, cancel := context.WithTimeout(context.Background(), 2*hangTimeout)
	defer cancel()
	err1 := w.Write(ctx, env(1))
	r.Count(fmt.Sprintf("%s.first_write_err=%v", scenario, err1 != nil))
	// the connection may have been retired by the failed write: a fresh one carries the next envelope
	w2 := sender.goh.NewConnection(strings.TrimPrefix(front.URL, "http://"))
	w2.Write(ctx, env(2))
	var ids []uint64
	deadline := time.After(500 * time.Millisecond)
collect:
	for {
		select {
		case id := <-got:
			ids = append(ids, id)
		case <-deadline:
			break collect
		}
	}
	r.Eval(scenario, true)
	ones := 0
	for _, id := range ids {
		if id == 1 {
			ones++
		}
	}
	if ones > 1 {
		r.Violate(scenario, "ops", "an envelope that was written once was read more than once on the other end (its HTTP response was lost after delivery and the transport posted it again)", map[string]any{"requests_seen": n.Load(), "first_write_error": fmt.Sprint(err1)}, fmt.Sprint(ids), "[1 2] or [1]")
	}
	if ones == 0 {
		r.Count(scenario + ".first_not_delivered")
	}
}

// c19HttpRefused (scenario clean): the PEER refuses an envelope — it answers the POST with a status
// other than 200 because the connection the envelope is for was retired there while the request was
// waiting for a reader (idle timeout under the fake clock). The envelope was not delivered, so the
// sender's Write must not report success.
func c19HttpRefused(r *Run) {
	scenario := "clean.refused"
	r.Progress(scenario, nil)
	hooks.Reset(true)
	defer hooks.Reset(false)
	interval, timeout := 10*time.Second, 20*time.Second
	clk := clockwork.NewFakeClock()
	peer := c19NewNode(c19IdentityMapper, goat.WithClock(clk), goat.WithConnectionCleanupInterval(interval), goat.WithConnectionTimeout(timeout))
	defer peer.Close()
	if !within(hangTimeout, func() { clk.BlockUntil(1) }) {
		r.Violate(scenario, "schedule", "the cleaner never created its ticker", nil, nil, nil)
		return
	}
	fc := &c19Clock{clk: clk, interval: interval}
	sender := c19NewNode(c19IdentityMapper)
	defer sender.Close()
	w := sender.goh.NewConnection(peer.addr)
	ctx, cancel := context.WithTimeout(context.Background(), 3*hangTimeout)
	defer cancel()
	res := make(chan error, 1)
	go func() {
		res <- w.Write(ctx, &Rpc{Id: 3, Header: &goatorepo.RequestHeader{Source: "writer", Method: "/s/m"}})
	}()
	// the request is inside the peer's ServeHTTP, waiting for a reader that never comes
	select {
	case <-peer.conns:
	case <-time.After(hangTimeout):
		r.Violate(scenario, "schedule", "the peer never announced the connection", nil, nil, nil)
		return
	}
	time.Sleep(5 * time.Millisecond)
	if _, ok := fc.tickUntilUnregistered("writer", 0, 6); !ok {
		r.Count(scenario + ".not_unregistered")
	}
	r.Eval(scenario, true)
	select {
	case err := <-res:
		if err == nil {
			r.Violate(scenario, "schedule", "the peer refused the envelope (its connection for the sender was retired while the request waited: HTTP 503) but Write reported success: the envelope is silently lost",
				map[string]any{"peer": "no reader; idle timeout while the POST waits", "peer_deliveries": c19CountSite("http.deliver")}, "Write returned nil", "an error")
		}
	case <-time.After(2 * hangTimeout):
		r.Violate(scenario, "schedule", "Write did not return after the peer had answered", nil, goroutineDump(), nil)
	}
}
