package main

import (
	"context"
	"fmt"
	"io"
	"sync"
	"time"

	goat "github.com/avos-io/goat"
	"github.com/avos-io/goat/gen/goatorepo"
	"google.golang.org/grpc"
	"google.golang.org/grpc/metadata"
	"google.golang.org/protobuf/types/known/wrapperspb"
)

// c05HoldFirstTrailer delays the first trailer envelope the server writes until released (the server's
// transport applies back-pressure), by reference: what the client is finally handed is the very object
// the server built.
type c05HoldFirstTrailer struct {
	*End
	once    sync.Once
	held    chan struct{} // closed when the first trailer is being held
	release chan struct{}
}

func (h *c05HoldFirstTrailer) Write(ctx context.Context, rpc *Rpc) error {
	if rpc.Trailer != nil {
		first := false
		h.once.Do(func() { first = true })
		if first {
			close(h.held)
			select {
			case <-h.release:
			case <-ctx.Done():
			case <-time.After(2 * hangTimeout):
			}
		}
	}
	return h.End.Write(ctx, rpc)
}

// c05TrailerHeaders: two streams of the same method finish without sending a message, each having set
// its own response header (it then travels with the trailer). The second handler finishes while the
// first stream's trailer is still on its way. Each caller sees its OWN header, trailer metadata and status.
func c05TrailerHeaders(r *Run) {
	if !r.Want("trailerheaders") {
		return
	}
	for rep, reps := 0, r.Scale(3, 30); rep < reps && r.NumViolations() <= 4; rep++ {
		for _, serialise := range []bool{false, true} {
			in := map[string]any{"rep": rep, "transport_passes_envelopes_by_reference": !serialise, "method": mBidi}
			r.Progress("trailerheaders", in)
			hooks.Reset(true)
			ce, se := NewPipe(256, serialise, nil)
			hold := &c05HoldFirstTrailer{End: se, held: make(chan struct{}), release: make(chan struct{})}
			impl := &Impl{}
			impl.SetUnary(func(ctx context.Context, req []byte) ([]byte, error) { return req, nil })
			gateB := make(chan struct{})
			returned := make(chan string, 2)
			impl.SetStream(func(m string, ss grpc.ServerStream) error {
				who := mdGet(ss.Context(), "x-who")
				if who == "B" {
					<-gateB
				}
				ss.SetHeader(metadata.Pairs("owner", who))
				ss.SetTrailer(metadata.Pairs("towner", who))
				returned <- who
				return nil
			})
			srv := goat.NewServer("srv")
			srv.RegisterService(&echoDesc, impl)
			ctx, cancel := context.WithCancel(context.Background())
			served := make(chan error, 1)
			go func() { served <- srv.Serve(ctx, hold) }()
			cc := goat.NewClientConn(ce, "cli", "srv")
			type res struct {
				hdr, tr metadata.MD
				err     error
			}
			call := func(who string, out chan res) {
				cctx, ccancel := context.WithTimeout(metadata.AppendToOutgoingContext(context.Background(), "x-who", who), 3*hangTimeout)
				defer ccancel()
				cs, err := cc.NewStream(cctx, descBidi, mBidi)
				if err != nil {
					out <- res{err: err}
					return
				}
				cs.CloseSend()
				_, err = recvB(cs)
				h, _ := cs.Header()
				out <- res{hdr: h, tr: cs.Trailer(), err: err}
			}
			ra, rb := make(chan res, 1), make(chan res, 1)
			go call("A", ra)
			ok := true
			select {
			case <-hold.held: // A's trailer is under way
			case <-time.After(hangTimeout):
				r.Violate("trailerheaders.setup", "history", "the first stream's trailer was not written", in, goroutineDump(), nil)
				ok = false
			}
			if ok {
				go call("B", rb)
				// B's handler runs to its end while A's trailer is held
				time.Sleep(5 * time.Millisecond)
				close(gateB)
				select {
				case <-returned: // A (long ago)
				case <-time.After(hangTimeout):
				}
				select {
				case <-returned: // B
				case <-time.After(hangTimeout):
				}
				time.Sleep(20 * time.Millisecond) // B's trailer envelope is built and waits for the writer
			}
			close(hold.release)
			if ok {
				for who, ch := range map[string]chan res{"A": ra, "B": rb} {
					select {
					case x := <-ch:
						if x.err == nil || x.err.Error() != "EOF" {
							r.Violate("trailerheaders.end", "history", "a stream whose handler returned nil did not end with io.EOF", in, fmt.Sprint(who, ": ", x.err), "EOF")
						}
						if got := fmt.Sprint(x.hdr.Get("owner")); got != fmt.Sprint([]string{who}) {
							r.Violate("trailerheaders.header", "history", "a call observed the response header of ANOTHER call", in, fmt.Sprintf("call %s: Header()[owner] = %s", who, got), fmt.Sprint([]string{who}))
						}
						if got := fmt.Sprint(x.tr.Get("towner")); got != fmt.Sprint([]string{who}) {
							r.Violate("trailerheaders.trailer", "history", "a call observed the trailer metadata of ANOTHER call", in, fmt.Sprintf("call %s: Trailer()[towner] = %s", who, got), fmt.Sprint([]string{who}))
						}
					case <-time.After(3 * hangTimeout):
						r.Violate("trailerheaders.hang", "history", "a call did not finish", in, goroutineDump(), nil)
					}
				}
			}
			r.Eval(fmt.Sprintf("trailerheaders/%d/%v", rep, serialise), true)
			r.Count("c05.trailerheaders")
			cancel()
			srv.Stop()
			ce.FailRead(errInjectedRead)
			se.FailRead(errInjectedRead)
			cc.Close()
			within(hangTimeout, func() { <-served })
			hooks.Reset(false)
		}
	}
}

// c05SlowHandler: a client-streaming / bidi handler that pauses between its receives (tens of
// milliseconds) while the caller keeps sending, then reads on while more messages arrive. However the
// server parks what the handler is not ready for, the handler receives the call's messages in the order
// they were sent, and the half-close after the last of them.
func c05SlowHandler(r *Run) {
	if !r.Want("slowhandler") {
		return
	}
	for rep, reps := 0, r.Scale(2, 16); rep < reps && r.NumViolations() <= 4; rep++ {
		for _, method := range []string{mCliStream, mBidi} {
			in := map[string]any{"method": method, "rep": rep, "handler": "reads 1, pauses 80ms, reads 2, then reads on with 10ms pauses", "caller": "sends 1..4 at once, 5 and 6 when the handler has taken 2, then half-closes"}
			r.Progress("slowhandler", in)
			rig := NewRig(RigOpt{Serialise: rep%2 == 0})
			var got [][]byte
			took2 := make(chan struct{})
			hdone := make(chan error, 1)
			rig.Impl.SetStream(func(m string, ss grpc.ServerStream) error {
				n := 0
				for {
					b, err := recvB(ss)
					if err != nil {
						if err == io.EOF {
							hdone <- nil
							if m == mCliStream {
								return sendB(ss, []byte("sum"))
							}
							return nil
						}
						hdone <- err
						return err
					}
					got = append(got, b)
					n++
					switch n {
					case 1:
						time.Sleep(80 * time.Millisecond)
					case 2:
						close(took2)
						time.Sleep(10 * time.Millisecond)
					default:
						time.Sleep(10 * time.Millisecond)
					}
				}
			})
			var want [][]byte
			ok := within(3*hangTimeout, func() {
				ctx, cancel := context.WithTimeout(context.Background(), 2*hangTimeout)
				defer cancel()
				cs, err := rig.CC.NewStream(ctx, descOf(method), method)
				if err != nil {
					return
				}
				send := func(i int) {
					p := []byte(fmt.Sprintf("m%d", i))
					if sendB(cs, p) == nil {
						want = append(want, p)
					}
				}
				for i := 1; i <= 4; i++ {
					send(i)
				}
				select {
				case <-took2:
				case <-time.After(hangTimeout):
				}
				send(5)
				send(6)
				cs.CloseSend()
				for {
					if _, err := recvB(cs); err != nil {
						break
					}
				}
				select {
				case <-hdone:
				case <-time.After(hangTimeout):
				}
			})
			r.Eval(fmt.Sprintf("slowhandler/%s/%d", method, rep), true)
			r.Count("c05.slowhandler")
			if !ok {
				r.Violate("slowhandler.hang", "history", "the stream did not finish", in, goroutineDump(), nil)
			} else if !seqEqual(got, want) {
				r.Violate("slowhandler.order", "history", "a slow handler did not receive its call's messages in the order they were sent (or lost the ones before the half-close)", in, seqStr(got), seqStr(want))
			}
			rig.Close()
			if !ok {
				return
			}
		}
	}
}

// c05IdsAfterReadFailure: one read error from the transport (which otherwise keeps accepting writes),
// with a stream still open at the server, and then more calls on the same client connection. Whatever
// becomes of those calls (they fail), every identifier the connection puts on the wire in its lifetime
// belongs to ONE call: no id of an earlier call is used again.
func c05IdsAfterReadFailure(r *Run) {
	if !r.Want("idsafterfail") {
		return
	}
	in := map[string]any{"history": "unary ok, stream opened, read error, three more unary calls and a stream"}
	r.Progress("idsafterfail", in)
	sc := NewScript(0)
	sc.Out = make(chan *Rpc, 256)
	cc := goat.NewClientConn(sc, "c", "srv")
	defer cc.Close()
	type use struct{ method string }
	owner := map[uint64]string{}
	order := []string{}
	note := func(call string) bool {
		okAll := true
		for {
			select {
			case e := <-sc.Out:
				if prev, seen := owner[e.Id]; seen && prev != call {
					r.Violate("idsafterfail.reuse", "history", "an identifier the connection had used for one call was put on the wire again for another call", in, fmt.Sprintf("id %d: first %s, now %s", e.Id, prev, call), "pairwise distinct ids")
					okAll = false
				}
				owner[e.Id] = call
			default:
				return okAll
			}
		}
	}
	body, _ := goat_marshal(&wrapperspb.BytesValue{Value: []byte("r")})
	// call 1: a unary call answered by the scripted peer
	done := make(chan struct{})
	go func() {
		defer close(done)
		ctx, cancel := context.WithTimeout(context.Background(), hangTimeout)
		defer cancel()
		callUnary(ctx, cc, []byte("one"))
	}()
	var first *Rpc
	select {
	case first = <-sc.Out:
		owner[first.Id] = "call1"
		sc.In <- &Rpc{Id: first.Id, Header: &goatorepo.RequestHeader{Method: mUnary, Source: "srv", Destination: "c"}, Body: &goatorepo.Body{Data: body}, Trailer: &goatorepo.Trailer{}}
	case <-time.After(hangTimeout):
		r.Violate("idsafterfail.setup", "history", "the unary request was not written", in, nil, nil)
		return
	}
	<-done
	order = append(order, "call1")
	// call 2: a stream left open
	sctx, scancel := context.WithCancel(context.Background())
	defer scancel()
	cs, err := cc.NewStream(sctx, descBidi, mBidi)
	if err == nil {
		sendB(cs, []byte("m"))
	}
	time.Sleep(5 * time.Millisecond)
	note("call2")
	// the read error
	sc.FailRead(errInjectedRead)
	hooks.WaitFor(siteIs("mux.fail", 0), hangTimeout)
	// later calls
	for k := 3; k <= 5; k++ {
		ctx, cancel := context.WithTimeout(context.Background(), 50*time.Millisecond)
		callUnary(ctx, cc, []byte(fmt.Sprintf("later-%d", k)))
		cancel()
		time.Sleep(2 * time.Millisecond)
		if !note(fmt.Sprintf("call%d", k)) {
			break
		}
	}
	ctx, cancel := context.WithTimeout(context.Background(), 50*time.Millisecond)
	if cs2, err := cc.NewStream(ctx, descBidi, mBidi); err == nil {
		sendB(cs2, []byte("m"))
	}
	cancel()
	time.Sleep(2 * time.Millisecond)
	note("call6")
	r.Eval("idsafterfail", true)
	r.CountN("c05.idsafterfail.ids_seen", len(owner))
	_ = order
	_ = use{}
}

// c05SharedMD: a server-wide metadata object that a stream interceptor attaches to EVERY stream
// (SetHeader / SetTrailer keep it by reference), after which the handler adds its per-call metadata.
// Each call's Header() and Trailer() carry the shared entries and ITS OWN per-call values — never
// those of earlier calls — and the application's shared object is not changed by the library.
func c05SharedMD(r *Run) {
	if !r.Want("sharedmd") {
		return
	}
	sharedH, sharedT := metadata.Pairs("x-server", "s1"), metadata.Pairs("x-server-t", "t1")
	ic := func(srv any, ss grpc.ServerStream, info *grpc.StreamServerInfo, next grpc.StreamHandler) error {
		ss.SetHeader(sharedH)
		ss.SetTrailer(sharedT)
		return next(srv, ss)
	}
	for _, serialise := range []bool{true, false} {
		rig := NewRig(RigOpt{Serialise: serialise, SrvOpts: []goat.ServerOption{goat.ChainStreamInterceptor(ic)}})
		rig.Impl.SetStream(func(m string, ss grpc.ServerStream) error {
			who := mdGet(ss.Context(), "x-who")
			ss.SetHeader(metadata.Pairs("x-call", who))
			ss.SetTrailer(metadata.Pairs("x-call-t", who))
			recvB(ss)
			return sendB(ss, []byte("r"))
		})
		for k := 1; k <= 4 && r.NumViolations() <= 4; k++ {
			who := fmt.Sprintf("call-%d", k)
			in := map[string]any{"call": who, "serialise": serialise, "shared": "one metadata object set on every stream by an interceptor"}
			r.Progress("sharedmd", in)
			ctx, cancel := context.WithTimeout(metadata.AppendToOutgoingContext(context.Background(), "x-who", who), 2*hangTimeout)
			cs, err := rig.CC.NewStream(ctx, descBidi, mBidi)
			if err != nil {
				cancel()
				r.Violate("sharedmd.open", "history", "stream could not be opened", in, err.Error(), nil)
				break
			}
			sendB(cs, []byte("m"))
			cs.CloseSend()
			for {
				if _, err := recvB(cs); err != nil {
					break
				}
			}
			h, _ := cs.Header()
			tr := cs.Trailer()
			cancel()
			r.Eval(fmt.Sprintf("sharedmd/%v/%d", serialise, k), true)
			r.Count("c05.sharedmd")
			if fmt.Sprint(h.Get("x-call")) != fmt.Sprint([]string{who}) || fmt.Sprint(tr.Get("x-call-t")) != fmt.Sprint([]string{who}) {
				r.Violate("sharedmd.other", "history", "a call observed header / trailer values that belong to OTHER calls", in, fmt.Sprintf("x-call=%v x-call-t=%v", h.Get("x-call"), tr.Get("x-call-t")), fmt.Sprintf("[%s] [%s]", who, who))
			}
			if fmt.Sprint(h.Get("x-server")) != "[s1]" || fmt.Sprint(tr.Get("x-server-t")) != "[t1]" {
				r.Violate("sharedmd.shared", "history", "the shared header / trailer entries did not arrive once", in, fmt.Sprintf("%v %v", h.Get("x-server"), tr.Get("x-server-t")), "[s1] [t1]")
			}
			if len(sharedH) != 1 || len(sharedT) != 1 || fmt.Sprint(sharedH.Get("x-server")) != "[s1]" {
				r.Violate("sharedmd.mutated", "history", "the application's own metadata object was modified by the library", in, fmt.Sprintf("%v %v", sharedH, sharedT), "unchanged")
			}
		}
		rig.Close()
	}
}

// c05UnaryTrailerOwner: unary handlers that set trailer metadata, followed by unary calls whose handlers
// set none, on the same connection and on a second one. On the wire every reply carries the trailer
// metadata of ITS call only: a call that set none has none, a call that set one has exactly its own.
func c05UnaryTrailerOwner(r *Run) {
	if !r.Want("unarytrailer") {
		return
	}
	for rep, reps := 0, r.Scale(4, 40); rep < reps && r.NumViolations() <= 4; rep++ {
		rigs := []*Rig{NewRig(RigOpt{Serialise: true}), NewRig(RigOpt{Serialise: rep%2 == 0})}
		for _, rig := range rigs {
			rig.Impl.SetUnary(func(ctx context.Context, req []byte) ([]byte, error) {
				if len(req) > 1 && req[0] == 't' {
					grpc.SetTrailer(ctx, metadata.Pairs("owner", string(req[1:])))
				}
				return req, nil
			})
		}
		for i := 0; i < 12 && r.NumViolations() <= 4; i++ {
			rig := rigs[(i/4)%2]
			sets := i%4 == 0
			payload := fmt.Sprintf("p%d.%d", rep, i)
			if sets {
				payload = fmt.Sprintf("t%d.%d", rep, i)
			}
			in := map[string]any{"rep": rep, "call": i, "handler_sets_trailer": sets, "connection": (i / 4) % 2}
			r.Progress("unarytrailer", in)
			before := len(rig.Wire.Snapshot())
			cctx, cancel := context.WithTimeout(context.Background(), hangTimeout)
			_, err := callUnary(cctx, rig.CC, []byte(payload))
			cancel()
			if err != nil {
				r.Violate("unarytrailer.call", "ops", "a unary call failed", in, err.Error(), nil)
				break
			}
			var got []string
			found := false
			for _, e := range rig.Wire.Snapshot()[before:] {
				if e.Dir == "s2c" && e.Rpc.Trailer != nil {
					found = true
					for _, kv := range e.Rpc.Trailer.Metadata {
						got = append(got, kv.Key+"="+kv.Value)
					}
				}
			}
			want := []string{}
			if sets {
				want = []string{"owner=" + payload[1:]}
			}
			r.Eval(fmt.Sprintf("unarytrailer/%d/%d", rep, i), true)
			r.Count("c05.unarytrailer")
			if found && fmt.Sprint(got) != fmt.Sprint(want) {
				r.Violate("unarytrailer.owner", "history", "a unary reply carries trailer metadata that its own handler did not set", in, got, want)
			}
		}
		for _, rig := range rigs {
			rig.Close()
		}
	}
}
