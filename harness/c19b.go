package main

import (
	"bytes"
	"context"
	"fmt"
	"io"
	"net/http"
	"net/http/httptest"
	"strings"
	"sync"
	"time"

	goat "github.com/avos-io/goat"
	"github.com/avos-io/goat/gen/goatorepo"
	"github.com/jonboulle/clockwork"
	"google.golang.org/protobuf/proto"
)

// c19HttpStale: an HTTP connection object outlives its registration — the idle cleaner (or an earlier
// failed Write) released its address, and the address has been taken by a fresh connection — and its
// holder then uses it again. Every operation on the stale object must RETURN (an error or a delivery)
// and never crash the caller:
//
//	stale.Write with a finished context, stale.Write to an unreachable peer, stale.Read,
//	in each order, after release by the cleaner / by a failed Write.
func c19HttpStale(r *Run) {
	rng := r.Rand("c19.stale")
	n := r.Scale(12, 200)
	for i := 0; i < n && r.NumViolations() <= 4; i++ {
		how := []string{"cleaner", "failedwrite"}[i%2]
		ops := [][]string{{"write.ctx"}, {"write.peer"}, {"read", "write.ctx"}, {"write.ctx", "write.ctx"}, {"write.peer", "read", "write.ctx"}}[rng.Intn(5)]
		input := map[string]any{"released_by": how, "ops": ops, "round": i}
		scenario := "http.stale." + how
		r.Progress(scenario, input)
		hooks.Reset(true)
		interval := time.Second
		clk := clockwork.NewFakeClock()
		node := c19NewNode(c19IdentityMapper, goat.WithClock(clk), goat.WithConnectionCleanupInterval(interval), goat.WithConnectionTimeout(3*interval))
		if !within(hangTimeout, func() { clk.BlockUntil(1) }) {
			r.Violate(scenario, "schedule", "the cleaner never created its ticker", input, nil, nil)
			node.Close()
			hooks.Reset(false)
			return
		}
		fc := &c19Clock{clk: clk, interval: interval}
		addr := "127.0.0.1:1" // nobody listens there: a Write that gets as far as the POST fails
		stale := node.goh.NewConnection(addr)
		done, cancelDone := context.WithCancel(context.Background())
		cancelDone()
		env := &Rpc{Id: 1, Header: &goatorepo.RequestHeader{Method: "/svc/m", Source: "me", Destination: addr}}
		switch how {
		case "cleaner":
			if _, ok := fc.tickUntilUnregistered(addr, 0, 8); !ok {
				r.Violate(scenario, "schedule", "an idle connection was never unregistered by the cleaner", input, nil, nil)
				node.Close()
				hooks.Reset(false)
				continue
			}
		case "failedwrite":
			// fails for real (connection refused) and releases the address; a write its caller gave up on
			// would not (repair 26)
			wctx, wcancel := context.WithTimeout(context.Background(), hangTimeout)
			stale.Write(wctx, env)
			wcancel()
		}
		fresh := node.goh.NewConnection(addr)
		call := func(what string, f func() error) bool {
			var err error
			var pan any
			ok := within(hangTimeout, func() {
				defer func() { pan = recover() }()
				err = f()
			})
			switch {
			case pan != nil:
				r.Violate(scenario+".crash", "schedule", what+" on a connection object whose address has been taken over by a newer connection panicked", input, fmt.Sprint(pan), "an error")
				return false
			case !ok:
				r.Violate(scenario+".hang", "schedule", what+" on a stale connection object did not return", input, goroutineDump(), nil)
				return false
			case err == nil && what != "read":
				r.Violate(scenario+".nil", "schedule", what+" on a stale connection object reported success", input, nil, "an error")
				return false
			}
			return true
		}
		good := true
		for _, op := range ops {
			if !good {
				break
			}
			switch op {
			case "write.ctx":
				good = call("Write with a finished context", func() error { return stale.Write(done, env) })
			case "write.peer":
				good = call("Write to an unreachable peer", func() error {
					ctx, c := context.WithTimeout(context.Background(), 2*time.Second)
					defer c()
					return stale.Write(ctx, env)
				})
			case "read":
				good = call("read", func() error {
					ctx, c := context.WithTimeout(context.Background(), 20*time.Millisecond)
					defer c()
					_, err := stale.Read(ctx)
					return err
				})
			}
		}
		// (What a failure of the stale object does to the FRESH connection is not part of C19: on the
		// unchanged tree a failed Write on the stale object unregisters whatever holds the address now —
		// reported to the maintainers in DESIGN.md, not demanded here.)
		_ = fresh
		r.Eval(fmt.Sprintf("%s/%v/%d", scenario, ops, i), true)
		r.Count(scenario)
		node.Close()
		hooks.Reset(false)
	}
}

// c19HttpTable: random sequences over the connection table of one GoatOverHttp — NewConnection(address),
// "every connection idles out" (fake clock), a failing Write on any connection object ever created,
// a Read on any of them — compared op by op with the Lean model Goat/HttpTable.lean (`httptable`):
// which object NewConnection returns, that a failing Write returns an error (never panics), and
// whether a Read fails at once ("closed") or waits ("pending").
func c19HttpTable(r *Run) {
	rng := r.Rand("c19.httptable")
	n := r.Scale(40, 1500)
	for i := 0; i < n && r.NumViolations() <= 4; i++ {
		hooks.Reset(true)
		interval := time.Second
		clk := clockwork.NewFakeClock()
		node := c19NewNode(c19IdentityMapper, goat.WithClock(clk), goat.WithConnectionCleanupInterval(interval), goat.WithConnectionTimeout(2*interval))
		if !within(hangTimeout, func() { clk.BlockUntil(1) }) {
			r.Violate("http.table", "schedule", "the cleaner never created its ticker", i, nil, nil)
			node.Close()
			hooks.Reset(false)
			return
		}
		fc := &c19Clock{clk: clk, interval: interval}
		var objs []goat.RpcReadWriter
		var items, outs []string
		idledOut := 0 // objects created before the last idle-out: their readers fail from then on
		length := 2 + rng.Intn(r.Scale(8, 14))
		ok := true
		for k := 0; k < length && ok; k++ {
			op := rng.Intn(10)
			if len(objs) == 0 {
				op = 0
			}
			switch {
			case op < 3:
				a := 1 + rng.Intn(2)
				item := fmt.Sprintf("N%d", a)
				r.Progress("http.table", strings.Join(append(items, item), " "))
				c := node.goh.NewConnection(fmt.Sprintf("127.0.0.1:%d", a))
				idx := -1
				for j, o := range objs {
					if o == c {
						idx = j
					}
				}
				if idx < 0 {
					objs = append(objs, c)
					idx = len(objs) - 1
				}
				items, outs = append(items, item), append(outs, fmt.Sprintf("obj%d", idx))
			case op < 5:
				r.Progress("http.table", strings.Join(append(items, "T"), " "))
				// three ticks: every connection's last activity is now older than the timeout
				for t := 0; t < 3 && ok; t++ {
					ok = fc.tick()
				}
				if !ok {
					r.Violate("http.table", "schedule", "the cleaner did not run on a tick", strings.Join(items, " "), nil, nil)
					break
				}
				items, outs = append(items, "T"), append(outs, "ok")
				idledOut = len(objs)
			case op == 5 && k%2 == 1:
				// a Write that its caller has given up on (finished context): an error, and the connection —
				// which other calls are using — is as alive as before (model label writeGaveUp)
				j := rng.Intn(len(objs))
				item := fmt.Sprintf("G%d", j)
				r.Progress("http.table", strings.Join(append(items, item), " "))
				gone, cancelGone := context.WithCancel(context.Background())
				cancelGone()
				var err error
				if !within(hangTimeout, func() {
					err = objs[j].Write(gone, &Rpc{Id: 1, Header: &goatorepo.RequestHeader{Method: "/svc/m", Source: "me", Destination: "x"}})
				}) {
					r.Violate("http.table.hang", "ops", "a Write with a finished context did not return", strings.Join(append(items, item), " "), goroutineDump(), nil)
					ok = false
				}
				out := "err"
				if err == nil {
					out = "nil"
				}
				items, outs = append(items, item), append(outs, out)
			case op == 5:
				// a Write whose envelope cannot be encoded (invalid UTF-8 in a string field): an error, nothing else
				j := rng.Intn(len(objs))
				item := fmt.Sprintf("B%d", j)
				r.Progress("http.table", strings.Join(append(items, item), " "))
				var err error
				if !within(hangTimeout, func() {
					err = objs[j].Write(context.Background(), &Rpc{Id: 1, Header: &goatorepo.RequestHeader{Method: "/svc/m", Source: "caf\xe9", Destination: "x"}})
				}) {
					r.Violate("http.table.hang", "ops", "a Write of an envelope the codec rejects did not return", strings.Join(append(items, item), " "), goroutineDump(), nil)
					ok = false
					break
				}
				out := "err"
				if err == nil {
					out = "nil"
				}
				items, outs = append(items, item), append(outs, out)
			case op < 8:
				j := rng.Intn(len(objs))
				item := fmt.Sprintf("W%d", j)
				r.Progress("http.table", strings.Join(append(items, item), " "))
				var err error
				var pan any
				ret := within(hangTimeout, func() {
					defer func() { pan = recover() }()
					// a REAL failure (nobody listens on ports 1 and 2: connection refused) under a live context; a
					// write its caller gave up on says nothing about the connection (repair 26)
					wctx, wcancel := context.WithTimeout(context.Background(), hangTimeout)
					defer wcancel()
					err = objs[j].Write(wctx, &Rpc{Id: 1, Header: &goatorepo.RequestHeader{Method: "/svc/m", Source: "me", Destination: "x"}})
				})
				out := "err"
				switch {
				case pan != nil:
					out = "panic"
					r.Violate("http.table.crash", "ops", "a Write on an HTTP connection object panicked", strings.Join(append(items, item), " "), fmt.Sprint(pan), "an error")
					ok = false
				case !ret:
					out = "hang"
					r.Violate("http.table.hang", "ops", "a Write to an address where nobody listens did not return", strings.Join(append(items, item), " "), goroutineDump(), nil)
					ok = false
				case err == nil:
					out = "nil"
				}
				items, outs = append(items, item), append(outs, out)
			default:
				j := rng.Intn(len(objs))
				item := fmt.Sprintf("R%d", j)
				r.Progress("http.table", strings.Join(append(items, item), " "))
				ctx, c := context.WithTimeout(context.Background(), 5*time.Millisecond)
				_, err := objs[j].Read(ctx)
				c()
				out := "pending"
				if err != context.DeadlineExceeded {
					out = "closed"
				}
				if j < idledOut && out == "pending" {
					r.Violate("http.table.idle", "ops", "a connection that was idle past its timeout did not fail its reader", strings.Join(append(items, item), " "), "Read still waiting", "readCh closed")
					ok = false
				}
				items, outs = append(items, item), append(outs, out)
			}
		}
		if ok {
			r.Case("httptable", strings.Join(items, " "), strings.Join(outs, " "))
			r.Eval("http.table/"+strings.Join(items, " "), true)
			r.Count(fmt.Sprintf("http.table.len%02d", len(items)))
		}
		node.Close()
		hooks.Reset(false)
	}
}

// c19HttpFirstContact: several requests from a source the node has never seen arrive at the same time.
// The source gets ONE connection: one announcement (OnConnect), every envelope delivered exactly once
// on it, in some order.
func c19HttpFirstContact(r *Run) {
	rounds := r.Scale(300, 8000)
	const k = 6
	node := c19NewNode(c19IdentityMapper)
	defer node.Close()
	type got struct {
		id  string
		env *Rpc
	}
	delivered := make(chan got, 1<<16)
	announced := map[string]int{}
	var amu sync.Mutex
	ctx, cancel := context.WithCancel(context.Background())
	defer cancel()
	go func() {
		for {
			select {
			case c := <-node.conns:
				amu.Lock()
				announced[c.id]++
				amu.Unlock()
				go func() {
					for {
						e, err := c.rw.Read(ctx)
						if err != nil {
							return
						}
						delivered <- got{c.id, e}
					}
				}()
			case <-ctx.Done():
				return
			}
		}
	}()
	for round := 0; round < rounds && r.NumViolations() <= 4; round++ {
		src := fmt.Sprintf("fresh-%d", round)
		if round%64 == 0 {
			r.Progress("http.firstcontact", map[string]any{"round": round, "concurrent_requests": k})
		}
		start := make(chan struct{})
		var wg sync.WaitGroup
		codes := make([]int, k)
		for i := 0; i < k; i++ {
			body, _ := goat_marshal(&Rpc{Id: uint64(i + 1), Header: &goatorepo.RequestHeader{Method: "/svc/m", Source: src, Destination: "node"}})
			wg.Add(1)
			go func(i int) {
				defer wg.Done()
				<-start
				rec := httptest.NewRecorder()
				node.serve(rec, httptest.NewRequest("POST", "/", bytes.NewReader(body)))
				codes[i] = rec.Code
			}(i)
		}
		close(start)
		if !within(hangTimeout, wg.Wait) {
			r.Violate("http.firstcontact.hang", "schedule", "a request of a new source was never delivered (nobody was given a connection that it is delivered on)", map[string]any{"round": round, "source": src}, goroutineDump(), nil)
			return
		}
		seen := map[uint64]int{}
		for i := 0; i < k; i++ {
			select {
			case g := <-delivered:
				if g.id == src {
					seen[g.env.Id]++
				}
			case <-time.After(hangTimeout):
				r.Violate("http.firstcontact.lost", "schedule", "an envelope answered with 200 was not delivered", map[string]any{"round": round, "source": src}, fmt.Sprint(seen), nil)
				return
			}
		}
		amu.Lock()
		n := announced[src]
		amu.Unlock()
		bad := n != 1
		for i := 1; i <= k; i++ {
			if seen[uint64(i)] != 1 {
				bad = true
			}
		}
		if bad {
			r.Violate("http.firstcontact", "schedule", "concurrent first requests of one source: the source must get one connection (one announcement) and every envelope exactly once", map[string]any{"round": round, "source": src, "concurrent_requests": k},
				map[string]any{"announcements": n, "delivered": fmt.Sprint(seen), "status": codes}, "1 announcement, each envelope once")
		}
		r.Eval("http.firstcontact/"+src, true)
	}
	r.CountN("http.firstcontact.rounds", rounds)
}

// c19HttpChunked: a well-formed envelope POSTed without a Content-Length (a body of undeclared length goes
// out with Transfer-Encoding: chunked — a client streaming from a reader, a non-Go peer, an unbuffered
// reverse proxy) is an envelope like any other: 200, delivered, equal to what was written, in order with
// its neighbours.
func c19HttpChunked(r *Run) {
	rng := r.Rand("c19.chunked")
	node := c19NewNode(c19IdentityMapper)
	defer node.Close()
	n := r.Scale(12, 300)
	ctx, cancel := context.WithTimeout(context.Background(), 6*hangTimeout)
	defer cancel()
	var rw goat.RpcReadWriter
	for i := 0; i < n && r.NumViolations() <= 4; i++ {
		e := c19Env(rng, 31, r.Scale(4<<10, 96<<10), false)
		if e.Header == nil {
			e.Header = &goatorepo.RequestHeader{}
		}
		e.Header.Source = "chunky"
		e.Id = uint64(i + 1)
		raw, _ := goat_marshal(e)
		chunked := i%2 == 1
		in := map[string]any{"i": i, "chunked": chunked, "bytes": len(raw)}
		r.Progress("http.chunked", in)
		var body io.Reader = bytes.NewReader(raw)
		if chunked {
			body = struct{ io.Reader }{body} // hides the length: net/http sends it chunked
		}
		type res struct {
			code int
			err  error
		}
		posted := make(chan res, 1)
		go func() {
			req, _ := http.NewRequestWithContext(ctx, "POST", node.ts.URL, body)
			resp, err := node.ts.Client().Do(req)
			if err != nil {
				posted <- res{0, err}
				return
			}
			io.Copy(io.Discard, resp.Body)
			resp.Body.Close()
			posted <- res{resp.StatusCode, nil}
		}()
		if rw == nil {
			select {
			case c := <-node.conns:
				rw = c.rw
			case p := <-posted:
				r.Violate("http.chunked.status", "ops", "a well-formed envelope was not accepted", in, fmt.Sprint(p.code, " ", p.err), 200)
				return
			case <-ctx.Done():
				return
			}
		}
		got, err := rw.Read(ctx)
		p := <-posted
		switch {
		case p.err != nil || p.code != 200:
			r.Violate("http.chunked.status", "ops", "a well-formed envelope POSTed without a Content-Length was not accepted", in, fmt.Sprint(p.code, " ", p.err), 200)
			return
		case err != nil || !proto.Equal(got, e):
			r.Violate("http.chunked.delivery", "ops", "the envelope read is not the envelope posted", in, fmt.Sprint(c19Brief(got), " ", err), c19Brief(e))
			return
		}
		r.Eval(fmt.Sprintf("http.chunked/%d", i), true)
		r.Count(fmt.Sprintf("http.chunked.%v", chunked))
	}
}
