package main

import (
	"context"
	"fmt"
	"strings"
	"sync"

	"google.golang.org/grpc/metadata"
)

func init() { register("TRACE", func(r *Run) { muxTraceScenario(r, 0) }) }

// muxTraceScenario (strand C): runs genuinely concurrent workloads on one client connection with the
// hook log on, and hands the logged multiplexer events to the Lean driver, which replays them against
// Goat.Mux.step (op "muxtrace"): every step the implementation took must be a step of the model, and
// the registry at quiescence must be the one the model predicts.
func muxTraceScenario(r *Run, variant int) {
	rounds := r.Scale(6, 60)
	for round := 0; round < rounds; round++ {
		rng := r.Rand(fmt.Sprintf("muxtrace/%d/%d", variant, round))
		// the hook log is process-wide: no goroutine of an earlier connection may still be running
		settleGoroutines(0)
		hooks.Reset(true)
		rig := NewRig(RigOpt{Serialise: round%2 == 0})
		log := NewHandlerLog()
		InstallPrograms(rig.Impl, log, nil)
		nUnary := 1 + rng.Intn(r.Scale(12, 48))
		nStream := rng.Intn(5)
		failAt := -1
		if round%3 == 2 {
			failAt = rng.Intn(nUnary + 1)
		}
		var wg sync.WaitGroup
		start := make(chan struct{})
		for i := 0; i < nUnary; i++ {
			wg.Add(1)
			go func(i int) {
				defer wg.Done()
				<-start
				ctx := context.Background()
				if i%5 == 4 {
					c, cancel := context.WithCancel(ctx)
					cancel()
					ctx = c
				}
				if i%7 == 6 {
					ctx = metadata.AppendToOutgoingContext(ctx, "x-prog", "fail:0:5")
				}
				callUnary(ctx, rig.CC, []byte(fmt.Sprintf("t%d-%d", round, i)))
				if i == failAt {
					rig.CEnd.FailRead(errInjectedRead)
				}
			}(i)
		}
		progs := []string{"echo", "burst:2", "aftereof:1", "early:1", "fail:1:9"}
		for i := 0; i < nStream; i++ {
			wg.Add(1)
			go func(i int) {
				defer wg.Done()
				<-start
				runStreamCall(context.Background(), rig.CC, mBidi, fmt.Sprintf("ts%d-%d", round, i), progs[(round+i)%len(progs)], []string{"sendall", "conc", "pingpong"}[i%3], 1+i%3, nil)
			}(i)
		}
		close(start)
		if !within(3*hangTimeout, wg.Wait) {
			r.Violate("muxtrace.hang", "history", "workload did not finish", round, goroutineDump(), nil)
			rig.Close()
			hooks.Reset(false)
			return
		}
		// quiescence: every stream's finishing block has unregistered (event-driven, no sleep)
		allocs := map[uint64]string{}
		for _, e := range hooks.Events() {
			if e.Site == "mux.alloc" {
				allocs[e.ID] = e.Detail
			}
		}
		for id, kind := range allocs {
			if kind != "stream" {
				continue
			}
			id := id
			registered := false
			for _, e := range hooks.Events() {
				if e.Site == "mux.register" && e.ID == id && e.Detail == "ok" {
					registered = true
				}
			}
			if registered {
				hooks.WaitFor(func(e Event) bool { return e.Site == "mux.unregister" && e.ID == id }, hangTimeout)
			}
		}
		count := rig.CC.VerifHandlerCount()
		evs := hooks.Events()
		hooks.Reset(false)
		rig.Close()
		var parts []string
		for _, e := range evs {
			switch e.Site {
			case "mux.alloc":
				parts = append(parts, fmt.Sprintf("alloc:%d:%s", e.ID, e.Detail))
			case "mux.register":
				parts = append(parts, fmt.Sprintf("register:%d:%s", e.ID, e.Detail))
			case "mux.lookup":
				parts = append(parts, fmt.Sprintf("lookup:%d:%s", e.ID, e.Detail))
			case "mux.deliver":
				parts = append(parts, fmt.Sprintf("deliver:%d", e.ID))
			case "mux.drop":
				parts = append(parts, fmt.Sprintf("drop:%d", e.ID))
			case "mux.unregister":
				parts = append(parts, fmt.Sprintf("unregister:%d:%s", e.ID, e.Detail))
			case "mux.fail":
				parts = append(parts, "fail")
			}
		}
		if len(parts) == 0 {
			continue
		}
		r.Case("muxtrace", fmt.Sprintf("%d|%s", count, strings.Join(parts, ";")), "accept")
		r.Trace()
		r.CountN("muxtrace.events", len(parts))
		r.Count("muxtrace.traces")
	}
}
