package main

import (
	"context"
	"fmt"
	"io"
	"sync/atomic"
	"time"

	goat "github.com/avos-io/goat"
	"github.com/avos-io/goat/gen/goatorepo"
	"google.golang.org/protobuf/types/known/wrapperspb"
)

// c05Backlog: a call is abandoned while envelopes addressed to it are still unread — k of them
// (k = 1..4: one offered to the caller, one in the call's queue, the rest behind the connection's read
// loop) — and the NEXT calls on the connection (unary, then a stream) must see their own envelopes only:
// nothing of the abandoned call's backlog may reach them, whatever the library does with the abandoned
// call's queue. Each later call's reply is fed only after its request has been written.
func c05Backlog(r *Run) {
	body := func(who string, i int) *goatorepo.Body {
		b, _ := goat_marshal(&wrapperspb.BytesValue{Value: c05Body(who, i)})
		return &goatorepo.Body{Data: b}
	}
	reps := r.Scale(3, 40)
	for rep := 0; rep < reps && r.NumViolations() == 0; rep++ {
		for k := 1; k <= 4 && r.NumViolations() == 0; k++ {
			for _, how := range []string{"cancel", "sendfail"} {
				in := map[string]any{"unread": k, "abandon": how, "rep": rep}
				r.Progress("backlog", in)
				hooks.Reset(true)
				sc := NewScript(0)
				sc.Out = make(chan *Rpc, 64)
				tr := &c05FailOnce{Script: sc}
				cc := goat.NewClientConn(tr, "c", "s")
				ctx, cancel := context.WithCancel(context.Background())
				cs, err := cc.NewStream(ctx, descBidi, mBidi)
				if err != nil {
					r.Violate("backlog.start", "ops", "stream could not be opened", in, err.Error(), nil)
					cancel()
					hooks.Reset(false)
					return
				}
				open := <-sc.Out
				fed := make(chan struct{})
				go func() {
					defer close(fed)
					for i := 0; i < k; i++ {
						select {
						case sc.In <- &Rpc{Id: open.Id, Header: &goatorepo.RequestHeader{Method: mBidi}, Body: body("stale", i)}:
						case <-ctx.Done():
							// the read loop is parked on this call's queue until the call is gone
							select {
							case sc.In <- &Rpc{Id: open.Id, Header: &goatorepo.RequestHeader{Method: mBidi}, Body: body("stale", i)}:
							case <-time.After(hangTimeout):
								return
							}
						}
					}
				}()
				// wait until the read loop has looked the call up for the last envelope it can get to:
				// envelopes 1 and 2 are taken (offered to the caller / queued), the third parks the read loop
				want := k
				if want > 3 {
					want = 3
				}
				seen := 0
				if !hooks.WaitFor(func(e Event) bool {
					if e.Site == "mux.lookup" && e.ID == open.Id {
						seen++
					}
					return seen >= want
				}, hangTimeout) {
					r.Violate("backlog.stall", "ops", "the client stopped reading its transport", in, goroutineDump(), nil)
					cancel()
					hooks.Reset(false)
					return
				}
				if how == "cancel" {
					cancel()
				} else {
					tr.arm.Store(true)
					sendB(cs, []byte("x"))
				}
				// the abandoned call comes to its end without anybody reading
				if !hooks.WaitFor(siteIs("cs.fin.done", open.Id), hangTimeout) {
					r.Violate("backlog.stall", "ops", "the abandoned stream never finished", in, goroutineDump(), nil)
					cancel()
					hooks.Reset(false)
					return
				}
				if !within(hangTimeout, func() { <-fed }) {
					r.Violate("backlog.stall", "ops", "the read loop stayed parked behind the abandoned call", in, goroutineDump(), nil)
					cancel()
					hooks.Reset(false)
					return
				}
				// drain what the abandoned call wrote (reset)
				for len(sc.Out) > 0 {
					<-sc.Out
				}
				// next call: unary
				type ares struct {
					out []byte
					err error
				}
				done := make(chan ares, 1)
				go func() {
					out, err := callUnary(context.Background(), cc, []byte("q"))
					done <- ares{out, err}
				}()
				var req *Rpc
				select {
				case req = <-sc.Out:
				case <-time.After(hangTimeout):
					r.Violate("backlog.next", "ops", "the next call's request was not written", in, goroutineDump(), nil)
					cancel()
					hooks.Reset(false)
					return
				}
				if req.Id == open.Id {
					r.Violate("backlog.ids", "ops", "the call started after an abandoned stream was given the abandoned stream's id", in, req.Id, "an id never used on this connection")
				}
				early := false
				select {
				case res := <-done:
					// returned before any reply was fed: whatever it got is not its own
					early = true
					r.Violate("backlog.owner", "ops", "a unary call returned before its reply was sent: it was handed an envelope of the abandoned call", in, fmt.Sprintf("out=%q err=%v", res.out, res.err), "still waiting")
				case <-time.After(2 * time.Millisecond):
				}
				if !early {
					sc.In <- &Rpc{Id: req.Id, Header: &goatorepo.RequestHeader{Method: mUnary}, Body: body("own", 0), Trailer: &goatorepo.Trailer{}}
					select {
					case res := <-done:
						if res.err != nil || string(res.out) != string(c05Body("own", 0)) {
							r.Violate("backlog.owner", "ops", "the call after an abandoned one did not get its own reply", in, fmt.Sprintf("out=%q err=%v", res.out, res.err), string(c05Body("own", 0)))
						}
					case <-time.After(hangTimeout):
						r.Violate("backlog.next", "ops", "the call after an abandoned one never returned", in, goroutineDump(), nil)
					}
				}
				r.Eval(fmt.Sprintf("backlog/%d/%s", k, how), true)
				r.Count(fmt.Sprintf("backlog.unread%d.%s", k, how))
				cancel()
				sc.FailRead(io.ErrUnexpectedEOF)
				hooks.Reset(false)
			}
		}
	}
}

// c05FailOnce refuses exactly one Write when armed.
type c05FailOnce struct {
	*Script
	arm atomic.Bool
}

func (t *c05FailOnce) Write(ctx context.Context, r *Rpc) error {
	if t.arm.CompareAndSwap(true, false) {
		return errInjectedWrite
	}
	return t.Script.Write(ctx, r)
}

// c05LongBacklog: the peer sends one stream far more envelopes than its caller has taken (150 messages and
// the trailer, while the caller is not reading at all). However the library buffers or blocks, when the
// caller finally reads it gets the messages in the order they were sent, every one, then the end.
func c05LongBacklog(r *Run) {
	if !r.Want("longbacklog") {
		return
	}
	const n = 150
	for rep, reps := 0, r.Scale(2, 20); rep < reps && r.NumViolations() == 0; rep++ {
		in := map[string]any{"messages_sent_before_the_caller_reads": n, "rep": rep}
		r.Progress("longbacklog", in)
		sc := NewScript(0)
		sc.Out = make(chan *Rpc, 64)
		cc := goat.NewClientConn(sc, "c", "s")
		cs, err := cc.NewStream(context.Background(), descBidi, mBidi)
		if err != nil {
			r.Violate("longbacklog.open", "ops", "stream could not be opened", in, err.Error(), nil)
			return
		}
		open := <-sc.Out
		var fed atomic.Int64
		feederDone := make(chan struct{})
		stop := make(chan struct{})
		go func() {
			defer close(feederDone)
			for i := 0; i <= n; i++ {
				e := &Rpc{Id: open.Id, Header: &goatorepo.RequestHeader{Method: mBidi}}
				if i < n {
					b, _ := goat_marshal(&wrapperspb.BytesValue{Value: []byte(fmt.Sprintf("m%03d", i))})
					e.Body = &goatorepo.Body{Data: b}
				} else {
					e.Status, e.Trailer = &goatorepo.ResponseStatus{Code: 0, Message: "OK"}, &goatorepo.Trailer{}
				}
				select {
				case sc.In <- e:
					fed.Add(1)
				case <-stop:
					return
				}
			}
		}()
		// wait until the feeder has stalled (the library takes no more without a reader) or is through
		last, still := int64(-1), 0
		for still < 10 && fed.Load() <= n {
			time.Sleep(2 * time.Millisecond)
			if v := fed.Load(); v == last {
				still++
			} else {
				last, still = v, 0
			}
		}
		r.CountN("longbacklog.taken_without_reader", int(fed.Load()))
		var got []string
		var term error
		if !within(3*hangTimeout, func() {
			for {
				b, err := recvB(cs)
				if err != nil {
					term = err
					return
				}
				got = append(got, string(b))
			}
		}) {
			r.Violate("longbacklog.hang", "ops", "the caller did not get to the end of its stream", in, goroutineDump(), nil)
			close(stop)
			sc.FailRead(io.ErrUnexpectedEOF)
			return
		}
		for i, g := range got {
			if want := fmt.Sprintf("m%03d", i); g != want {
				r.Violate("longbacklog.order", "ops", "per-call order of envelopes not preserved", in, fmt.Sprintf("position %d: received %s", i, g), want)
				break
			}
		}
		if len(got) != n || term != io.EOF {
			r.Violate("longbacklog.complete", "ops", "the caller did not receive every message followed by io.EOF", in, fmt.Sprintf("%d messages, then %v", len(got), term), fmt.Sprintf("%d messages, then EOF", n))
		}
		close(stop)
		<-feederDone
		r.Eval(fmt.Sprintf("longbacklog/%d", rep), true)
		r.Count("longbacklog.streams")
		sc.FailRead(io.ErrUnexpectedEOF)
	}
}
