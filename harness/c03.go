package main

import (
	"context"
	"errors"
	"fmt"
	"io"
	"strings"
	"time"

	goat "github.com/avos-io/goat"
	"github.com/avos-io/goat/gen/goatorepo"
	"google.golang.org/grpc"
	"google.golang.org/grpc/codes"
	"google.golang.org/grpc/status"
	"google.golang.org/protobuf/types/known/anypb"
	"google.golang.org/protobuf/types/known/wrapperspb"
)

func init() { register("C03", runC03) }

type okCoded struct{ msg string }

func (e okCoded) Error() string              { return "okcoded: " + e.msg }
func (e okCoded) GRPCStatus() *status.Status { return status.New(codes.OK, e.msg) }

type errSpec struct {
	Kind    string // nil status wrapped plain canceled deadline
	Code    int
	Msg     string
	Details [][2]string // (type url, value)
	Outer   string
}

func (s errSpec) build() error {
	switch s.Kind {
	case "nil":
		return nil
	case "status", "wrapped":
		var e error
		if s.Code == 0 {
			e = okCoded{s.Msg}
		} else {
			st := status.New(codes.Code(s.Code), s.Msg)
			if len(s.Details) > 0 {
				p := st.Proto()
				for _, d := range s.Details {
					p.Details = append(p.Details, &anypb.Any{TypeUrl: d[0], Value: []byte(d[1])})
				}
				st = status.FromProto(p)
			}
			e = st.Err()
		}
		if s.Kind == "wrapped" {
			return fmt.Errorf("%s: %w", s.Outer, e)
		}
		return e
	case "plain":
		return errors.New(s.Msg)
	case "canceled":
		return context.Canceled
	case "deadline":
		return context.DeadlineExceeded
	}
	return nil
}

func detailHex(typeURL string, value []byte) string {
	return hx(append(append([]byte(typeURL), 0), value...))
}

func (s errSpec) input(mode string) string {
	ds := "_"
	if len(s.Details) > 0 && s.Code != 0 {
		p := make([]string, len(s.Details))
		for i, d := range s.Details {
			p[i] = detailHex(d[0], []byte(d[1]))
		}
		ds = strings.Join(p, ",")
	}
	outer := s.Outer
	if s.Kind == "wrapped" {
		outer = s.Outer + ": " + s.build().(interface{ Unwrap() error }).Unwrap().Error()
	}
	return fmt.Sprintf("%s|%s|%d|%s|%s|%s", mode, s.Kind, s.Code, hxs(s.Msg), ds, hxs(outer))
}

// outcomeOf renders what a caller observed in the driver's form.
func outcomeOf(err error, stream bool) string {
	if err == nil {
		return "ok"
	}
	if stream && err == io.EOF {
		return "eof"
	}
	if strings.Contains(err.Error(), "malformed response: no body or status") {
		return "malformed"
	}
	st, _ := status.FromError(err)
	p := st.Proto()
	ds := "_"
	if len(p.GetDetails()) > 0 {
		q := make([]string, len(p.Details))
		for i, d := range p.Details {
			q[i] = detailHex(d.TypeUrl, d.Value)
		}
		ds = strings.Join(q, ",")
	}
	return fmt.Sprintf("err:%d:%s:%s", p.GetCode(), hxs(p.GetMessage()), ds)
}

func runC03(r *Run) {
	if r.Want("product") {
		c03Product(r)
	}
	if r.Want("foreign") {
		c03Foreign(r)
	}
	if r.Want("closesend") {
		c03CloseSendAfterEnd(r)
	}
	if r.Want("connfail") {
		c03ConnFailureIsNotSuccess(r)
	}
	// the forced window between a RecvMsg's done-check and the read loop's finishing block (c02.go): the
	// RecvMsg that crosses it must report how the handler finished (nil -> io.EOF, status -> that status)
	if r.Want("window") {
		c02Window(r)
	}
	// … and the stream workloads with randomised yields at the library's yield points: success at the
	// caller iff the handler returned nil, its status otherwise (the streamSeq monitor's .eof / .status parts)
	if r.Want("yields") {
		c02Yields(r)
	}
	// a stream whose status trailer was read before the connection failed: the caller gets that status (c02b.go)
	c02CompletedThenConnFailWith(r, true)
	// the status over every shipped transport (topo.go)
	topoSweep(r, "status")
	c03EOFShapedFailure(r)
	c03LateFailure(r)
	c03ViaProxy(r)
	// a call abandoned with unread envelopes, then the next call: its outcome is its own handler's (c05b.go)
	if r.Want("backlog") {
		c05Backlog(r)
	}
}

// c03ConnFailureIsNotSuccess: the connection dies in mid-stream (whatever error value the transport
// reports for it, io.EOF included) while the handler has not returned nil: no receive may report
// io.EOF, at every position of the stream.
func c03ConnFailureIsNotSuccess(r *Run) {
	errs := []error{io.EOF, fmt.Errorf("read: %w", io.EOF), io.ErrUnexpectedEOF, errInjectedRead}
	for i, e := range errs {
		for pos := 0; pos < 3; pos++ {
			for _, method := range []string{mBidi, mSrvStream, mCliStream} {
				rig := NewRig(RigOpt{Serialise: true})
				rig.Impl.SetStream(func(m string, ss grpc.ServerStream) error {
					for j := 0; j < pos; j++ {
						if m != mCliStream {
							sendB(ss, []byte("r"))
						}
					}
					<-ss.Context().Done()
					return status.Error(codes.DataLoss, "connection lost")
				})
				in := map[string]any{"error": e.Error(), "position": pos, "method": method}
				r.Progress("connfail", in)
				cs, err := rig.CC.NewStream(context.Background(), descOf(method), method)
				if err != nil {
					rig.Close()
					continue
				}
				sendB(cs, []byte("m"))
				got := 0
				if method != mCliStream {
					for j := 0; j < pos; j++ {
						if _, e2 := recvB(cs); e2 == nil {
							got++
						}
					}
				}
				rig.CEnd.FailRead(e)
				var last error
				ok := within(hangTimeout, func() {
					for {
						if _, e2 := recvB(cs); e2 != nil {
							last = e2
							return
						}
					}
				})
				r.Eval(fmt.Sprintf("connfail/%d/%d/%s", i, pos, method), true)
				r.Count("connfail")
				if !ok {
					r.Violate("connfail.hang", "ops", "receive did not return after the connection failed", in, nil, nil)
				} else if last == io.EOF {
					r.Violate("connfail.eof", "ops", "stream reported io.EOF (success) although the connection failed and the handler did not return nil", in, "io.EOF", "a non-OK status")
				}
				rig.Close()
			}
		}
	}
}

func c03Product(r *Run) {
	rng := r.Rand("c03")
	rig := NewRig(RigOpt{Serialise: true})
	defer rig.Close()
	var cur errSpec
	consume := 0
	rig.Impl.SetUnary(func(ctx context.Context, req []byte) ([]byte, error) {
		if e := cur.build(); e != nil {
			return nil, e
		}
		return req, nil
	})
	rig.Impl.SetStream(func(method string, ss grpc.ServerStream) error {
		for i := 0; i < consume; i++ {
			if _, err := recvB(ss); err != nil {
				break
			}
			if method != mCliStream {
				sendB(ss, []byte("r"))
			}
		}
		if e := cur.build(); e != nil {
			return e
		}
		if method == mCliStream {
			sendB(ss, []byte("final"))
		}
		return nil
	})
	msgs := []string{"", "boom", "ünïcödé ✓ 日本語", strings.Repeat("long message ", 315)}
	dets := [][][2]string{nil, {{"type.googleapis.com/x.A", "\x08\x01"}}, {{"type.googleapis.com/x.A", ""}, {"t/B", "\x00\xff"}}, {{"a", "1"}, {"b", "2"}, {"c", "3"}}}
	kinds := []string{"status", "wrapped", "plain", "canceled", "deadline", "nil"}
	modes := []string{"unary", mBidi, mSrvStream, mCliStream}
	var specs []errSpec
	for code := 0; code <= 16; code++ {
		for mi, m := range msgs {
			for di, d := range dets {
				for _, k := range kinds {
					if (k != "status" && k != "wrapped") && (code != 2 || di != 0) {
						continue // code/details only matter for status errors
					}
					if !r.Thorough() && (k == "status" || k == "wrapped") && (mi+di+code)%4 != 0 && !(mi == 1 && di == 1) {
						continue
					}
					specs = append(specs, errSpec{Kind: k, Code: code, Msg: m, Details: d, Outer: "outer"})
				}
			}
		}
	}
	rng.Shuffle(len(specs), func(i, j int) { specs[i], specs[j] = specs[j], specs[i] })
	// every code through every kind of call at least once, whatever the sampling above picked
	forced := map[int]string{}
	for code := 1; code <= 16; code++ {
		for _, m := range modes {
			forced[len(specs)] = m
			specs = append(specs, errSpec{Kind: "status", Code: code, Msg: "boom", Details: dets[1], Outer: "outer"})
			if code%5 == 2 {
				forced[len(specs)] = m
				specs = append(specs, errSpec{Kind: "wrapped", Code: code, Msg: "boom", Details: dets[1], Outer: "outer"})
			}
		}
	}
	for i, sp := range specs {
		mode := modes[i%4]
		if m, ok := forced[i]; ok {
			mode = m
		}
		positions := []int{0}
		if mode != "unary" {
			positions = []int{0, 1, 2}[:1+i%3]
		}
		for _, pos := range positions {
			cur, consume = sp, pos
			in := sp.input(map[bool]string{true: "unary", false: "stream"}[mode == "unary"])
			r.Progress("product", map[string]any{"mode": mode, "spec": in, "position": pos})
			var err error
			if mode == "unary" {
				_, err = callUnary(context.Background(), rig.CC, []byte("q"))
			} else {
				var cs grpc.ClientStream
				cs, err = rig.CC.NewStream(context.Background(), descOf(mode), mode)
				if err == nil {
					n := 2
					if mode == mSrvStream {
						n = 1
					}
					for j := 0; j < n; j++ {
						sendB(cs, []byte("m"))
					}
					cs.CloseSend()
					for {
						if _, e := recvB(cs); e != nil {
							err = e
							break
						}
					}
				}
			}
			got := outcomeOf(err, mode != "unary")
			r.Case("statusrt", in, got)
			r.Count("product." + sp.Kind)
			r.Count("product.mode." + map[bool]string{true: "unary", false: "stream"}[mode == "unary"])
			// the monitor: success iff nil; status errors arrive code/message/details intact
			want := sp.build()
			succeeded := err == nil || err == io.EOF
			if succeeded != (want == nil) {
				r.Violate("product.success", "ops", "caller observes success exactly when the handler returned nil", in, got, fmt.Sprint(want))
			}
			if sp.Kind == "wrapped" && sp.Code != 0 {
				// an error that WRAPS a status error (fmt.Errorf("…: %w", st.Err())) carries that status: its code
				// (and details) reach the caller of a unary call and of a stream alike
				if st, _ := status.FromError(err); st.Code() != codes.Code(sp.Code) {
					r.Violate("product.wrapped", "ops", "the code of a status error wrapped by the handler (or an interceptor) must reach the caller", in, got, fmt.Sprintf("code %d", sp.Code))
				}
			}
			if sp.Kind == "status" && sp.Code != 0 {
				st, _ := status.FromError(err)
				wantSt, _ := status.FromError(want)
				if st.Code() != wantSt.Code() || st.Message() != wantSt.Message() || len(st.Proto().GetDetails()) != len(wantSt.Proto().GetDetails()) {
					r.Violate("product.status", "ops", "code, message and details of the handler's status must reach the caller", in, got, outcomeOf(want, false))
				}
			}
			if sp.Kind == "plain" {
				st, _ := status.FromError(err)
				if st.Code() == codes.OK || !strings.Contains(st.Message(), sp.Msg) {
					r.Violate("product.plain", "ops", "a non-status error must surface as a non-OK status carrying the error text", in, got, sp.Msg)
				}
			}
		}
		if r.NumViolations() > 5 {
			return
		}
	}
}

// c03Foreign feeds replies as a foreign peer might produce them to the real client.
func c03Foreign(r *Run) {
	type reply struct {
		name                      string
		hasStatus                 bool
		code                      int32
		hasBody, trailer, isReset bool
	}
	replies := []reply{
		{"ok-status+body", true, 0, true, true, false},
		{"ok-status-no-body", true, 0, false, true, false},
		{"status-no-trailer-md", true, 5, false, true, false},
		{"status+body", true, 7, true, true, false},
		{"body-only", false, 0, true, true, false},
		{"nothing", false, 0, false, true, false},
		{"reset", false, 0, false, true, true},
		{"reset+status-ok", true, 0, false, true, true},
	}
	for _, rp := range replies {
		for _, mode := range []string{"unary", "stream"} {
			if mode == "unary" && rp.isReset {
				continue
			}
			sc := NewScript(64)
			cc := goat.NewClientConn(sc, "c", "s")
			mk := func(id uint64, method string) *Rpc {
				e := &Rpc{Id: id, Header: &goatorepo.RequestHeader{Method: method, Source: "s", Destination: "c"}}
				if rp.hasStatus {
					e.Status = &goatorepo.ResponseStatus{Code: rp.code, Message: "m"}
				}
				if rp.hasBody && mode == "unary" {
					b, _ := goat_marshal(&wrapperspb.BytesValue{Value: []byte("v")})
					e.Body = &goatorepo.Body{Data: b}
				}
				if rp.trailer {
					e.Trailer = &goatorepo.Trailer{}
				}
				if rp.isReset {
					e.Reset_ = &goatorepo.Reset{Type: "RST_STREAM"}
				}
				return e
			}
			in := fmt.Sprintf("%s|%d|%d|%d|%d", mode, b2i(rp.hasStatus), rp.code, b2i(rp.hasBody && mode == "unary"), b2i(rp.isReset))
			r.Progress("foreign", in)
			var err error
			ok := within(hangTimeout, func() {
				if mode == "unary" {
					go func() {
						req := <-sc.Out
						sc.In <- mk(req.Id, req.Header.Method)
					}()
					_, err = callUnary(context.Background(), cc, []byte("q"))
				} else {
					cs, e := cc.NewStream(context.Background(), descBidi, mBidi)
					if e != nil {
						err = e
						return
					}
					req := <-sc.Out
					sc.In <- mk(req.Id, req.Header.Method)
					_, err = recvB(cs)
				}
			})
			sc.FailRead(io.ErrClosedPipe)
			if !ok {
				r.Violate("foreign.hang", "ops", "call did not return", in, rp.name, nil)
				continue
			}
			got := outcomeOf(err, mode == "stream")
			if strings.HasPrefix(got, "err:14:") {
				got = "err:14:-:_" // the reset's error text is the client's own wording
			} else if strings.HasPrefix(got, "err:") && rp.hasStatus {
				got = fmt.Sprintf("err:%d:-:_", rp.code) // message is not part of the foreign op
			}
			r.Case("foreign", in, got)
			r.Count("foreign." + rp.name)
			succeeded := got == "ok" || got == "eof"
			if rp.isReset && succeeded {
				r.Violate("foreign.reset", "ops", "a stream reset by the peer was reported as success", in, got, "error")
			}
			if rp.name == "ok-status+body" && mode == "unary" && got != "ok" {
				r.Violate("foreign.okbody", "ops", "a reply with explicit OK status and a body must be a success", in, got, "ok")
			}
			if rp.hasStatus && rp.code != 0 && succeeded {
				r.Violate("foreign.status", "ops", "a failed call reported as success", in, got, "error")
			}
		}
	}
}

func b2i(b bool) int {
	if b {
		return 1
	}
	return 0
}

// c03CloseSendAfterEnd: the generated CloseAndRecv (CloseSend; RecvMsg) after the server already
// ended the stream must report the handler's status, at every position of the client's program.
func c03CloseSendAfterEnd(r *Run) {
	rig := NewRig(RigOpt{Serialise: true})
	defer rig.Close()
	n := r.Scale(24, 400)
	for i := 0; i < n; i++ {
		code := codes.Code(1 + i%16)
		k := i % 3
		rig.Impl.SetStream(func(method string, ss grpc.ServerStream) error {
			for j := 0; j < k; j++ {
				recvB(ss)
			}
			return status.Error(code, "early")
		})
		hooks.Reset(true)
		cs, err := rig.CC.NewStream(context.Background(), descCli, mCliStream)
		if err != nil {
			r.Violate("closesend.open", "ops", "open failed", i, err.Error(), nil)
			continue
		}
		for j := 0; j < k; j++ {
			sendB(cs, []byte("m"))
		}
		// wait until the client has processed the server's trailer (the stream is done)
		if !hooks.WaitFor(siteIs("cs.fin.done", 0), hangTimeout) {
			r.Violate("closesend.wait", "history", "client stream never finished after the handler returned", i, nil, nil)
			hooks.Reset(false)
			continue
		}
		hooks.Reset(false)
		// CloseAndRecv, as generated code does it
		var got error
		if e := cs.CloseSend(); e != nil {
			got = e
		} else {
			m := new(wrapperspb.BytesValue)
			got = cs.RecvMsg(m)
		}
		r.Eval(fmt.Sprintf("closesend/%d/%d", code, k), true)
		r.Count("closesend")
		if status.Code(got) != code {
			r.Violate("closesend.status", "schedule", "CloseAndRecv after the server ended the stream must report the handler's status", map[string]any{"code": int(code), "sent": k}, fmt.Sprint(got), code.String())
		}
	}
	_ = time.Second
}

// c03EOFShapedFailure: a client-streaming / bidi handler reads its input to the end (it sees the
// caller's half-close as io.EOF) and then FAILS with a plain error that is, or wraps, io.EOF — a backend
// read that came up short ("commit batch: unexpected EOF" style). The handler did not return nil: the
// caller must not be told the stream completed.
func c03EOFShapedFailure(r *Run) {
	if !r.Want("eofshaped") {
		return
	}
	errs := map[string]error{
		"io.EOF":                 io.EOF,
		"wraps io.EOF":           fmt.Errorf("commit batch: %w", io.EOF),
		"io.ErrUnexpectedEOF":    io.ErrUnexpectedEOF,
		"wraps context.Canceled": fmt.Errorf("backend: %w", context.Canceled),
	}
	for name, herr := range errs {
		for _, method := range []string{mBidi, mCliStream} {
			in := map[string]any{"method": method, "handler_returns": name, "after": "reading its input to the half-close"}
			r.Progress("eofshaped", in)
			rig := NewRig(RigOpt{Serialise: true})
			rig.Impl.SetStream(func(m string, ss grpc.ServerStream) error {
				for {
					if _, err := recvB(ss); err != nil {
						break
					}
				}
				return herr
			})
			var term error
			ok := within(3*hangTimeout, func() {
				ctx, cancel := context.WithTimeout(context.Background(), 2*hangTimeout)
				defer cancel()
				cs, err := rig.CC.NewStream(ctx, descOf(method), method)
				if err != nil {
					term = err
					return
				}
				sendB(cs, []byte("m1"))
				sendB(cs, []byte("m2"))
				cs.CloseSend()
				for {
					if _, e := recvB(cs); e != nil {
						term = e
						return
					}
				}
			})
			r.Eval("eofshaped/"+name+"/"+method, true)
			r.Count("c03.eofshaped")
			if !ok {
				r.Violate("eofshaped.hang", "ops", "the stream did not finish", in, goroutineDump(), nil)
			} else if term == nil || term == io.EOF {
				r.Violate("eofshaped.success", "ops", "the handler failed, but the caller was told the stream completed successfully", in, fmt.Sprint(term), "an error status")
			}
			rig.Close()
		}
	}
}

// c03LateFailure: a unary handler that overruns the deadline the REQUEST carries (a grpc-timeout of
// 30 ms set by a foreign peer; the peer itself keeps waiting) and then fails with a plain error or with
// a status — Unknown included — that has a message and details. The status the handler finished with is
// the status the caller observes: code, message, details.
func c03LateFailure(r *Run) {
	if !r.Want("latefailure") {
		return
	}
	sc := NewScript(0)
	sc.Out = make(chan *Rpc, 64)
	impl := &Impl{}
	var cur error
	impl.SetUnary(func(ctx context.Context, req []byte) ([]byte, error) {
		time.Sleep(60 * time.Millisecond) // does not watch its context; the request's 30 ms are over
		return nil, cur
	})
	srv := goat.NewServer("srv")
	srv.RegisterService(&echoDesc, impl)
	served := make(chan error, 1)
	go func() { served <- srv.Serve(context.Background(), sc) }()
	defer func() {
		srv.Stop()
		sc.FailRead(io.ErrClosedPipe)
		within(hangTimeout, func() { <-served })
	}()
	det, _ := anypb.New(&wrapperspb.StringValue{Value: "d"})
	stU := status.New(codes.Unknown, "backend said no")
	stUd, _ := stU.WithDetails(&wrapperspb.StringValue{Value: "d"})
	_ = det
	cases := []struct {
		name string
		err  error
		code codes.Code
		msg  string
		nDet int
	}{
		{"status Unknown with message and details", stUd.Err(), codes.Unknown, "backend said no", 1},
		{"plain error", errors.New("disk on fire"), codes.Unknown, "disk on fire", 0},
		{"status NotFound", status.Error(codes.NotFound, "nf"), codes.NotFound, "nf", 0},
	}
	body, _ := goat_marshal(&wrapperspb.BytesValue{Value: []byte("x")})
	for i, c := range cases {
		in := map[string]any{"handler_returns": c.name, "request_timeout": "30m", "handler_takes": "60ms"}
		r.Progress("latefailure", in)
		cur = c.err
		sc.In <- &Rpc{Id: uint64(i + 1), Header: &goatorepo.RequestHeader{Method: mUnary, Source: "peer", Destination: "srv",
			Headers: []*goatorepo.KeyValue{{Key: "grpc-timeout", Value: "30m"}}}, Body: &goatorepo.Body{Data: body}}
		select {
		case rep := <-sc.Out:
			st := rep.GetStatus()
			r.Eval("latefailure/"+c.name, true)
			r.Count("c03.latefailure")
			if codes.Code(st.GetCode()) != c.code || st.GetMessage() != c.msg || len(st.GetDetails()) != c.nDet {
				r.Violate("latefailure.status", "ops", "the reply does not carry the status the handler finished with (the handler had overrun the request's deadline)", in,
					fmt.Sprintf("code=%d message=%q details=%d", st.GetCode(), st.GetMessage(), len(st.GetDetails())), fmt.Sprintf("code=%d message=%q details=%d", c.code, c.msg, c.nDet))
			}
		case <-time.After(hangTimeout):
			r.Violate("latefailure.none", "ops", "no reply", in, goroutineDump(), nil)
			return
		}
	}
}
