package main

import (
	"context"
	"fmt"
	"io"
	"time"

	"google.golang.org/grpc"
)

// c16SlowReader: a client-streaming / bidirectional RPC relayed client – Proxy – Demux – Server whose
// handler reads more slowly than the caller sends (never more than 12 envelopes outstanding: below the
// proxy's per-destination buffer, so the documented drop cannot occur). The handler receives exactly
// what the caller sent, in order, and the stream completes — as on a direct connection.
func c16SlowReader(r *Run) {
	if !r.Want("slowreader") {
		return
	}
	for rep, reps := 0, r.Scale(2, 12); rep < reps && r.NumViolations() <= 4; rep++ {
		for _, method := range []string{mCliStream, mBidi} {
			n := c01Proxy(rep%2 == 0, 1)
			const msgs = 12
			var got [][]byte
			done := make(chan error, 1)
			n.impl.SetStream(func(m string, ss grpc.ServerStream) error {
				for {
					time.Sleep(6 * time.Millisecond) // slow consumer
					b, err := recvB(ss)
					if err == io.EOF {
						done <- nil
						if m == mCliStream {
							return sendB(ss, []byte("sum"))
						}
						return nil
					}
					if err != nil {
						done <- err
						return err
					}
					got = append(got, b)
				}
			})
			in := map[string]any{"topology": "client-proxy-demux-server", "method": method, "messages": msgs, "caller_sends_every": "1.5ms", "handler_reads_every": "6ms", "rep": rep}
			r.Progress("slowreader", in)
			var want [][]byte
			var term error
			ok := within(3*hangTimeout, func() {
				ctx, cancel := context.WithTimeout(context.Background(), 2*hangTimeout)
				defer cancel()
				cs, err := n.ccs[0].NewStream(ctx, descOf(method), method)
				if err != nil {
					term = err
					return
				}
				for i := 0; i < msgs; i++ {
					p := []byte(fmt.Sprintf("slow-%d-%02d", rep, i))
					if err := sendB(cs, p); err != nil {
						term = err
						return
					}
					want = append(want, p)
					time.Sleep(1500 * time.Microsecond)
				}
				cs.CloseSend()
				for {
					if _, err := recvB(cs); err != nil {
						term = err
						break
					}
				}
				select {
				case <-done:
				case <-time.After(hangTimeout):
				}
			})
			r.Eval(fmt.Sprintf("slowreader/%s/%d", method, rep), true)
			r.Count("slowreader.streams")
			if !ok {
				r.Violate("slowreader.hang", "history", "a relayed stream with a slow handler did not finish", in, goroutineDump(), nil)
			} else {
				if !seqEqual(got, want) {
					r.Violate("slowreader.c2s", "history", "the handler of a relayed stream did not receive exactly what the caller sent, in order (nothing was dropped by the proxy: at most 12 envelopes were outstanding)", in, seqStr(got), seqStr(want))
				}
				if term != io.EOF {
					r.Violate("slowreader.eof", "history", "a relayed stream whose handler returned nil did not end with io.EOF at the caller", in, fmt.Sprint(term), "EOF")
				}
			}
			n.close()
			if !ok {
				return
			}
		}
	}
}
