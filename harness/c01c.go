package main

import (
	"context"
	"fmt"
	"io"
	"sync"
	"time"

	goat "github.com/avos-io/goat"
	"github.com/jonboulle/clockwork"
)

// c01Reattach: a client reconnects to the proxy under its old name while the old connection is still
// half-open (AddClient twice), and only afterwards does the old connection fail. The calls the client
// makes over its NEW connection — before and after the old one's failure — get their handler's reply.
func c01Reattach(r *Run) {
	if !r.Want("reattach") {
		return
	}
	for rep, reps := 0, r.Scale(2, 16); rep < reps && r.NumViolations() <= 4; rep++ {
		for _, fail := range []string{"read", "write"} {
			in := map[string]any{"topology": "client-proxy-server", "old_connection_fails_by": fail, "rep": rep}
			r.Progress("reattach", in)
			ctx, cancel := context.WithCancel(context.Background())
			disc := make(chan string, 16)
			proxy := goat.NewProxy(ctx, "proxy",
				func(id string) (goat.RpcReadWriter, error) { return nil, fmt.Errorf("no such peer %q", id) },
				nil, func(id string, reason error) { disc <- id })
			served := make(chan struct{})
			go func() { defer close(served); proxy.Serve() }()
			impl := &Impl{}
			impl.SetUnary(func(ctx context.Context, req []byte) ([]byte, error) { return unaryF(req), nil })
			srv := goat.NewServer("srv")
			srv.RegisterService(&echoDesc, impl)
			ss, ps := NewPipe(256, rep%2 == 0, nil)
			proxy.AddClient("srv", ps)
			srvDone := make(chan struct{})
			go func() { defer close(srvDone); srv.Serve(ctx, ss) }()
			var ends []*End
			attach := func() *goat.ClientConn {
				ce, pe := NewPipe(256, rep%2 == 0, nil)
				ends = append(ends, ce, pe)
				proxy.AddClient("c0", pe)
				return goat.NewClientConn(ce, "c0", "srv")
			}
			call := func(cc *goat.ClientConn, what string, k int) bool {
				req := []byte(fmt.Sprintf("reattach-%d-%s-%d", rep, what, k))
				cctx, ccancel := context.WithTimeout(context.Background(), hangTimeout)
				got, err := callUnary(cctx, cc, req)
				ccancel()
				r.Count("reattach.calls")
				if err != nil || string(got) != string(unaryF(req)) {
					r.Violate("reattach.none", "ops", "a unary call over the client's current connection to the proxy did not get its handler's reply ("+what+")", in, fmt.Sprintf("reply=%x err=%v", got, err), fmt.Sprintf("%x", unaryF(req)))
					return false
				}
				return true
			}
			cc1 := attach()
			ok := call(cc1, "first connection", 0)
			cc2 := attach()
			ok = ok && call(cc2, "second connection, old one still half-open", 0)
			if ok {
				// the old connection fails now (ends[0] is the client's end, ends[1] the proxy's)
				if fail == "read" {
					ends[1].FailRead(io.ErrUnexpectedEOF)
				} else {
					ends[1].FailWrite(errInjectedWrite)
					ends[1].FailRead(io.ErrUnexpectedEOF)
				}
				select {
				case <-disc:
				case <-time.After(hangTimeout):
					r.Count("reattach.no_disconnect_callback")
				}
				for k := 0; k < 3 && ok; k++ {
					ok = call(cc2, "second connection, after the old one failed", k)
				}
			}
			r.Eval(fmt.Sprintf("reattach/%s/%d", fail, rep), true)
			cancel()
			srv.Stop()
			for _, e := range append(ends, ss, ps) {
				e.FailRead(io.ErrClosedPipe)
				e.FailWrite(io.ErrClosedPipe)
			}
			cc1.Close()
			cc2.Close()
			within(hangTimeout, func() { <-served; <-srvDone })
			if !ok {
				return
			}
		}
	}
}

// c01Websocket: the pairing rounds over the library's websocket transport (the only shipped transport
// that serialises envelopes to bytes): many callers at once, each with its own request of 2 to 16 KiB;
// every caller gets F(its own request) and the handler ran exactly once per request.
func c01Websocket(r *Run) { c01WebsocketWith(r, 24, 2048, 16*1024) }

// c01WebsocketWith: the same with other sizes (C05 runs it with a few callers and bodies up to 1 MiB: an
// envelope larger than the socket takes at once stays in the transport's hands for a while).
func c01WebsocketWith(r *Run, callers, minSize, maxSize int) {
	if !r.Want("websocket") {
		return
	}
	p, err := c19NewWsPair()
	if err != nil {
		r.Count("websocket.no_listener")
		return
	}
	defer p.Close()
	impl := &Impl{}
	var mu sync.Mutex
	ran := map[string]int{}
	impl.SetUnary(func(ctx context.Context, req []byte) ([]byte, error) {
		mu.Lock()
		ran[string(req[:16])]++
		mu.Unlock()
		return unaryF(req), nil
	})
	srv := goat.NewServer("srv")
	srv.RegisterService(&echoDesc, impl)
	ctx, cancel := context.WithCancel(context.Background())
	defer cancel()
	served := make(chan error, 1)
	go func() { served <- srv.Serve(ctx, goat.NewGoatOverWebsocket(p.srv)) }()
	cc := goat.NewClientConn(goat.NewGoatOverWebsocket(p.cli), "c0", "srv")
	defer cc.Close()
	rng := r.Rand("c01.websocket")
	rounds := r.Scale(3, 40)
	for round := 0; round < rounds && r.NumViolations() <= 4; round++ {
		in := map[string]any{"topology": "client-websocket-server", "round": round, "concurrent_callers": callers, "request_bytes": fmt.Sprintf("%d..%d", minSize, maxSize)}
		r.Progress("websocket", in)
		reqs := make([][]byte, callers)
		for i := range reqs {
			b := make([]byte, minSize+rng.Intn(maxSize-minSize+1))
			rng.Read(b)
			copy(b, fmt.Sprintf("ws-%04d-%04d-----", round, i)[:16])
			reqs[i] = b
		}
		type out struct {
			got []byte
			err error
		}
		outs := make([]out, callers)
		var wg sync.WaitGroup
		start := make(chan struct{})
		for i := range reqs {
			wg.Add(1)
			go func(i int) {
				defer wg.Done()
				<-start
				cctx, ccancel := context.WithTimeout(context.Background(), 2*hangTimeout)
				defer ccancel()
				outs[i].got, outs[i].err = callUnary(cctx, cc, reqs[i])
			}(i)
		}
		close(start)
		if !within(3*hangTimeout, wg.Wait) {
			r.Violate("websocket.hang", "ops", "concurrent unary calls over the websocket transport did not return", in, goroutineDump(), nil)
			return
		}
		for i := range reqs {
			r.Eval(fmt.Sprintf("websocket/%d/%d", round, i), true)
			if outs[i].err != nil || string(outs[i].got) != string(unaryF(reqs[i])) {
				r.Violate("websocket.other", "ops", "a caller did not get the handler's reply to ITS request (concurrent callers, websocket transport)", in,
					fmt.Sprintf("caller %d: err=%v reply=%s", i, outs[i].err, clipHex(outs[i].got)), "F(own request) = "+clipHex(unaryF(reqs[i])))
				break
			}
			mu.Lock()
			n := ran[string(reqs[i][:16])]
			mu.Unlock()
			if n != 1 {
				r.Violate("websocket.once", "ops", "the handler did not run exactly once for a request", in, n, 1)
				break
			}
		}
		r.CountN("websocket.calls", callers)
	}
	cancel()
	srv.Stop()
	p.cli.CloseNow()
	p.srv.CloseNow()
	within(hangTimeout, func() { <-served })
}

func clipHex(b []byte) string {
	if len(b) > 24 {
		return fmt.Sprintf("%x…(%d bytes)", b[:24], len(b))
	}
	return fmt.Sprintf("%x", b)
}

// c01DemuxAfterCancel: a client behind a demultiplexer (keyed by source, one Serve per key). The
// application cancels the client's key between two calls (it may do so at any time: an idle-timeout
// policy, an operator): the NEXT unary call of that client is a first use of the key again — a fresh
// logical connection is announced and served — and gets its handler's reply like any other.
func c01DemuxAfterCancel(r *Run) {
	if !r.Want("demuxcancel") {
		return
	}
	for rep, reps := 0, r.Scale(2, 20); rep < reps && r.NumViolations() <= 4; rep++ {
		in := map[string]any{"topology": "client-demux-server", "rep": rep}
		r.Progress("demuxcancel", in)
		ce, se := NewPipe(256, rep%2 == 0, nil)
		impl := &Impl{}
		impl.SetUnary(func(ctx context.Context, req []byte) ([]byte, error) { return unaryF(req), nil })
		srv := goat.NewServer("srv")
		srv.RegisterService(&echoDesc, impl)
		ctx, cancel := context.WithCancel(context.Background())
		var serving sync.WaitGroup
		dm := goat.NewDemux(ctx, se, func(e *Rpc) string { return e.GetHeader().GetSource() }, func(rw goat.RpcReadWriter) {
			serving.Add(1)
			defer serving.Done()
			srv.Serve(ctx, rw)
		})
		ran := make(chan struct{})
		go func() { defer close(ran); dm.Run() }()
		cc := goat.NewClientConn(ce, "c0", "srv")
		ok := true
		call := func(what string) bool {
			req := []byte(fmt.Sprintf("dc-%d-%s", rep, what))
			cctx, ccancel := context.WithTimeout(context.Background(), hangTimeout)
			got, err := callUnary(cctx, cc, req)
			ccancel()
			r.Count("demuxcancel.calls")
			if err != nil || string(got) != string(unaryF(req)) {
				r.Violate("demuxcancel.none", "ops", "a unary call did not get its handler's reply ("+what+")", in, fmt.Sprintf("reply=%x err=%v", got, err), fmt.Sprintf("%x", unaryF(req)))
				return false
			}
			return true
		}
		ok = call("before any cancel")
		for k := 0; k < 3 && ok; k++ {
			dm.Cancel("c0")
			ok = call(fmt.Sprintf("first call after Cancel #%d", k+1)) && call(fmt.Sprintf("second call after Cancel #%d", k+1))
		}
		r.Eval(fmt.Sprintf("demuxcancel/%d", rep), true)
		srv.Stop()
		dm.Stop()
		cancel()
		ce.FailRead(io.ErrClosedPipe)
		se.FailRead(io.ErrClosedPipe)
		se.FailWrite(io.ErrClosedPipe)
		cc.Close()
		within(hangTimeout, func() { <-ran; serving.Wait() })
		if !ok {
			return
		}
	}
}

// c01HttpSlowUnary: twelve unary calls at once over the HTTP transport whose handlers take long (on
// the transport's clock: the server node runs on a fake clock that is advanced by 15 s while they are
// blocked). Eight occupy the worker pool, the ninth holds the read loop, the rest wait inside the
// peer's ServeHTTP. Once the handlers are released every caller gets the reply to its own request and
// the handler ran exactly once per request: waiting is not failing.
func c01HttpSlowUnary(r *Run) {
	if !r.Want("httpslow") {
		return
	}
	clk := clockwork.NewFakeClock()
	topoHTTPServerOpts = []goat.GoatOverHttpOption{goat.WithClock(clk)}
	t, err := newTopo("http", nil, nil)
	topoHTTPServerOpts = nil
	if err != nil {
		r.Count("httpslow.no_listener")
		return
	}
	defer t.close()
	const callers = 12
	in := map[string]any{"transport": "http", "concurrent_unary_calls": callers, "handlers": "blocked while the transport's clock advances 15 s"}
	r.Progress("httpslow", in)
	gate := make(chan struct{})
	var mu sync.Mutex
	ran := map[string]int{}
	entered := make(chan struct{}, callers)
	t.impl.SetUnary(func(ctx context.Context, req []byte) ([]byte, error) {
		mu.Lock()
		ran[string(req)]++
		mu.Unlock()
		entered <- struct{}{}
		<-gate
		return unaryF(req), nil
	})
	type res struct {
		req string
		got []byte
		err error
	}
	out := make(chan res, callers)
	for k := 0; k < callers; k++ {
		go func(k int) {
			req := fmt.Sprintf("slow-%02d", k)
			ctx, cancel := context.WithTimeout(context.Background(), 3*hangTimeout)
			defer cancel()
			got, err := callUnary(ctx, t.cc, []byte(req))
			out <- res{req, got, err}
		}(k)
	}
	for i := 0; i < 8; i++ {
		select {
		case <-entered:
		case <-time.After(hangTimeout):
		}
	}
	time.Sleep(50 * time.Millisecond) // the other requests are waiting inside the peer's ServeHTTP
	for i := 0; i < 3; i++ {
		clk.Advance(5 * time.Second)
		time.Sleep(20 * time.Millisecond)
	}
	close(gate)
	for k := 0; k < callers; k++ {
		select {
		case x := <-out:
			r.Eval("httpslow/"+x.req, true)
			if x.err != nil || string(x.got) != string(unaryF([]byte(x.req))) {
				r.Violate("httpslow.none", "ops", "a unary call over the HTTP transport did not get its handler's reply (its request had to wait for the peer's reader)", in, fmt.Sprintf("%s: err=%v reply=%x", x.req, x.err, x.got), "F(own request)")
				continue
			}
			mu.Lock()
			n := ran[x.req]
			mu.Unlock()
			if n != 1 {
				r.Violate("httpslow.once", "ops", "the handler did not run exactly once for a request", in, fmt.Sprintf("%s: %d", x.req, n), 1)
			}
		case <-time.After(4 * hangTimeout):
			r.Violate("httpslow.hang", "ops", "unary calls over the HTTP transport did not return", in, goroutineDump(), nil)
			return
		}
	}
	r.Count("c01.httpslow")
}
