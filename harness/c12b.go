package main

import (
	"context"
	"fmt"
	"sync"
	"time"

	goat "github.com/avos-io/goat"
	"github.com/avos-io/goat/gen/goatorepo"
	"google.golang.org/grpc"
	"google.golang.org/protobuf/types/known/wrapperspb"
)

// c12Linger: a peer resets a stream whose handler is slow to wind down, and uses the same id again
// (open, or open + body) before / after that handler has returned. Whatever the server makes of the
// early re-use (the unchanged code hands it to the dying stream, which drops it), a handler it STARTS
// for a well-formed open belongs to that open: the server must not cancel it unless the peer resets or
// ends that stream or the connection ends. Afterwards the connection still serves a valid probe and a
// fresh open on the id.
func c12Linger(r *Run) {
	if !r.Want("linger") {
		return
	}
	reps := r.Scale(4, 60)
	for rep := 0; rep < reps && r.NumViolations() <= 4; rep++ {
		withBody := rep%2 == 1
		in := map[string]any{"rep": rep, "reopen_with_body": withBody}
		r.Progress("linger", in)
		hooks.Reset(true)
		sc := NewScript(0)
		sc.Out = make(chan *Rpc, 4096)
		srv := goat.NewServer("srv")
		impl := &Impl{}
		impl.SetUnary(func(ctx context.Context, req []byte) ([]byte, error) { return req, nil })
		type started struct {
			n   int
			ctx context.Context
		}
		var mu sync.Mutex
		var hs []started
		entered := make(chan int, 16)
		release := make(chan struct{})
		impl.SetStream(func(method string, ss grpc.ServerStream) error {
			mu.Lock()
			n := len(hs)
			hs = append(hs, started{n, ss.Context()})
			mu.Unlock()
			entered <- n
			if n == 0 {
				<-ss.Context().Done()
				<-release // winding down
				return ss.Context().Err()
			}
			for {
				b, err := recvB(ss)
				if err != nil {
					return nil
				}
				if sendB(ss, b) != nil {
					return nil
				}
			}
		})
		srv.RegisterService(&echoDesc, impl)
		served := make(chan error, 1)
		go func() { served <- srv.Serve(context.Background(), sc) }()
		finish := func() {
			select {
			case <-release:
			default:
				close(release)
			}
			srv.Stop()
			sc.FailRead(errInjectedRead)
			within(hangTimeout, func() { <-served })
			hooks.Reset(false)
		}
		hdr := func() *goatorepo.RequestHeader {
			return &goatorepo.RequestHeader{Method: mBidi, Source: "peer", Destination: "srv"}
		}
		pb, _ := goat_marshal(&wrapperspb.BytesValue{Value: []byte("ping")})
		feed := func(e *Rpc, reads int) bool {
			if !within(hangTimeout, func() { sc.In <- e }) || !sc.WaitReads(reads, hangTimeout) {
				r.Violate("linger.stall", "ops", "server stopped reading its transport", in, goroutineDump(), nil)
				return false
			}
			return true
		}
		ok := feed(&Rpc{Id: 1, Header: hdr()}, 2)
		if ok {
			ok = within(hangTimeout, func() { <-entered })
		}
		if ok {
			ok = feed(&Rpc{Id: 1, Header: hdr(), Reset_: &goatorepo.Reset{Type: "RST_STREAM"}}, 3)
		}
		if ok {
			// the same id again while the first handler is still winding down
			ok = feed(&Rpc{Id: 1, Header: hdr()}, 4)
		}
		reads := 4
		if ok && withBody {
			reads++
			ok = feed(&Rpc{Id: 1, Header: hdr(), Body: &goatorepo.Body{Data: pb}}, reads)
		}
		if !ok {
			finish()
			return
		}
		// did the server start a handler for the early re-use? (either answer is acceptable)
		second := -1
		select {
		case second = <-entered:
		case <-time.After(20 * time.Millisecond):
		}
		// the first handler finishes winding down and unregisters
		mark := len(hooks.Events())
		close(release)
		if !hooks.WaitFor(func(e Event) bool { return e.Seq >= mark && e.Site == "srv.unregister" && e.ID == 1 }, hangTimeout) {
			r.Violate("linger.stall", "ops", "the reset stream's handler never unregistered", in, goroutineDump(), nil)
			finish()
			return
		}
		if second >= 0 {
			mu.Lock()
			ctx2 := hs[second].ctx
			mu.Unlock()
			if ctx2.Err() != nil {
				r.Violate("linger.killed", "ops", "a handler started for a well-formed open was cancelled by the server although the peer neither reset nor ended that stream", in, "context of the second handler on id 1 is done", "alive")
				finish()
				return
			}
			r.Count("linger.early-reuse.started")
		} else {
			r.Count("linger.early-reuse.dropped")
		}
		// a valid probe is answered
		reads++
		if !feed(&Rpc{Id: 99, Header: &goatorepo.RequestHeader{Method: mUnary, Source: "peer", Destination: "srv"}, Body: &goatorepo.Body{Data: pb}}, reads) {
			finish()
			return
		}
		got := false
		deadline := time.After(hangTimeout)
	wait:
		for {
			select {
			case o := <-sc.Out:
				if o.Id == 99 && o.Body != nil {
					got = true
					break wait
				}
			case <-deadline:
				break wait
			}
		}
		if !got {
			r.Violate("linger.probe", "ops", "a valid request after reset and re-use of a stream id was not answered", in, goroutineDump(), nil)
		}
		r.Eval(fmt.Sprintf("linger/%d", rep), true)
		finish()
	}
}
