package main

import (
	"bytes"
	"context"
	"fmt"
	"io"
	"math/rand"
	"sync"
	"time"

	goat "github.com/avos-io/goat"
)

func init() { register("C01", runC01) }

// C01 — a unary call returns exactly the handler's reply to exactly the caller's request.
//
// Scenario family "pairing.<topology>": N callers are released from a barrier on one client connection
// (in the demux and proxy topologies: on each of several logical client connections), every caller
// with a payload of its own. The handler is unaryF. A gate holds the first min(total, 8) handlers
// until all of them have been entered (so that many workers are busy at once) and then lets them go
// in a seeded permutation, each only after the caller of the previous one has returned: the replies
// cross the wire in an order that differs from the order of the requests.
//
// Monitor `pairing`: every caller returned, without error, with unaryF(its own request); the handler
// was invoked exactly once per request and for nothing else.

// ---- the gate ----

type c01Gate struct {
	mu      sync.Mutex
	k       int
	entered []string
	rel     map[string]chan struct{}
	full    chan struct{}
	open    bool
}

func newC01Gate(k int) *c01Gate {
	return &c01Gate{k: k, rel: map[string]chan struct{}{}, full: make(chan struct{})}
}

// enter is called by the handler with the request as tag.
func (g *c01Gate) enter(tag string) {
	g.mu.Lock()
	if g.open || len(g.entered) >= g.k {
		g.mu.Unlock()
		return
	}
	if _, dup := g.rel[tag]; dup { // a second invocation of the same request: not held (the monitor reports it)
		g.mu.Unlock()
		return
	}
	ch := make(chan struct{})
	g.rel[tag] = ch
	g.entered = append(g.entered, tag)
	if len(g.entered) == g.k {
		close(g.full)
	}
	g.mu.Unlock()
	<-ch
}

func (g *c01Gate) release(tag string) {
	g.mu.Lock()
	if ch, ok := g.rel[tag]; ok && ch != nil {
		close(ch)
		g.rel[tag] = nil
	}
	g.mu.Unlock()
}

// releaseAll opens the gate for good (bail-out and end of round).
func (g *c01Gate) releaseAll() {
	g.mu.Lock()
	g.open = true
	for t, ch := range g.rel {
		if ch != nil {
			close(ch)
			g.rel[t] = nil
		}
	}
	g.mu.Unlock()
}

func (g *c01Gate) heldOrder() []string {
	g.mu.Lock()
	defer g.mu.Unlock()
	return append([]string(nil), g.entered...)
}

func c01Wait(ch <-chan struct{}, d time.Duration) bool {
	select {
	case <-ch:
		return true
	default:
	}
	t := time.NewTimer(d)
	defer t.Stop()
	select {
	case <-ch:
		return true
	case <-t.C:
		return false
	}
}

// ---- topologies ----

type c01Net struct {
	kind      string
	serialise bool
	impl      *Impl
	ccs       []*goat.ClientConn
	names     []string
	limit     int // maximum number of calls in flight (0 = no limit)
	wire      func(r *Run, in any)
	close     func()
	calls     int
	stuck     bool // a call did not return: every further round would cost a hang timeout
}

func c01Direct(serialise bool) *c01Net {
	rig := NewRig(RigOpt{Serialise: serialise, Source: "c0"})
	return &c01Net{
		kind: "direct", serialise: serialise, impl: rig.Impl, ccs: []*goat.ClientConn{rig.CC}, names: []string{"c0"},
		wire:  func(r *Run, in any) { checkWire(r, "pairing.wire", rig.Wire.Snapshot(), in) },
		close: func() { rig.Close() },
	}
}

// c01Fan is the client side of a shared pipe: every logical client writes to the pipe and reads the
// envelopes addressed to it (harness code, the counterpart of the library's Demux on the other side).
type c01Fan struct {
	end    *End
	mu     sync.Mutex
	inbox  map[string]chan *Rpc
	closed chan struct{}
	stray  int
}

type c01Port struct {
	f  *c01Fan
	in chan *Rpc
}

func newC01Fan(end *End) *c01Fan {
	f := &c01Fan{end: end, inbox: map[string]chan *Rpc{}, closed: make(chan struct{})}
	return f
}

func (f *c01Fan) port(name string) *c01Port {
	p := &c01Port{f: f, in: make(chan *Rpc, 4096)}
	f.mu.Lock()
	f.inbox[name] = p.in
	f.mu.Unlock()
	return p
}

func (f *c01Fan) run() {
	defer close(f.closed)
	for {
		rpc, err := f.end.Read(context.Background())
		if err != nil {
			return
		}
		f.mu.Lock()
		ch := f.inbox[rpc.GetHeader().GetDestination()]
		if ch == nil {
			f.stray++
		}
		f.mu.Unlock()
		if ch != nil {
			ch <- rpc // capacity 4096, at most 64 calls per client outstanding
		}
	}
}

func (p *c01Port) Read(ctx context.Context) (*Rpc, error) {
	select {
	case r := <-p.in:
		return r, nil
	default:
	}
	select {
	case r := <-p.in:
		return r, nil
	case <-ctx.Done():
		return nil, ctx.Err()
	case <-p.f.closed:
		return nil, io.ErrClosedPipe
	}
}

func (p *c01Port) Write(ctx context.Context, r *Rpc) error { return p.f.end.Write(ctx, r) }

func c01Names(l int) []string {
	names := make([]string, l)
	for j := range names {
		names[j] = fmt.Sprintf("c%d", j)
	}
	return names
}

// c01SplitWire hands the envelopes of each logical client on a shared pipe to the C06 monitor
// (ids are per client connection, so the projections are taken per client).
func c01SplitWire(r *Run, evs []WireEv, names []string, in any) {
	for _, n := range names {
		var mine []WireEv
		for _, e := range evs {
			h := e.Rpc.GetHeader()
			if (e.Dir == "c2s" && h.GetSource() == n) || (e.Dir == "s2c" && h.GetDestination() == n) {
				mine = append(mine, e)
			}
		}
		checkWire(r, "pairing.wire", mine, in)
	}
}

// clients – one shared pipe – goat.Demux keyed by the header's source – one Serve per logical connection.
func c01Demux(serialise bool, l int) *c01Net {
	wire := &Wire{}
	ce, se := NewPipe(4096, serialise, wire)
	fan := newC01Fan(ce)
	names := c01Names(l)
	impl := &Impl{}
	srv := goat.NewServer("srv")
	srv.RegisterService(&echoDesc, impl)
	ctx, cancel := context.WithCancel(context.Background())
	var serving sync.WaitGroup
	var mu sync.Mutex
	stopped := false
	dm := goat.NewDemux(ctx, se, func(rpc *Rpc) string { return rpc.GetHeader().GetSource() }, func(rw goat.RpcReadWriter) {
		mu.Lock()
		if stopped {
			mu.Unlock()
			return
		}
		serving.Add(1)
		mu.Unlock()
		defer serving.Done()
		srv.Serve(ctx, rw)
	})
	var running sync.WaitGroup
	running.Add(2)
	go func() { defer running.Done(); dm.Run() }()
	go func() { defer running.Done(); fan.run() }()
	n := &c01Net{kind: "demux", serialise: serialise, impl: impl, names: names}
	for _, name := range names {
		n.ccs = append(n.ccs, goat.NewClientConn(fan.port(name), name, "srv"))
	}
	n.wire = func(r *Run, in any) { c01SplitWire(r, wire.Snapshot(), names, in) }
	n.close = func() {
		mu.Lock()
		stopped = true
		mu.Unlock()
		srv.Stop()
		dm.Stop()
		cancel()
		for _, e := range []*End{ce, se} {
			e.FailRead(io.ErrClosedPipe)
			e.FailWrite(io.ErrClosedPipe)
		}
		for _, cc := range n.ccs {
			cc.Close()
		}
		within(hangTimeout, func() { serving.Wait(); running.Wait() })
	}
	return n
}

// clients – goat.Proxy – one pipe – goat.Demux keyed by source – one Serve per client (as TestRealProxy
// wires it, with the demultiplexer in front of the server).
// c01ProxyIntercept, when set, is the interceptor of the proxies c01Proxy builds (c02c.go sets it).
var c01ProxyIntercept goat.RpcIntercepter

func c01Proxy(serialise bool, l int) *c01Net {
	names := c01Names(l)
	impl := &Impl{}
	srv := goat.NewServer("srv")
	srv.RegisterService(&echoDesc, impl)
	ctx, cancel := context.WithCancel(context.Background())
	var serving, running sync.WaitGroup
	var mu sync.Mutex
	stopped := false
	var ends []*End
	var backWire *Wire
	var dms []*goat.Demux
	proxy := goat.NewProxy(ctx, "proxy",
		func(id string) (goat.RpcReadWriter, error) {
			if id != "srv" {
				return nil, fmt.Errorf("no such peer %q", id)
			}
			mu.Lock()
			defer mu.Unlock()
			if stopped {
				return nil, fmt.Errorf("stopped")
			}
			w := &Wire{}
			pe, se := NewPipe(4096, serialise, w)
			backWire = w
			ends = append(ends, pe, se)
			dm := goat.NewDemux(ctx, se, func(rpc *Rpc) string { return rpc.GetHeader().GetSource() }, func(rw goat.RpcReadWriter) {
				mu.Lock()
				if stopped {
					mu.Unlock()
					return
				}
				serving.Add(1)
				mu.Unlock()
				defer serving.Done()
				srv.Serve(ctx, rw)
			})
			dms = append(dms, dm)
			running.Add(1)
			go func() { defer running.Done(); dm.Run() }()
			return pe, nil
		}, c01ProxyIntercept, nil)
	running.Add(1)
	go func() { defer running.Done(); proxy.Serve() }()
	n := &c01Net{kind: "proxy", serialise: serialise, impl: impl, names: names, limit: goat.VerifClientBufferSize}
	var wires []*Wire
	for _, name := range names {
		w := &Wire{}
		ce, pe := NewPipe(4096, serialise, w)
		mu.Lock()
		ends = append(ends, ce, pe)
		mu.Unlock()
		wires = append(wires, w)
		proxy.AddClient(name, pe)
		n.ccs = append(n.ccs, goat.NewClientConn(ce, name, "srv"))
	}
	n.wire = func(r *Run, in any) {
		for _, w := range wires {
			checkWire(r, "pairing.wire", w.Snapshot(), in)
		}
		mu.Lock()
		bw := backWire
		mu.Unlock()
		if bw != nil {
			c01SplitWire(r, bw.Snapshot(), names, in)
		}
	}
	n.close = func() {
		mu.Lock()
		stopped = true
		es := append([]*End(nil), ends...)
		ds := append([]*goat.Demux(nil), dms...)
		mu.Unlock()
		srv.Stop()
		for _, d := range ds {
			d.Stop()
		}
		cancel()
		for _, e := range es {
			e.FailRead(io.ErrClosedPipe)
			e.FailWrite(io.ErrClosedPipe)
		}
		for _, cc := range n.ccs {
			cc.Close()
		}
		within(hangTimeout, func() { serving.Wait(); running.Wait() })
	}
	return n
}

// ---- one round ----

func c01SizeBucket(n int) string {
	switch {
	case n == 0:
		return "0"
	case n == 1:
		return "1"
	case n <= 64:
		return "2..64"
	case n <= 4096:
		return "65..4K"
	case n < 65536:
		return "4K..64K"
	default:
		return "64K"
	}
}

// c01Payloads draws total pairwise distinct payloads of 0..64 KiB. Caller 0's payload is the raw draw
// (so that the empty, the one-byte and the full-size message occur); the others carry a two-byte
// caller prefix.
func c01Payloads(rng *rand.Rand, total int) [][]byte {
	const max = 65536
	seen := map[string]bool{}
	out := make([][]byte, total)
	for i := range out {
		for {
			var p []byte
			if i == 0 {
				p = genPayload(rng, max)
			} else {
				p = append([]byte{byte(i >> 8), byte(i)}, genPayload(rng, max-2)...)
			}
			if !seen[string(p)] {
				seen[string(p)] = true
				out[i] = p
				break
			}
		}
	}
	return out
}

type c01Res struct {
	out      []byte
	err      error
	returned bool
}

// c01Round runs n callers per logical client and applies the pairing monitor. It returns false when
// the network must not be used any more (a call is stuck).
func c01Round(r *Run, net *c01Net, n, round int, rng *rand.Rand) bool {
	scen := "pairing." + net.kind
	l := len(net.ccs)
	total := n * l
	k := total
	if k > 8 {
		k = 8
	}
	perm := rng.Perm(k)
	in := map[string]any{"topology": net.kind, "serialise": net.serialise, "callers_per_connection": n, "connections": l,
		"round": round, "release_order": perm, "seed": r.Seed}
	r.Progress(scen, in)
	reqs := c01Payloads(rng, total)
	index := make(map[string]int, total)
	for i, q := range reqs {
		index[string(q)] = i
		r.Count("payload.size." + c01SizeBucket(len(q)))
	}
	log := NewHandlerLog()
	gate := newC01Gate(k)
	InstallPrograms(net.impl, log, gate.enter)
	defer gate.releaseAll()

	res := make([]c01Res, total)
	done := make([]chan struct{}, total)
	start := make(chan struct{})
	var sem chan struct{}
	if net.limit > 0 && total > net.limit {
		sem = make(chan struct{}, net.limit)
		r.Count("proxy.inflight.limited")
	}
	for i := 0; i < total; i++ {
		done[i] = make(chan struct{})
		go func(i int) {
			defer close(done[i])
			<-start
			if sem != nil {
				sem <- struct{}{}
				defer func() { <-sem }()
			}
			out, err := callUnary(context.Background(), net.ccs[i%l], reqs[i])
			res[i] = c01Res{out, err, true}
		}(i)
	}
	close(start)

	stuck := false
	if !c01Wait(gate.full, hangTimeout) {
		stuck = true
		r.Violate(scen+".none", "schedule", fmt.Sprintf("only %d of the first %d requests reached the handler", len(gate.heldOrder()), k), in, goroutineDump(), nil)
		gate.releaseAll()
	} else {
		held := gate.heldOrder()
		for _, p := range perm {
			tag := held[p]
			gate.release(tag)
			i, ok := index[tag]
			if !ok {
				continue // a request nobody sent: reported by the monitor below
			}
			if !c01Wait(done[i], hangTimeout) {
				stuck = true
				r.Violate(scen+".none", "schedule", "a caller whose handler has replied did not return", in, map[string]any{"caller": i, "request": clip(hx(reqs[i]), 64), "goroutines": goroutineDump()}, nil)
				gate.releaseAll()
				break
			}
		}
	}
	deadline := time.Now().Add(hangTimeout)
	if stuck {
		deadline = time.Now().Add(time.Second) // already reported; do not pay for the others as well
	}
	for i := range done {
		if !c01Wait(done[i], time.Until(deadline)) {
			if !stuck {
				r.Violate(scen+".none", "schedule", "a caller did not return on a live connection", in, map[string]any{"caller": i, "request": clip(hx(reqs[i]), 64), "goroutines": goroutineDump()}, nil)
			}
			stuck = true
			break
		}
	}
	net.calls += total
	r.Eval(fmt.Sprintf("%s/%v/n%d/r%d", net.kind, net.serialise, n, round), total >= 2)
	r.CountN("calls."+net.kind, total)
	r.Count(fmt.Sprintf("round.callers_%d", n))
	// the pairing monitor (when a caller is stuck: on those that did return, to say what went where)
	returned := make([]bool, total)
	for i := range done {
		select {
		case <-done[i]:
			returned[i] = true
		default:
		}
	}
	log.mu.Lock()
	defer log.mu.Unlock()
	for i := range res {
		if !returned[i] {
			continue
		}
		want := unaryF(reqs[i])
		switch {
		case res[i].err != nil:
			r.Violate(scen+".error", "schedule", "a unary call on a live connection failed", in, map[string]any{"caller": i, "error": res[i].err.Error()}, nil)
		case !bytes.Equal(res[i].out, want):
			detail := "the reply is not the handler's reply to the caller's request"
			for j := range reqs {
				if j != i && bytes.Equal(res[i].out, unaryF(reqs[j])) {
					detail = fmt.Sprintf("caller %d received the reply to caller %d's request", i, j)
					break
				}
			}
			r.Violate(scen+".reply", "schedule", detail, in, map[string]any{"caller": i, "reply": clip(hx(res[i].out), 64)}, clip(hx(want), 64))
		}
		if c := log.Invoked[string(reqs[i])]; c != 1 {
			r.Violate(scen+".once", "schedule", fmt.Sprintf("the handler ran %d times for one request", c), in, map[string]any{"caller": i, "request": clip(hx(reqs[i]), 64)}, 1)
		}
		if r.NumViolations() > 4 {
			break
		}
	}
	if stuck {
		net.stuck = true
		return false
	}
	for q, c := range log.Invoked {
		if _, ok := index[q]; !ok {
			r.Violate(scen+".foreign", "schedule", fmt.Sprintf("the handler ran %d times with a request no caller sent", c), in, clip(hxs(q), 64), nil)
			break
		}
	}
	return r.NumViolations() == 0
}

func runC01(r *Run) {
	c01ReusedReply(r)
	c01MethodSpelling(r)
	c01Reattach(r)
	c01Websocket(r)
	c01DemuxAfterCancel(r)
	topoSweep(r, "unary")
	c01SharedChain(r)
	c01HttpSlowUnary(r)
	// a call abandoned with unread envelopes, then the next call: it gets ITS handler's reply (c05b.go)
	if r.Want("backlog") {
		c05Backlog(r)
	}
	sizes := []int{1, 2, 8, r.Scale(16, 64)}
	perMode := r.Scale(0, 50000) // calls per topology and transport kind (quick: cycles below)
	cycles := r.Scale(8, 0)
	recycle := 2500 // calls after which a connection is replaced (bounds the wire tap's memory)
	wireBudget := r.Scale(1500, 12000)
	for _, topo := range []string{"direct", "demux", "proxy", "proxyshared"} {
		if !r.Want("pairing." + topo) {
			continue
		}
		for _, serialise := range []bool{true, false} {
			rng := r.Rand(fmt.Sprintf("c01.%s.%v", topo, serialise))
			mk := func() *c01Net {
				const l = 3 // logical clients behind the shared pipe / the proxy
				switch topo {
				case "demux":
					return c01Demux(serialise, l)
				case "proxy":
					return c01Proxy(serialise, l)
				case "proxyshared":
					return c01ProxyShared(serialise, l)
				}
				return c01Direct(serialise)
			}
			done, round, wired := 0, 0, 0
			var net *c01Net
			finish := func(ok bool) {
				if net == nil {
					return
				}
				if ok && wired < wireBudget {
					wired += net.calls
					net.wire(r, map[string]any{"topology": topo, "serialise": serialise, "calls": net.calls})
					r.Trace()
				}
				net.close()
				net = nil
			}
			for cyc := 0; (cycles > 0 && cyc < cycles) || (cycles == 0 && done < perMode); cyc++ {
				for _, n := range sizes {
					if net != nil && net.calls >= recycle {
						finish(true)
					}
					if net == nil {
						net = mk()
					}
					ok := c01Round(r, net, n, round, rng)
					done += n * len(net.ccs)
					round++
					if !ok {
						stuck := net.stuck
						finish(false)
						if stuck || r.NumViolations() > 4 {
							return
						}
					}
				}
			}
			finish(true)
		}
	}
}
