package main

import (
	"context"
	"fmt"
	"io"
	"sync/atomic"

	goat "github.com/avos-io/goat"
	"google.golang.org/grpc"
	"google.golang.org/grpc/codes"
	"google.golang.org/grpc/status"
)

// dropOpenRW is the link between a proxy and a server that can lose one stream-open envelope (an
// envelope with a header and nothing else) on its way to the server.
type dropOpenRW struct {
	goat.RpcReadWriter
	drop atomic.Bool
}

func (d *dropOpenRW) Write(ctx context.Context, e *Rpc) error {
	if e.Body == nil && e.Trailer == nil && e.Reset_ == nil && e.Status == nil && d.drop.CompareAndSwap(true, false) {
		return nil
	}
	return d.RpcReadWriter.Write(ctx, e)
}

// c03ViaProxy: calls of the library's client through a Proxy to the library's server. The caller
// observes the handler's status (code and message) for unary calls and streams; and a stream the SERVER
// resets — the open was lost on the link, the server answers the first message for the unknown id with
// its reset envelope — is a failed call at the caller: no receive reports io.EOF.
func c03ViaProxy(r *Run) {
	if !r.Want("viaproxy") {
		return
	}
	c03ViaProxyOver(r, "pipe")
	c03ViaProxyOver(r, "goat.NewGoatOverChannel")
}

// chanLink is one hop made of the library's channel transport: two ends over a pair of queues.
func chanLink() (goat.RpcReadWriter, goat.RpcReadWriter) {
	ab, ba := make(chan *Rpc, 256), make(chan *Rpc, 256)
	return goat.NewGoatOverChannel(ba, ab), goat.NewGoatOverChannel(ab, ba)
}

func c03ViaProxyOver(r *Run, hop string) {
	ctx, cancel := context.WithCancel(context.Background())
	proxy := goat.NewProxy(ctx, "proxy", func(id string) (goat.RpcReadWriter, error) { return nil, fmt.Errorf("no such peer %q", id) }, nil, nil)
	served := make(chan struct{})
	go func() { defer close(served); proxy.Serve() }()
	var want atomic.Int32
	impl := &Impl{}
	impl.SetUnary(func(c context.Context, req []byte) ([]byte, error) {
		if k := codes.Code(want.Load()); k != codes.OK {
			return nil, status.Error(k, "verdict "+k.String())
		}
		return req, nil
	})
	impl.SetStream(func(m string, ss grpc.ServerStream) error {
		for {
			b, err := recvB(ss)
			if err != nil {
				break
			}
			sendB(ss, b)
		}
		if k := codes.Code(want.Load()); k != codes.OK {
			return status.Error(k, "verdict "+k.String())
		}
		return nil
	})
	srv := goat.NewServer("srv")
	srv.RegisterService(&echoDesc, impl)
	var ss, ps, ce, pe goat.RpcReadWriter
	var ends []*End
	if hop == "pipe" {
		a, b := NewPipe(256, true, nil)
		c, d := NewPipe(256, true, nil)
		ss, ps, ce, pe = a, b, c, d
		ends = []*End{a, b, c, d}
	} else {
		ss, ps = chanLink()
		ce, pe = chanLink()
	}
	link := &dropOpenRW{RpcReadWriter: ps}
	proxy.AddClient("srv", link)
	srvDone := make(chan struct{})
	go func() { defer close(srvDone); srv.Serve(ctx, ss) }()
	proxy.AddClient("c0", pe)
	cc := goat.NewClientConn(ce, "c0", "srv")
	defer func() {
		cancel()
		srv.Stop()
		for _, e := range ends {
			e.FailRead(io.ErrClosedPipe)
			e.FailWrite(io.ErrClosedPipe)
		}
		cc.Close()
		within(hangTimeout, func() { <-served; <-srvDone })
	}()

	check := func(part string, in map[string]any, k codes.Code, err error) {
		switch {
		case k == codes.OK && err != nil && err != io.EOF:
			r.Violate("viaproxy."+part, "ops", "the handler returned nil but the caller, behind a proxy, got an error", in, err.Error(), "success")
		case k != codes.OK && (err == nil || err == io.EOF):
			r.Violate("viaproxy."+part, "ops", "the handler failed but the caller, behind a proxy, observed success", in, fmt.Sprint(err), k.String())
		case k != codes.OK && (status.Code(err) != k || status.Convert(err).Message() != "verdict "+k.String()):
			r.Violate("viaproxy."+part, "ops", "the caller, behind a proxy, did not observe the handler's status", in, err.Error(), k.String()+" verdict "+k.String())
		}
	}
	for k := codes.OK; k <= codes.Unauthenticated && r.NumViolations() <= 4; k++ {
		want.Store(int32(k))
		in := map[string]any{"topology": "client-proxy-server", "hops": hop, "handler_status": k.String()}
		r.Progress("viaproxy", in)
		ok := within(hangTimeout, func() {
			_, err := callUnary(context.Background(), cc, []byte("x"))
			check("unary", in, k, err)
			cs, err := cc.NewStream(context.Background(), descBidi, mBidi)
			if err != nil {
				r.Violate("viaproxy.open", "ops", "a stream could not be opened through the proxy", in, err.Error(), nil)
				return
			}
			sendB(cs, []byte("m"))
			if _, err := recvB(cs); err != nil {
				r.Violate("viaproxy.echo", "ops", "the echo of a message did not arrive through the proxy", in, err.Error(), "m")
			}
			cs.CloseSend()
			_, err = recvB(cs)
			check("stream", in, k, err)
		})
		if !ok {
			r.Violate("viaproxy.hang", "ops", "a call through the proxy did not finish", in, goroutineDump(), nil)
			return
		}
		r.Eval(fmt.Sprintf("viaproxy/%s/%d", hop, k), true)
		r.Count("c03.viaproxy")
	}
	// the server resets a stream whose open was lost
	want.Store(0)
	for i := 0; i < r.Scale(3, 30) && r.NumViolations() <= 4; i++ {
		in := map[string]any{"topology": "client-proxy-server", "hops": hop, "lost": "the stream-open envelope, between proxy and server", "round": i}
		r.Progress("viaproxy", in)
		link.drop.Store(true)
		var term error
		ok := within(hangTimeout, func() {
			cs, err := cc.NewStream(context.Background(), descBidi, mBidi)
			if err != nil {
				term = err
				return
			}
			sendB(cs, []byte("m"))
			for {
				if _, e := recvB(cs); e != nil {
					term = e
					return
				}
			}
		})
		link.drop.Store(false)
		if !ok {
			r.Violate("viaproxy.reset.hang", "ops", "a stream reset by the server did not end at the caller behind a proxy", in, goroutineDump(), nil)
			return
		}
		if term == nil || term == io.EOF {
			r.Violate("viaproxy.reset", "ops", "a stream the server reset was reported to the caller, behind a proxy, as completed", in, fmt.Sprint(term), "an error")
		}
		r.Eval(fmt.Sprintf("viaproxy/%s/reset/%d", hop, i), true)
		r.Count("c03.viaproxy.reset")
	}
}
