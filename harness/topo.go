package main

import (
	"context"
	"fmt"
	"io"
	"net/http"
	"net/http/httptest"
	"strings"
	"sync"
	"time"

	goat "github.com/avos-io/goat"
	"google.golang.org/grpc"
	"google.golang.org/grpc/codes"
	"google.golang.org/grpc/metadata"
	"google.golang.org/grpc/status"
	"google.golang.org/protobuf/proto"
	"google.golang.org/protobuf/types/known/wrapperspb"
)

// topo is one client connection to one server over one of the transports the library ships:
//
//	chan  goat.NewGoatOverChannel (envelopes by reference)
//	ws    goat.NewGoatOverWebsocket over a real websocket
//	http  goat.GoatOverHttp: one node per side, each behind its own HTTP server, every envelope a POST
type topo struct {
	kind  string
	cc    *goat.ClientConn
	impl  *Impl
	close func()
}

var topoKinds = []string{"chan", "ws", "http"}

// topoHTTPServerOpts: options for the server node's GoatOverHttp of the next "http" topology.
var topoHTTPServerOpts []goat.GoatOverHttpOption

func newTopo(kind string, dopts []goat.DialOption, sopts []goat.ServerOption) (*topo, error) {
	impl := &Impl{}
	srv := goat.NewServer("srv", sopts...)
	srv.RegisterService(&echoDesc, impl)
	ctx, cancel := context.WithCancel(context.Background())
	t := &topo{kind: kind, impl: impl}
	var serving sync.WaitGroup
	serve := func(rw goat.RpcReadWriter) {
		serving.Add(1)
		go func() { defer serving.Done(); srv.Serve(ctx, rw) }()
	}
	switch kind {
	case "chan":
		c2s, s2c := make(chan *Rpc, 64), make(chan *Rpc, 64)
		serve(goat.NewGoatOverChannel(c2s, s2c))
		t.cc = goat.NewClientConn(goat.NewGoatOverChannel(s2c, c2s), "cli", "srv", dopts...)
		t.close = func() {
			srv.Stop()
			cancel()
			t.cc.Close()
			close(c2s)
			within(hangTimeout, serving.Wait)
			close(s2c) // the server is gone: nobody writes any more; ends the client's read loop
		}
	case "ws":
		p, err := c19NewWsPair()
		if err != nil {
			cancel()
			return nil, err
		}
		serve(goat.NewGoatOverWebsocket(p.srv))
		t.cc = goat.NewClientConn(goat.NewGoatOverWebsocket(p.cli), "cli", "srv", dopts...)
		t.close = func() {
			srv.Stop()
			cancel()
			t.cc.Close()
			p.Close()
			within(hangTimeout, serving.Wait)
		}
	case "http":
		var addrA, addrB string
		gohB := goat.NewGoatOverHttp(func(id string, rw goat.RpcReadWriter) { serve(rw) }, func(src string) (string, error) { return src, nil }, topoHTTPServerOpts...)
		tsB := httptest.NewServer(http.HandlerFunc(gohB.ServeHTTP))
		addrB = strings.TrimPrefix(tsB.URL, "http://")
		gohA := goat.NewGoatOverHttp(func(string, goat.RpcReadWriter) {}, func(src string) (string, error) {
			if src == "srv" {
				return addrB, nil
			}
			return "", fmt.Errorf("unknown source %q", src)
		})
		tsA := httptest.NewServer(http.HandlerFunc(gohA.ServeHTTP))
		addrA = strings.TrimPrefix(tsA.URL, "http://")
		t.cc = goat.NewClientConn(gohA.NewConnection(addrB), addrA, "srv", dopts...)
		t.close = func() {
			srv.Stop()
			cancel()
			t.cc.Close()
			gohA.Cancel()
			gohB.Cancel()
			tsA.CloseClientConnections()
			tsB.CloseClientConnections()
			tsA.Close()
			tsB.Close()
			within(hangTimeout, serving.Wait)
		}
	default:
		cancel()
		return nil, fmt.Errorf("unknown topology %q", kind)
	}
	return t, nil
}

// topoSweep runs one aspect of the RPC contract over every shipped transport:
//
//	unary     concurrent unary callers with 3 KB requests: F(own request), handler once per request
//	stream    a bidi echo stream with messages of 0..5000 bytes: both sequences intact, io.EOF
//	status    unary and stream handlers failing with code, message and a detail: the caller sees exactly that
//	metadata  request metadata, response header and trailer (text and -bin values) arrive intact
//	cancel    a caller cancels a held stream: Canceled at the caller, the handler's context done
//	deadline  the caller's deadline reaches unary and stream handlers within the property's bounds
func topoSweep(r *Run, aspect string) {
	if !r.Want("transports") {
		return
	}
	kinds := append([]string{}, topoKinds...)
	if aspect == "cancel" || aspect == "deadline" {
		// … and once more with stats handlers installed on both sides (what they are handed must not
		// change what the handler's context does)
		kinds = append(kinds, "chan+stats")
	}
	for _, kind := range kinds {
		if r.NumViolations() > 4 {
			return
		}
		in := map[string]any{"transport": kind, "aspect": aspect}
		scen := "transports." + aspect
		r.Progress(scen, in)
		var dopts []goat.DialOption
		var sopts []goat.ServerOption
		if strings.HasSuffix(kind, "+stats") {
			dopts = append(dopts, goat.WithStatsHandler(NewRecorder("c")))
			sopts = append(sopts, goat.StatsHandler(NewRecorder("s")))
		}
		// the scenario runs over real sockets (websocket, HTTP): a first failure is confirmed by a second,
		// fresh run before it is reported
		for attempt := 1; attempt <= 2; attempt++ {
			topoRec = nil
			dopts2 := append([]goat.DialOption{}, dopts...)
			if aspect == "metadata" {
				// the client has no call options for unary response metadata: a stats handler sees it
				topoRec = NewRecorder("c")
				dopts2 = append(dopts2, goat.WithStatsHandler(topoRec))
			}
			t, err := newTopo(strings.TrimSuffix(kind, "+stats"), dopts2, sopts)
			if err != nil {
				r.Count(scen + ".no_" + kind)
				break
			}
			bad := func(sub, detail string, observed, expected any) {
				r.Violate(scen+"."+sub, "ops", detail+" (transport: "+kind+")", in, observed, expected)
			}
			r.Hold()
			ok := within(6*hangTimeout, func() { topoAspect(r, t, aspect, bad) })
			if !ok {
				bad("hang", "the scenario did not finish", goroutineDump(), nil)
			}
			held := r.Release()
			t.close()
			settleGoroutines(0)
			if len(held) == 0 {
				break
			}
			r.Count(fmt.Sprintf("%s.%s.attempt%d_failed", scen, kind, attempt))
			if attempt == 2 {
				for _, v := range held {
					r.Violate(v.Scenario, v.Kind, v.Detail+" [seen in two consecutive fresh runs]", v.Input, v.Observed, v.Expected)
				}
			}
		}
		r.Eval(fmt.Sprintf("%s/%s", scen, kind), true)
		r.Count(scen + "." + kind)
	}
}

// topoRec is the client-side stats recorder of the current sweep (metadata aspect only).
var topoRec *Recorder

func topoAspect(r *Run, t *topo, aspect string, bad func(sub, detail string, observed, expected any)) {
	rng := r.Rand("topo." + aspect + "." + t.kind)
	det := &wrapperspb.StringValue{Value: "detail \x00 é"}
	failing := func() error {
		st, _ := status.New(codes.FailedPrecondition, "pre \x01 condition").WithDetails(det)
		return st.Err()
	}
	sameStatus := func(err error) bool {
		st := status.Convert(err)
		if err == nil || st.Code() != codes.FailedPrecondition || st.Message() != "pre \x01 condition" || len(st.Proto().GetDetails()) != 1 {
			return false
		}
		var got wrapperspb.StringValue
		return st.Proto().GetDetails()[0].UnmarshalTo(&got) == nil && proto.Equal(&got, det)
	}
	binVal := string([]byte{0, 0xff, 1, 0x7f, 0x80})
	switch aspect {
	case "unary":
		var mu sync.Mutex
		ran := map[string]int{}
		t.impl.SetUnary(func(ctx context.Context, req []byte) ([]byte, error) {
			mu.Lock()
			ran[string(req[:12])]++
			mu.Unlock()
			return unaryF(req), nil
		})
		const callers = 12
		reqs := make([][]byte, callers)
		outs := make([][]byte, callers)
		errs := make([]error, callers)
		var wg sync.WaitGroup
		for i := range reqs {
			reqs[i] = make([]byte, 1500+rng.Intn(3000))
			rng.Read(reqs[i])
			copy(reqs[i], fmt.Sprintf("caller-%05d--", i)[:12])
			wg.Add(1)
			go func(i int) {
				defer wg.Done()
				ctx, cancel := context.WithTimeout(context.Background(), 2*hangTimeout)
				defer cancel()
				outs[i], errs[i] = callUnary(ctx, t.cc, reqs[i])
			}(i)
		}
		wg.Wait()
		for i := range reqs {
			if errs[i] != nil || string(outs[i]) != string(unaryF(reqs[i])) {
				bad("reply", "a caller did not get the handler's reply to its own request", fmt.Sprintf("caller %d: err=%v reply=%s", i, errs[i], clipHex(outs[i])), clipHex(unaryF(reqs[i])))
				return
			}
			mu.Lock()
			n := ran[string(reqs[i][:12])]
			mu.Unlock()
			if n != 1 {
				bad("once", "the handler did not run exactly once for a request", n, 1)
				return
			}
		}
	case "stream":
		log := NewHandlerLog()
		InstallPrograms(t.impl, log, nil)
		sizes := []int{1, 0, 5000, 17, 0, 1200}
		for ci, client := range []string{"sendall", "pingpong", "conc"} {
			tag := fmt.Sprintf("topo-%s-%d", t.kind, ci)
			o := runStreamCall(context.Background(), t.cc, mBidi, tag, "echo", client, len(sizes), func(i int) []byte {
				b := make([]byte, sizes[i])
				for j := range b {
					b[j] = byte(i + j)
				}
				return b
			})
			checkStream(r, "transports.stream."+t.kind, o, log, map[string]any{"transport": t.kind, "client": client})
		}
		// several streams at once, each with its own sender goroutine and messages of a few KiB (the
		// callers' writes meet on the one transport): every stream gets back exactly its own sequence
		{
			var wg sync.WaitGroup
			obs := make([]*StreamObs, 6)
			for k := range obs {
				wg.Add(1)
				go func(k int) {
					defer wg.Done()
					tag := fmt.Sprintf("topo-%s-par-%d", t.kind, k)
					obs[k] = runStreamCall(context.Background(), t.cc, mBidi, tag, "echo", "conc", 12, func(i int) []byte {
						b := make([]byte, 2000+137*k+i)
						for j := range b {
							b[j] = byte(k*31 + i*7 + j)
						}
						return b
					})
				}(k)
			}
			wg.Wait()
			for k, o := range obs {
				checkStream(r, "transports.stream."+t.kind, o, log, map[string]any{"transport": t.kind, "concurrent_streams": len(obs), "stream": k, "message_bytes": "2000+"})
			}
		}
		// streams whose handler returns at once while the caller's half-close is still under way (its write
		// is cut short by the stream's own end): the connection serves the next stream like the first
		for i := 0; i < 4 && t.kind != "ws"; i++ { // not over the websocket: see the deadline aspect
			tag := fmt.Sprintf("topo-%s-early-%d", t.kind, i)
			o := runStreamCall(context.Background(), t.cc, mBidi, tag, "early:0", "earlyclose", 0, nil)
			checkStream(r, "transports.stream."+t.kind, o, log, map[string]any{"transport": t.kind, "handler": "returns at once", "client": "half-closes at once"})
		}
		o := runStreamCall(context.Background(), t.cc, mBidi, "topo-"+t.kind+"-after", "echo", "pingpong", 3, nil)
		checkStream(r, "transports.stream."+t.kind, o, log, map[string]any{"transport": t.kind, "client": "pingpong", "after": "four streams whose half-close raced their end"})
	case "status":
		t.impl.SetUnary(func(ctx context.Context, req []byte) ([]byte, error) { return nil, failing() })
		t.impl.SetStream(func(m string, ss grpc.ServerStream) error { recvB(ss); return failing() })
		ctx, cancel := context.WithTimeout(context.Background(), 2*hangTimeout)
		defer cancel()
		if _, err := callUnary(ctx, t.cc, []byte("x")); !sameStatus(err) {
			bad("unary", "the caller of a unary call did not observe the handler's status (code, message, details)", fmt.Sprint(err), "FailedPrecondition with message and one detail")
		}
		cs, err := t.cc.NewStream(ctx, descBidi, mBidi)
		if err != nil {
			bad("open", "stream could not be opened", err.Error(), nil)
			return
		}
		sendB(cs, []byte("m"))
		if _, err := recvB(cs); !sameStatus(err) {
			bad("stream", "the caller of a stream did not observe the handler's status (code, message, details)", fmt.Sprint(err), "FailedPrecondition with message and one detail")
		}
	case "metadata":
		reqMD := metadata.Pairs("k", "v1", "k", "v2", "trace-bin", binVal, "other", "")
		hdr := metadata.Pairs("h", "1", "h", "2", "hb-bin", binVal)
		trl := metadata.Pairs("t", "x", "tb-bin", binVal)
		var seen metadata.MD
		t.impl.SetUnary(func(ctx context.Context, req []byte) ([]byte, error) {
			seen, _ = metadata.FromIncomingContext(ctx)
			grpc.SetHeader(ctx, hdr)
			grpc.SetTrailer(ctx, trl)
			return req, nil
		})
		t.impl.SetStream(func(m string, ss grpc.ServerStream) error {
			seen, _ = metadata.FromIncomingContext(ss.Context())
			ss.SetHeader(hdr)
			ss.SetTrailer(trl)
			// reply only once the caller has half-closed: no write of the caller's is under way when the stream ends
			for {
				if _, err := recvB(ss); err != nil {
					break
				}
			}
			return sendB(ss, []byte("r"))
		})
		same := func(got, want metadata.MD) bool {
			for k, v := range want {
				if fmt.Sprint(got.Get(k)) != fmt.Sprint(v) {
					return false
				}
			}
			return true
		}
		ctx, cancel := context.WithTimeout(metadata.NewOutgoingContext(context.Background(), reqMD), 2*hangTimeout)
		defer cancel()
		var gh, gt metadata.MD
		if _, err := callUnary(ctx, t.cc, []byte("x")); err != nil {
			bad("unary", "unary call failed", err.Error(), nil)
			return
		}
		for _, e := range topoRec.Events() {
			switch e.Kind {
			case "InHeader":
				gh = e.MD
			case "InTrailer":
				gt = e.MD
			}
		}
		_ = gt // a unary caller has no way to see trailer metadata (no call options, no InTrailer event)
		if !same(seen, reqMD) || !same(gh, hdr) {
			bad("unary", "metadata of a unary call did not arrive intact", fmt.Sprintf("request=%v header=%v", seen, gh), fmt.Sprintf("request=%v header=%v", reqMD, hdr))
		}
		seen = nil
		cs, err := t.cc.NewStream(ctx, descBidi, mBidi)
		if err != nil {
			bad("open", "stream could not be opened", err.Error(), nil)
			return
		}
		sendB(cs, []byte("m"))
		cs.CloseSend()
		for {
			if _, err := recvB(cs); err != nil {
				if err != io.EOF {
					bad("stream", "stream failed", err.Error(), "EOF")
				}
				break
			}
		}
		sh, _ := cs.Header()
		if !same(seen, reqMD) || !same(sh, hdr) || !same(cs.Trailer(), trl) {
			bad("stream", "metadata of a stream did not arrive intact", fmt.Sprintf("request=%v header=%v trailer=%v", seen, sh, cs.Trailer()), fmt.Sprintf("request=%v header=%v trailer=%v", reqMD, hdr, trl))
		}
	case "cancel":
		hctx := make(chan context.Context, 1)
		t.impl.SetStream(func(m string, ss grpc.ServerStream) error {
			hctx <- ss.Context()
			<-ss.Context().Done()
			return ss.Context().Err()
		})
		ctx, cancel := context.WithCancel(context.Background())
		defer cancel()
		cs, err := t.cc.NewStream(ctx, descBidi, mBidi)
		if err != nil {
			bad("open", "stream could not be opened", err.Error(), nil)
			return
		}
		sendB(cs, []byte("m"))
		var hc context.Context
		select {
		case hc = <-hctx:
		case <-time.After(hangTimeout):
			bad("setup", "the handler was not started", nil, nil)
			return
		}
		cancel()
		if _, err := recvB(cs); status.Code(err) != codes.Canceled {
			bad("caller", "a receive after the caller's cancellation did not return Canceled", fmt.Sprint(err), "Canceled")
		}
		select {
		case <-hc.Done():
		case <-time.After(hangTimeout):
			bad("handler", "the handler's context is still live after its caller cancelled the stream", "live after "+hangTimeout.String(), "done")
		}
	case "deadline":
		type obs struct {
			dl    time.Time
			has   bool
			tSeen time.Time
		}
		seen := make(chan obs, 2)
		t.impl.SetUnary(func(ctx context.Context, req []byte) ([]byte, error) {
			dl, has := ctx.Deadline()
			seen <- obs{dl, has, time.Now()}
			return req, nil
		})
		t.impl.SetStream(func(m string, ss grpc.ServerStream) error {
			dl, has := ss.Context().Deadline()
			seen <- obs{dl, has, time.Now()}
			return nil
		})
		for i, rem := range []time.Duration{3 * time.Second, 90 * time.Minute, 0} {
			t0 := time.Now()
			D := t0.Add(rem)
			ctx, cancel := context.Background(), context.CancelFunc(func() {})
			if rem > 0 {
				ctx, cancel = context.WithDeadline(ctx, D)
			}
			for _, stream := range []bool{false, true} {
				if stream {
					// no half-close here: it would race with the handler's immediate return, and over the WEBSOCKET
					// transport a write cut short by its caller's context closes the whole websocket (the
					// websocket library's semantics; observation in DESIGN.md). The race is exercised on purpose,
					// for the transports that must survive it, in the stream aspect.
					if cs, err := t.cc.NewStream(ctx, descBidi, mBidi); err == nil {
						recvB(cs)
					}
				} else {
					callUnary(ctx, t.cc, []byte("x"))
				}
				select {
				case o := <-seen:
					switch {
					case rem == 0 && o.has:
						bad("none", "the handler has a deadline although the caller has none", o.dl.String(), "no deadline")
					case rem > 0 && !o.has:
						bad("lost", "the caller's deadline did not reach the handler", map[string]any{"remaining": rem.String(), "stream": stream}, "a deadline")
					case rem > 0 && (o.dl.Before(D.Add(-time.Millisecond)) || o.dl.After(D.Add(o.tSeen.Sub(t0)))):
						bad("bounds", "the handler's deadline is outside [caller's - 1ms, caller's + transit]", o.dl.Sub(D).String(), map[string]any{"remaining": rem.String(), "stream": stream, "case": i})
					}
				case <-time.After(hangTimeout):
					bad("lost", "the call did not reach its handler", map[string]any{"remaining": rem.String(), "stream": stream}, nil)
				}
			}
			cancel()
		}
	}
}
