package main

import (
	"context"
	"fmt"
	"io"
	"math/rand"
	"sort"
	"strings"
	"sync"
	"time"

	goat "github.com/avos-io/goat"
	"github.com/avos-io/goat/gen/goatorepo"
	"github.com/avos-io/goat/internal/verifhook"
	"google.golang.org/grpc/codes"
	"google.golang.org/grpc/metadata"
	"google.golang.org/grpc/status"
	"google.golang.org/protobuf/proto"
)

// C18 — a demultiplexer gives each key its own ordered connection and shares the writer (I5).
//
// Scenarios (real goat.NewDemux over a scripted shared transport, key = header source)
//   exhaustive  every sequence of <= 3 envelopes over <= 3 keys with every consumption order of the
//               logical connections (read pending before arrival / before the hand-off / after Run
//               parked in the hand-off), as `dmseq` lock-step cases + monitors.
//   forced      Cancel(key) / Stop against Run held before the hand-off (hooks.OnYield
//               "demux.beforeHandoff"), Run parked in the hand-off, a blocked logical Read, a
//               blocked logical Write: reads and writes on a cancelled key fail, nothing
//               crashes, Stop ends Run.
//   random      random envelope sequences over 1..8 keys with reads, writes, Cancel and Stop at
//               every step, lock-step + monitors.
//   e2e         several logical clients, one server object, one shared transport: the C01–C04
//               workloads.
// Monitors: demuxDelivery (per key and epoch FIFO, exactly once, only to the key's connection),
// announced once per key per epoch, writes reach the shared transport unchanged, reads / writes
// on a cancelled key return an error, Run returns after Stop.

func init() { register("C18", runC18) }

func runC18(r *Run) {
	if r.Want("exhaustive") {
		c18Exhaustive(r)
	}
	if r.Want("forced") {
		c18Forced(r)
	}
	if r.Want("random") {
		c18Random(r)
	}
	if r.Want("e2e") {
		c18E2E(r)
	}
	c18WriteThenCancel(r)
	c18ChanShared(r)
	c18CancelWithUnaryInFlight(r)
	c18BlockedWriteThenCancel(r)
	c18ConcurrentCancel(r)
	c18LargeRepliesSlowShared(r)
	c18ReadTimeout(r)
}

// ---------------------------------------------------------------- the scripted world around one demux

type dmRead struct {
	e   *Rpc
	err error
}

type dmConn struct {
	idx       int
	key       string
	rw        goat.RpcReadWriter
	uctx      context.Context
	ucancel   context.CancelFunc
	res       chan dmRead
	pending   bool // a logical Read is outstanding
	cancelled bool
}

type dmWorld struct {
	r    *Run
	scen string
	sc   *pxTap
	d    *goat.Demux
	ctx  context.Context
	stop context.CancelFunc

	runDone chan struct{}
	heldCh  chan uint64
	goCh    chan struct{}
	goOnce  sync.Once

	mu        sync.Mutex
	cond      *sync.Cond
	announced []goat.RpcReadWriter

	conns   []*dmConn
	reg     map[string]*dmConn // the harness's view of the registered keys
	inHand  *Rpc               // the envelope Run is handing off
	target  *dmConn
	held    bool // Run is held before the hand-off
	parked  bool // Run was released into the hand-off and nothing was ready
	stopped bool
	ended   bool

	items []string
	outs  []string
	dead  bool
	quiet bool
}

func newDmWorld(r *Run, scen string) *dmWorld {
	w := &dmWorld{r: r, scen: scen, runDone: make(chan struct{}), heldCh: make(chan uint64, 4), goCh: make(chan struct{}), reg: map[string]*dmConn{}}
	w.cond = sync.NewCond(&w.mu)
	w.sc = newPxTap(0)
	w.sc.Out = make(chan *Rpc, 1024)
	w.ctx, w.stop = context.WithCancel(context.Background())
	hooks.OnYield("demux.beforeHandoff", func(id uint64) {
		w.heldCh <- id
		<-w.goCh
	})
	w.d = goat.NewDemux(w.ctx, w.sc, func(e *Rpc) string { return e.GetHeader().GetSource() }, func(rw goat.RpcReadWriter) {
		w.mu.Lock()
		w.announced = append(w.announced, rw)
		w.cond.Broadcast()
		w.mu.Unlock()
	})
	go func() {
		defer close(w.runDone)
		defer func() {
			if x := recover(); x != nil {
				verifhook.Emit("harness.demux.panic", 0, fmt.Sprint(x))
			}
		}()
		w.d.Run()
	}()
	return w
}

func (w *dmWorld) input() string {
	if len(w.items) == 0 {
		return "_"
	}
	return strings.Join(w.items, " ")
}

func (w *dmWorld) output() string {
	if len(w.outs) == 0 {
		return "_"
	}
	return strings.Join(w.outs, " ")
}

func (w *dmWorld) rec(item, out string) {
	w.items = append(w.items, item)
	w.outs = append(w.outs, out)
}

func (w *dmWorld) fail(kind, vkind, detail string, observed any) {
	w.dead = true
	w.r.Violate(w.scen+"."+kind, vkind, detail, w.input(), observed, w.output())
}

func (w *dmWorld) progress(next string) {
	if w.quiet {
		return // random families: one Progress per scenario (Progress syncs the file: ~1 ms)
	}
	w.r.Progress(w.scen, map[string]any{"dmseq": w.input(), "next": next})
}

// waitEvent waits for a hook event at or after mark with one of the sites; a panic of Run wakes it too.
func (w *dmWorld) waitEvent(mark int, sites ...string) (Event, bool) {
	var ev Event
	ok := hooks.WaitFor(func(e Event) bool {
		if e.Seq < mark {
			return false
		}
		if e.Site == "harness.demux.panic" {
			ev = e
			return true
		}
		for _, s := range sites {
			if e.Site == s {
				ev = e
				return true
			}
		}
		return false
	}, hangTimeout)
	if ok && ev.Site == "harness.demux.panic" {
		w.fail("crash", "schedule", "the demultiplexer's run loop panicked", ev.Detail)
		return ev, false
	}
	return ev, ok
}

// unexpected reports a logical Read that completed although nothing was due.
func (w *dmWorld) unexpected() bool {
	for _, c := range w.conns {
		if !c.pending {
			continue
		}
		select {
		case res := <-c.res:
			c.pending = false
			w.fail("delivery", "ops", fmt.Sprintf("a pending Read on logical connection %d (key %q) returned although no envelope was due and the key was not cancelled", c.idx, c.key), fmt.Sprintf("%v / %v", res.e, res.err))
			return true
		default:
		}
	}
	return false
}

// feed: item E. Run reads the envelope, looks the key up and is held before the hand-off.
func (w *dmWorld) feed(e *Rpc) bool {
	if w.dead || w.unexpected() {
		return false
	}
	item := "E" + pxEnvText(e)
	w.progress(item)
	key := e.GetHeader().GetSource()
	mark := len(hooks.Events())
	select {
	case w.sc.In <- proto.Clone(e).(*Rpc):
	case <-time.After(hangTimeout):
		w.rec(item, "busy")
		w.fail("stall", "ops", "Run stopped reading the shared transport", goroutineDump())
		return false
	}
	select {
	case <-w.heldCh:
	case <-time.After(hangTimeout):
		w.rec(item, "nothing")
		w.fail("stall", "ops", "Run did not reach the hand-off for an envelope it read", goroutineDump())
		return false
	}
	created := 0
	for _, ev := range hooks.Events()[mark:] {
		if ev.Site == "demux.newconn" {
			created++
			if ev.Detail != key {
				w.rec(item, "new:"+hxs(ev.Detail))
				w.fail("key", "ops", "a logical connection was created for a key other than the envelope's", ev.Detail)
				return false
			}
		}
	}
	c := w.reg[key]
	switch {
	case c == nil && created == 1:
		// I5: announced once, on first use of the key in this epoch
		n := len(w.conns) + 1
		stop := time.AfterFunc(hangTimeout, func() { w.mu.Lock(); w.cond.Broadcast(); w.mu.Unlock() })
		deadline := time.Now().Add(hangTimeout)
		w.mu.Lock()
		for len(w.announced) < n && time.Now().Before(deadline) {
			w.cond.Wait()
		}
		got := len(w.announced)
		var rw goat.RpcReadWriter
		if got >= n {
			rw = w.announced[n-1]
		}
		w.mu.Unlock()
		stop.Stop()
		if got != n {
			w.rec(item, fmt.Sprintf("new:%s#?", hxs(key)))
			w.fail("announce", "ops", "a new key's logical connection was not announced exactly once", fmt.Sprintf("%d announcements, expected %d", got, n))
			return false
		}
		c = &dmConn{idx: n - 1, key: key, rw: rw, res: make(chan dmRead, 1)}
		c.uctx, c.ucancel = context.WithCancel(context.Background())
		w.conns = append(w.conns, c)
		w.reg[key] = c
		w.rec(item, fmt.Sprintf("new:%s#%d", hxs(key), c.idx))
	case c != nil && created == 0:
		w.rec(item, fmt.Sprintf("old:%s#%d", hxs(key), c.idx))
	case c != nil:
		w.rec(item, fmt.Sprintf("new:%s#?", hxs(key)))
		w.fail("announce", "ops", "a second logical connection was created for a key that has one in this epoch", key)
		return false
	default:
		w.rec(item, fmt.Sprintf("old:%s#?", hxs(key)))
		w.fail("announce", "ops", "no logical connection was created for a new key", fmt.Sprintf("%d created", created))
		return false
	}
	w.mu.Lock()
	extra := len(w.announced) != len(w.conns)
	w.mu.Unlock()
	if extra {
		w.fail("announce", "ops", "more announcements than keys and epochs", nil)
		return false
	}
	w.inHand, w.target, w.held, w.parked = e, c, true, false
	return true
}

// expectGot waits for the pending Read of c to return exactly the envelope in hand.
func (w *dmWorld) expectGot(c *dmConn, item string, mark int) bool {
	select {
	case res := <-c.res:
		c.pending = false
		if res.err != nil || res.e == nil {
			w.rec(item, fmt.Sprintf("fail:%d", c.idx))
			w.fail("delivery", "ops", fmt.Sprintf("Read on logical connection %d (key %q) did not return the envelope handed to it", c.idx, c.key), fmt.Sprint(res.err))
			return false
		}
		w.rec(item, fmt.Sprintf("got:%d:%s", c.idx, pxEnvText(res.e)))
		if !proto.Equal(res.e, w.inHand) {
			w.fail("delivery", "ops", "a logical connection was handed an envelope other than the next one for its key", pxEnvText(res.e))
			return false
		}
	case <-time.After(hangTimeout):
		w.rec(item, "nothing")
		w.fail("lost", "ops", fmt.Sprintf("an envelope for key %q was not handed to the Read pending on its logical connection", c.key), goroutineDump())
		return false
	}
	if _, ok := w.waitEvent(mark, "demux.handoff"); !ok {
		return false
	}
	w.inHand, w.target, w.parked, w.held = nil, nil, false, false
	return true
}

// release: item g. Run leaves the yield point and enters the hand-off select.
func (w *dmWorld) release() bool {
	if w.dead || w.unexpected() {
		return false
	}
	w.progress("g")
	mark := len(hooks.Events())
	c := w.target
	w.held = false
	w.goCh <- struct{}{}
	switch {
	case c.pending && !c.cancelled && !w.stopped:
		return w.expectGot(c, "g", mark)
	case c.cancelled && !c.pending && !w.stopped:
		if _, ok := w.waitEvent(mark, "demux.handoff.cancelled"); !ok {
			if !w.dead {
				w.rec("g", "nothing")
				w.fail("cancelled", "schedule", "Run did not abandon the hand-off to a cancelled key", goroutineDump())
			}
			return false
		}
		w.rec("g", fmt.Sprintf("cancelled:%d", c.idx))
		w.inHand, w.target = nil, nil
		return true
	case w.stopped && !c.pending && !c.cancelled:
		if !w.expectStopped(mark, "g", "stopped") {
			return false
		}
		return true
	case !c.pending && !c.cancelled && !w.stopped:
		w.parked = true
		w.rec("g", fmt.Sprintf("parked:%d", c.idx))
		return true
	}
	w.rec("g", "amb")
	w.fail("harness", "ops", "ambiguous hand-off generated", nil)
	return false
}

func (w *dmWorld) expectStopped(mark int, item, out string) bool {
	if _, ok := w.waitEvent(mark, "demux.handoff.stopped"); !ok {
		if !w.dead {
			w.rec(item, "nothing")
			w.fail("stop", "schedule", "Run did not leave the hand-off after Stop", goroutineDump())
		}
		return false
	}
	if !within(hangTimeout, func() { <-w.runDone }) {
		w.rec(item, "nothing")
		w.fail("stop", "schedule", "Run did not return after Stop", goroutineDump())
		return false
	}
	w.rec(item, out)
	w.ended, w.parked, w.inHand, w.target = true, false, nil, nil
	return true
}

// read: item r<c>.
func (w *dmWorld) read(c *dmConn) bool {
	if w.dead || w.unexpected() {
		return false
	}
	item := fmt.Sprintf("r%d", c.idx)
	w.progress(item)
	mark := len(hooks.Events())
	c.pending = true
	go func() {
		defer func() {
			if x := recover(); x != nil {
				verifhook.Emit("harness.demux.panic", 0, fmt.Sprint(x))
				c.res <- dmRead{nil, nil}
			}
		}()
		e, err := c.rw.Read(c.uctx)
		c.res <- dmRead{e, err}
	}()
	switch {
	case c.cancelled:
		select {
		case res := <-c.res:
			c.pending = false
			if res.err == nil {
				w.rec(item, "got")
				w.fail("cancelled.read", "schedule", "Read on a cancelled key returned without an error", fmt.Sprintf("envelope %v", res.e))
				return false
			}
			w.rec(item, fmt.Sprintf("fail:%d", c.idx))
			return true
		case <-time.After(hangTimeout):
			w.rec(item, "nothing")
			w.fail("cancelled.read", "schedule", "Read on a cancelled key blocked", goroutineDump())
			return false
		}
	case w.parked && w.target == c:
		return w.expectGot(c, item, mark)
	}
	w.rec(item, fmt.Sprintf("pending:%d", c.idx))
	return true
}

// write: item w<c>@<env>.
func (w *dmWorld) write(c *dmConn, e *Rpc) bool {
	if w.dead || w.unexpected() {
		return false
	}
	item := fmt.Sprintf("w%d@%s", c.idx, pxEnvText(e))
	w.progress(item)
	var err error
	var crash any
	ret := within(hangTimeout, func() {
		defer func() { crash = recover() }()
		err = c.rw.Write(c.uctx, proto.Clone(e).(*Rpc))
	})
	if crash != nil {
		w.rec(item, "panic")
		w.fail("crash", "schedule", "Write on a logical connection panicked", fmt.Sprint(crash))
		return false
	}
	if !ret {
		w.rec(item, fmt.Sprintf("wblocked:%d", c.idx))
		w.fail("write", "schedule", "Write on a logical connection blocked", goroutineDump())
		return false
	}
	if c.cancelled {
		if err == nil {
			w.rec(item, "wrote")
			w.fail("cancelled.write", "schedule", "Write on a cancelled key returned without an error", nil)
			return false
		}
		w.rec(item, fmt.Sprintf("wfail:%d", c.idx))
		return true
	}
	if err != nil {
		w.rec(item, fmt.Sprintf("wfail:%d", c.idx))
		w.fail("write", "ops", "Write on a live logical connection failed", err.Error())
		return false
	}
	select {
	case o := <-w.sc.Out:
		w.rec(item, fmt.Sprintf("wrote:%d:%s", c.idx, pxEnvText(o)))
		if !proto.Equal(o, e) {
			w.fail("passthrough", "ops", "an envelope written on a logical connection reached the shared transport altered", pxEnvText(o))
			return false
		}
	case <-time.After(hangTimeout):
		w.rec(item, "nothing")
		w.fail("passthrough", "ops", "an envelope written on a logical connection never reached the shared transport", goroutineDump())
		return false
	}
	return true
}

// cancelKey: item C<key>.
func (w *dmWorld) cancelKey(key string) bool {
	if w.dead || w.unexpected() {
		return false
	}
	item := "C" + hxs(key)
	w.progress(item)
	mark := len(hooks.Events())
	c := w.reg[key]
	w.d.Cancel(key)
	if c == nil {
		w.rec(item, "cancel:none")
		return true
	}
	c.cancelled = true
	delete(w.reg, key)
	out := fmt.Sprintf("cancel:%d", c.idx)
	if c.pending {
		select {
		case res := <-c.res:
			c.pending = false
			if res.err == nil {
				w.rec(item, out+"+got")
				w.fail("cancelled.read", "schedule", "a Read blocked on a key returned without an error when the key was cancelled", fmt.Sprintf("envelope %v", res.e))
				return false
			}
			out += "+rfail"
		case <-time.After(hangTimeout):
			w.rec(item, out)
			w.fail("cancelled.read", "schedule", "a Read blocked on a key stayed blocked after the key was cancelled", goroutineDump())
			return false
		}
	}
	if w.parked && w.target == c {
		if _, ok := w.waitEvent(mark, "demux.handoff.cancelled"); !ok {
			if !w.dead {
				w.rec(item, out)
				w.fail("cancelled", "schedule", "Run stayed parked in the hand-off to a key that was cancelled", goroutineDump())
			}
			return false
		}
		out += "+hcancelled"
		w.parked, w.inHand, w.target = false, nil, nil
	}
	w.rec(item, out)
	return true
}

// stopAll: item S.
func (w *dmWorld) stopAll() bool {
	if w.dead || w.unexpected() {
		return false
	}
	w.progress("S")
	mark := len(hooks.Events())
	w.stopped = true
	w.d.Stop()
	switch {
	case w.parked:
		return w.expectStopped(mark, "S", "stop+hstopped")
	case !w.held && !w.ended:
		if !within(hangTimeout, func() { <-w.runDone }) {
			w.rec("S", "stop")
			w.fail("stop", "schedule", "Run did not return after Stop", goroutineDump())
			return false
		}
		w.ended = true
		w.rec("S", "stop+ended")
		return true
	}
	w.rec("S", "stop")
	return true
}

// finish ends the scenario: the lock-step case, then Stop must end Run.
func (w *dmWorld) finish() {
	if !w.dead {
		w.unexpected()
	}
	if !w.dead {
		w.r.Case("dmseq", w.input(), w.output())
	}
	for _, c := range w.conns {
		c.ucancel()
	}
	wasDead := w.dead
	w.d.Stop()
	if wasDead {
		// let a stuck Run go, whatever state the broken tree left it in
		for k := range w.reg {
			w.d.Cancel(k)
		}
	}
	w.goOnce.Do(func() { close(w.goCh) })
	if !within(hangTimeout, func() { <-w.runDone }) && !wasDead {
		w.r.Violate(w.scen+".stop", "schedule", "Run did not return after Stop", w.input(), goroutineDump(), nil)
	}
	w.stop()
}

// ---------------------------------------------------------------- generators

func dmEnv(rng *rand.Rand, id uint64, key string) *Rpc {
	e := &Rpc{Id: id}
	if key != "" || rng.Intn(2) == 0 {
		e.Header = &goatorepo.RequestHeader{Source: key, Destination: "srv", Method: pick(rng, []string{"/verif.Echo/Unary", "/verif.Echo/Bidi", ""})}
		if rng.Intn(3) == 0 {
			e.Header.Headers = []*goatorepo.KeyValue{{Key: genKey(rng, false), Value: genTextValue(rng)}}
		}
		if rng.Intn(4) == 0 {
			e.Header.ProxyRecord = []string{"px"}
		}
	}
	if rng.Intn(3) > 0 {
		e.Body = &goatorepo.Body{Data: genPayload(rng, 48)}
	}
	if rng.Intn(5) == 0 {
		e.Trailer = &goatorepo.Trailer{}
	}
	if rng.Intn(8) == 0 {
		e.Status = &goatorepo.ResponseStatus{Code: int32(rng.Intn(17)), Message: genTextValue(rng)}
	}
	if rng.Intn(10) == 0 {
		e.Reset_ = &goatorepo.Reset{Type: "RST_STREAM"}
	}
	return e
}

// ---------------------------------------------------------------- exhaustive small sequences

func c18Exhaustive(r *Run) {
	rng := r.Rand("c18.exhaustive")
	keys := []string{"k1", "k2", "k3"}
	type plan struct {
		ks    []int
		modes []int // 0: E g r   1: E r g   2: r E g (E r g when the key has no connection yet)
	}
	var plans []plan
	for n := 1; n <= 3; n++ {
		tot := 1
		for i := 0; i < n; i++ {
			tot *= 9
		}
		for x := 0; x < tot; x++ {
			p := plan{}
			y := x
			for i := 0; i < n; i++ {
				p.ks = append(p.ks, y%3)
				p.modes = append(p.modes, (y/3)%3)
				y /= 9
			}
			plans = append(plans, p)
		}
	}
	if !r.Thorough() {
		// all sequences of one and two envelopes, a sample of those of three
		tail := plans[90:]
		rng.Shuffle(len(tail), func(i, j int) { tail[i], tail[j] = tail[j], tail[i] })
		plans = plans[:90+110]
	}
	for _, p := range plans {
		if r.NumViolations() > 4 {
			return
		}
		hooks.Reset(true)
		r.Progress("exhaustive", map[string]any{"keys": p.ks, "modes": p.modes, "seed": r.Seed})
		w := newDmWorld(r, "exhaustive")
		w.quiet = true
		ok := true
		for i := range p.ks {
			key := keys[p.ks[i]]
			e := dmEnv(rng, uint64(i+1), key)
			c := w.reg[key]
			switch {
			case p.modes[i] == 2 && c != nil:
				ok = w.read(c) && w.feed(e) && w.release()
			case p.modes[i] >= 1:
				ok = w.feed(e) && w.read(w.target) && w.release()
			default:
				ok = w.feed(e) && w.release() && w.read(w.target)
			}
			if !ok {
				break
			}
		}
		// per key and epoch: delivered = fed, in order (each got was checked against the envelope in hand)
		r.Eval("exhaustive/"+fmt.Sprint(p.ks, p.modes), ok)
		r.Count(fmt.Sprintf("exhaustive.len%d", len(p.ks)))
		w.finish()
		hooks.Reset(false)
	}
}

// ---------------------------------------------------------------- forced schedules

func c18Forced(r *Run) {
	rng := r.Rand("c18.forced")
	rounds := r.Scale(6, 60)
	type sched struct {
		name string
		body func(w *dmWorld, e func(key string) *Rpc) bool
	}
	scheds := []sched{
		{"cancel-held", func(w *dmWorld, e func(string) *Rpc) bool {
			// Run holds an envelope for k and has not entered the hand-off; Cancel(k); release
			if !(w.feed(e("k")) && w.cancelKey("k") && w.release()) {
				return false
			}
			c := w.conns[0]
			for i := 0; i < 8; i++ { // every later read and write on the cancelled key fails
				if !w.read(c) {
					return false
				}
			}
			if !w.write(c, e("k")) {
				return false
			}
			// the key starts a new epoch: announced again, once
			return w.feed(e("k")) && w.release() && w.read(w.conns[1]) && w.write(w.conns[1], e("k"))
		}},
		{"cancel-held-reader", func(w *dmWorld, e func(string) *Rpc) bool {
			// as above, with a Read already blocked on the key
			if !(w.feed(e("k")) && w.read(w.conns[0]) && w.cancelKey("k") && w.release()) {
				return false
			}
			for i := 0; i < 4; i++ {
				if !w.read(w.conns[0]) {
					return false
				}
			}
			return w.feed(e("k")) && w.read(w.conns[1]) && w.release()
		}},
		{"cancel-parked", func(w *dmWorld, e func(string) *Rpc) bool {
			// Run parked in the hand-off to k (nobody reads); Cancel(k) frees it
			if !(w.feed(e("k")) && w.release() && w.cancelKey("k")) {
				return false
			}
			for i := 0; i < 4; i++ {
				if !w.read(w.conns[0]) {
					return false
				}
			}
			return w.write(w.conns[0], e("k")) && w.feed(e("j")) && w.release() && w.read(w.conns[1])
		}},
		{"cancel-blocked-read", func(w *dmWorld, e func(string) *Rpc) bool {
			if !(w.feed(e("k")) && w.release() && w.read(w.conns[0])) {
				return false
			}
			return w.read(w.conns[0]) && w.cancelKey("k") && w.read(w.conns[0]) && w.write(w.conns[0], e("k"))
		}},
		{"cancel-other-key", func(w *dmWorld, e func(string) *Rpc) bool {
			// cancelling j does not disturb k; cancelling an unknown key is a no-op
			if !(w.feed(e("k")) && w.release() && w.read(w.conns[0]) && w.feed(e("j")) && w.release() && w.read(w.conns[1])) {
				return false
			}
			return w.read(w.conns[0]) && w.cancelKey("j") && w.cancelKey("zz") && w.feed(e("k")) && w.release() && w.write(w.conns[0], e("k")) && w.write(w.conns[1], e("j"))
		}},
		{"stop-parked", func(w *dmWorld, e func(string) *Rpc) bool {
			return w.feed(e("k")) && w.release() && w.stopAll()
		}},
		{"stop-held", func(w *dmWorld, e func(string) *Rpc) bool {
			return w.feed(e("k")) && w.stopAll() && w.release()
		}},
		{"stop-idle", func(w *dmWorld, e func(string) *Rpc) bool {
			return w.feed(e("k")) && w.release() && w.read(w.conns[0]) && w.stopAll()
		}},
		{"stop-parked-others-blocked", func(w *dmWorld, e func(string) *Rpc) bool {
			// reads blocked on other keys while Run is parked on k: Stop still ends Run
			if !(w.feed(e("j")) && w.release() && w.read(w.conns[0]) && w.read(w.conns[0])) {
				return false
			}
			return w.feed(e("k")) && w.release() && w.stopAll()
		}},
	}
	for round := 0; round < rounds; round++ {
		for _, s := range scheds {
			if r.NumViolations() > 4 {
				return
			}
			hooks.Reset(true)
			w := newDmWorld(r, "forced."+s.name)
			id := uint64(0)
			ok := s.body(w, func(key string) *Rpc { id++; return dmEnv(rng, id, key) })
			r.Eval(fmt.Sprintf("forced/%s/%d", s.name, round), ok)
			r.Count("forced." + s.name)
			w.finish()
			hooks.Reset(false)
		}
		if r.NumViolations() <= 4 {
			c18BlockedWrite(r, rng, round)
		}
	}
}

// c18BlockedWrite: the shared transport is not drained, so the key's writer goroutine is stuck in
// its Write and a second logical Write blocks; Cancel(key) (or Stop for the writer) must make it
// return an error instead of blocking for ever.
func c18BlockedWrite(r *Run, rng *rand.Rand, round int) {
	hooks.Reset(true)
	defer hooks.Reset(false)
	in := map[string]any{"scenario": "first Write accepted, writer stuck in the shared transport, second Write blocked, then Cancel(key)", "round": round}
	r.Progress("forced.blocked-write", in)
	sc := newPxTap(0) // Out unbuffered and never read
	ctx, cancel := context.WithCancel(context.Background())
	defer cancel()
	var mu sync.Mutex
	var rws []goat.RpcReadWriter
	got := make(chan struct{}, 4)
	d := goat.NewDemux(ctx, sc, func(e *Rpc) string { return e.GetHeader().GetSource() }, func(rw goat.RpcReadWriter) {
		mu.Lock()
		rws = append(rws, rw)
		mu.Unlock()
		got <- struct{}{}
	})
	runDone := make(chan struct{})
	go func() { defer close(runDone); d.Run() }()
	sc.In <- dmEnv(rng, 1, "k")
	if !within(hangTimeout, func() { <-got }) {
		r.Violate("forced.blocked-write.announce", "schedule", "no announcement", in, nil, nil)
		return
	}
	mu.Lock()
	rw := rws[0]
	mu.Unlock()
	uctx := context.Background()
	first := dmEnv(rng, 2, "k")
	var err1 error
	if !within(hangTimeout, func() { err1 = rw.Write(uctx, first) }) || err1 != nil {
		r.Violate("forced.blocked-write.first", "schedule", "the first Write on a live logical connection did not succeed", in, fmt.Sprint(err1), nil)
		return
	}
	if !sc.WaitWrites(1, hangTimeout) {
		r.Violate("forced.blocked-write.writer", "schedule", "the key's writer never wrote to the shared transport", in, nil, nil)
		return
	}
	res := make(chan error, 1)
	go func() { res <- rw.Write(uctx, dmEnv(rng, 3, "k")) }()
	readRes := make(chan error, 1)
	go func() { _, err := rw.Read(uctx); readRes <- err }()
	// the hand-off for envelope 1 consumed that Read; start another that blocks
	select {
	case err := <-readRes:
		if err != nil {
			r.Violate("forced.blocked-write.read", "schedule", "Read failed on a live key", in, err.Error(), nil)
			return
		}
	case <-time.After(hangTimeout):
		r.Violate("forced.blocked-write.read", "schedule", "the first envelope was never handed over", in, goroutineDump(), nil)
		return
	}
	go func() { _, err := rw.Read(uctx); readRes <- err }()
	d.Cancel("k")
	for _, what := range []string{"Write", "Read"} {
		ch := res
		if what == "Read" {
			ch = readRes
		}
		select {
		case err := <-ch:
			if err == nil {
				r.Violate("forced.blocked-write.cancelled", "schedule", "a blocked "+what+" on a cancelled key returned without an error", in, nil, "an error")
			}
		case <-time.After(hangTimeout):
			r.Violate("forced.blocked-write.cancelled", "schedule", "a blocked "+what+" on a key stayed blocked after the key was cancelled", in, goroutineDump(), "an error")
		}
	}
	d.Stop()
	if !within(hangTimeout, func() { <-runDone }) {
		r.Violate("forced.blocked-write.stop", "schedule", "Run did not return after Stop", in, goroutineDump(), nil)
	}
	r.Eval(fmt.Sprintf("forced/blocked-write/%d", round), true)
	r.Count("forced.blocked-write")
}

// ---------------------------------------------------------------- random sequences

func c18Random(r *Run) {
	rng := r.Rand("c18.random")
	n := r.Scale(400, 12000)
	for i := 0; i < n && r.NumViolations() <= 4; i++ {
		nk := 1 + rng.Intn(8)
		keys := []string{}
		for k := 0; k < nk; k++ {
			keys = append(keys, fmt.Sprintf("k%d", k+1))
		}
		if rng.Intn(4) == 0 {
			keys = append(keys, "") // envelopes without a source share the empty key
		}
		c18RandomOne(r, i, rng, keys, 5+rng.Intn(r.Scale(30, 60)))
		r.Count(fmt.Sprintf("random.keys.%d", nk))
	}
}

func c18RandomOne(r *Run, idx int, rng *rand.Rand, keys []string, length int) {
	hooks.Reset(true)
	defer hooks.Reset(false)
	r.Progress("random", map[string]any{"index": idx, "seed": r.Seed, "keys": keys, "length": length, "replay": "-only random with the same seed and tier regenerates scenario number index"})
	w := newDmWorld(r, "random")
	w.quiet = true
	defer w.finish()
	id := uint64(0)
	ok := true
	for step := 0; step < length && ok; step++ {
		type op struct {
			name string
			f    func() bool
		}
		var ops []op
		add := func(weight int, name string, f func() bool) {
			for i := 0; i < weight; i++ {
				ops = append(ops, op{name, f})
			}
		}
		runIdle := !w.held && !w.parked && !w.ended && !w.stopped
		if runIdle {
			add(6, "E", func() bool { id++; return w.feed(dmEnv(rng, id, pick(rng, keys))) })
		}
		// outcomes the hand-off select could take once Run is released: at most one may be ready,
		// otherwise Go's select chooses at random and there is nothing to predict
		ready := func(pending, cancelled, stopped bool) int {
			n := 0
			if pending && !cancelled {
				n++
			}
			if cancelled {
				n++
			}
			if stopped {
				n++
			}
			return n
		}
		if w.held && ready(w.target.pending, w.target.cancelled, w.stopped) <= 1 {
			add(6, "g", w.release)
		}
		for _, c := range w.conns {
			c := c
			if !c.pending {
				if c.cancelled {
					add(1, "r.cancelled", func() bool { return w.read(c) })
				} else if !w.stopped {
					wgt := 1
					if w.target == c {
						wgt = 6
					}
					add(wgt, "r", func() bool { return w.read(c) })
				}
			}
			if c.cancelled {
				add(1, "w.cancelled", func() bool { id++; return w.write(c, dmEnv(rng, id, c.key)) })
			} else if !w.stopped {
				add(1, "w", func() bool { id++; return w.write(c, dmEnv(rng, id, c.key)) })
			}
		}
		add(2, "C", func() bool {
			k := pick(rng, keys)
			if w.held && w.stopped && w.target.key == k {
				k = "zz" // would leave the held hand-off with two ready cases
			}
			return w.cancelKey(k)
		})
		if !w.stopped && step > length/2 && !(w.held && (w.target.pending || w.target.cancelled)) {
			add(1, "S", w.stopAll)
		}
		o := ops[rng.Intn(len(ops))]
		ok = o.f()
		r.Count("random.op." + o.name)
	}
	r.Eval("random/"+w.input(), ok)
}

// ---------------------------------------------------------------- end to end

// c18FanIn joins the clients' transports into one shared transport (what a proxy or a tunnel
// does in production): client -> shared as is, shared -> client by header destination.
type c18FanIn struct {
	shared *End
	ends   map[string]*End
}

func (f *c18FanIn) run(ctx context.Context) {
	for _, e := range f.ends {
		e := e
		go func() {
			for {
				rpc, err := e.Read(ctx)
				if err != nil {
					return
				}
				if f.shared.Write(ctx, rpc) != nil {
					return
				}
			}
		}()
	}
	go func() {
		for {
			rpc, err := f.shared.Read(ctx)
			if err != nil {
				return
			}
			if e := f.ends[rpc.GetHeader().GetDestination()]; e != nil {
				if e.Write(ctx, rpc) != nil {
					return
				}
			}
		}
	}()
}

func c18E2E(r *Run) {
	rng := r.Rand("c18.e2e")
	n := r.Scale(12, 150)
	for i := 0; i < n && r.NumViolations() <= 4; i++ {
		c18E2EOne(r, rng, 1+rng.Intn(8), rng.Intn(2) == 0, r.Scale(8, 20), i%3 == 2)
	}
}

func c18E2EOne(r *Run, rng *rand.Rand, nc int, serialise bool, calls int, cancelOne bool) {
	hooks.Reset(true)
	defer hooks.Reset(false)
	input := map[string]any{"clients": nc, "serialise": serialise, "calls_per_client": calls, "cancel_one_key": cancelOne, "seed": r.Seed}
	r.Progress("e2e", input)
	ctx, cancel := context.WithCancel(context.Background())
	defer cancel()
	wire := &Wire{}
	cShared, sShared := NewPipe(4096, serialise, wire)
	srv := goat.NewServer("srv")
	impl := &Impl{}
	log := NewHandlerLog()
	srv.RegisterService(&echoDesc, impl)
	InstallPrograms(impl, log, nil)
	c16WrapMetadata(impl)
	var mu sync.Mutex
	announced := 0
	var serves sync.WaitGroup
	d := goat.NewDemux(ctx, sShared, func(e *Rpc) string { return e.GetHeader().GetSource() }, func(rw goat.RpcReadWriter) {
		mu.Lock()
		announced++
		mu.Unlock()
		serves.Add(1)
		defer serves.Done()
		srv.Serve(ctx, rw)
	})
	runDone := make(chan struct{})
	go func() { defer close(runDone); d.Run() }()
	fan := &c18FanIn{shared: cShared, ends: map[string]*End{}}
	type cli struct {
		name string
		cc   *goat.ClientConn
		end  *End
	}
	var clients []*cli
	for i := 0; i < nc; i++ {
		name := fmt.Sprintf("c%d", i+1)
		ce, fe := NewPipe(4096, serialise, nil)
		fan.ends[name] = fe
		clients = append(clients, &cli{name: name, cc: goat.NewClientConn(ce, name, "srv"), end: ce})
	}
	fan.run(ctx)

	var wg sync.WaitGroup
	var smu sync.Mutex
	type pend struct {
		o  *StreamObs
		in any
	}
	var streams []pend
	work := func(c *cli, crng *rand.Rand, from, to int) {
		defer wg.Done()
		for k := from; k < to; k++ {
			tag := fmt.Sprintf("%s.%d", c.name, k)
			cctx, ccancel := context.WithTimeout(ctx, 3*hangTimeout)
			switch crng.Intn(5) {
			case 0:
				req := append([]byte(tag+"/"), genPayload(crng, 300)...)
				got, err := callUnary(cctx, c.cc, req)
				if err != nil || string(got) != string(unaryF(req)) {
					r.Violate("e2e.unary", "history", "a unary call over a demultiplexed connection did not return its own request's reply", input, fmt.Sprintf("%x / %v", got, err), hx(unaryF(req)))
				}
				log.mu.Lock()
				inv := log.Invoked[string(req)]
				log.mu.Unlock()
				if inv != 1 {
					r.Violate("e2e.unary.once", "history", "handler invocations for one request", input, inv, 1)
				}
				r.Count("e2e.unary")
			case 1:
				code := codes.Code(1 + crng.Intn(16))
				uctx := metadata.AppendToOutgoingContext(cctx, "x-prog", fmt.Sprintf("fail:0:%d", code))
				_, err := callUnary(uctx, c.cc, []byte(tag))
				if status.Code(err) != code || status.Convert(err).Message() != "boom" {
					r.Violate("e2e.status", "history", "the handler's status did not reach the caller", input, fmt.Sprint(err), fmt.Sprintf("%v boom", code))
				}
				r.Count("e2e.status")
			case 2:
				c18MDCall(r, cctx, c.cc, tag, crng, input)
			default:
				method := []string{mBidi, mSrvStream, mCliStream}[crng.Intn(3)]
				progs := []string{"echo", fmt.Sprintf("burst:%d", crng.Intn(12)), fmt.Sprintf("aftereof:%d", crng.Intn(12)), fmt.Sprintf("fail:%d:%d", crng.Intn(3), 1+crng.Intn(16)), fmt.Sprintf("early:%d", crng.Intn(3))}
				prog := progs[crng.Intn(len(progs))]
				client := []string{"sendall", "pingpong", "conc", "earlyclose"}[crng.Intn(4)]
				nSend := crng.Intn(12)
				in := map[string]any{"scenario": input, "client": c.name, "method": method, "prog": prog, "program": client, "n": nSend}
				o := runStreamCall(cctx, c.cc, method, tag, prog, client, nSend, nil)
				smu.Lock()
				streams = append(streams, pend{o, in})
				smu.Unlock()
				r.Count("e2e.stream." + strings.Split(prog, ":")[0])
			}
			ccancel()
		}
	}
	for _, c := range clients {
		wg.Add(1)
		go work(c, rand.New(rand.NewSource(rng.Int63())), 0, calls)
	}
	if !within(6*hangTimeout, wg.Wait) {
		r.Violate("e2e.hang", "history", "RPCs over the demultiplexer did not complete", input, goroutineDump(), nil)
		return
	}
	for _, p := range streams {
		checkStream(r, "e2e.stream", p.o, log, p.in)
	}
	streams = nil
	mu.Lock()
	ann := announced
	mu.Unlock()
	if ann != nc {
		r.Violate("e2e.announce", "history", "logical connections announced", input, ann, nc)
	}
	if cancelOne {
		// a quiescent client's key is cancelled: its Serve ends, the others keep working, and the
		// client's next call starts a new epoch (announced once more)
		victim := clients[rng.Intn(nc)]
		d.Cancel(victim.name)
		for _, c := range clients {
			wg.Add(1)
			go work(c, rand.New(rand.NewSource(rng.Int63())), calls, calls+3)
		}
		if !within(6*hangTimeout, wg.Wait) {
			r.Violate("e2e.hang", "history", "RPCs did not complete after one key was cancelled", input, goroutineDump(), nil)
			return
		}
		for _, p := range streams {
			checkStream(r, "e2e.stream", p.o, log, p.in)
		}
		mu.Lock()
		ann = announced
		mu.Unlock()
		if ann != nc+1 {
			r.Violate("e2e.announce", "history", "logical connections announced after one key was cancelled and used again", input, ann, nc+1)
		}
		r.Count("e2e.cancelled-key")
	}
	r.Eval(fmt.Sprintf("e2e/%d/%v/%v", nc, serialise, cancelOne), true)
	r.Count(fmt.Sprintf("e2e.clients.%d", nc))
	d.Stop()
	if !within(hangTimeout, func() { <-runDone }) {
		r.Violate("e2e.stop", "history", "Run did not return after Stop", input, goroutineDump(), nil)
	}
	cancel()
	srv.Stop()
	for _, c := range clients {
		c.end.FailRead(io.ErrClosedPipe)
		c.cc.Close()
	}
	if !within(hangTimeout, serves.Wait) {
		r.Violate("e2e.serve", "history", "a Serve on a logical connection did not return after Stop", input, goroutineDump(), nil)
	}
	_ = sort.Strings
}

func c18MDCall(r *Run, ctx context.Context, cc *goat.ClientConn, tag string, rng *rand.Rand, input any) {
	c16MDCall(r, ctx, &c16Client{cc: cc}, tag, rng, input)
}
