package main

import (
	"fmt"
	"sync"
	"time"

	"github.com/avos-io/goat/internal/verifhook"
)

// Event is one verifhook.Emit call.
type Event struct {
	Seq    int
	Site   string
	ID     uint64
	Detail string
}

func (e Event) String() string { return fmt.Sprintf("%s %d %s", e.Site, e.ID, e.Detail) }

// Hooks collects events and controls yield points. verifhook is process
// global, so only one scenario may use hooks at a time.
type Hooks struct {
	mu      sync.Mutex
	cond    *sync.Cond
	events  []Event
	yields  map[string]func(id uint64)
	logging bool
}

var hooks = newHooks()

func newHooks() *Hooks {
	h := &Hooks{yields: map[string]func(uint64){}}
	h.cond = sync.NewCond(&h.mu)
	return h
}

func (h *Hooks) Install() {
	verifhook.SetEmit(func(site string, id uint64, detail string) {
		h.mu.Lock()
		if h.logging {
			h.events = append(h.events, Event{len(h.events), site, id, detail})
			h.cond.Broadcast()
		}
		h.mu.Unlock()
	})
	verifhook.SetYield(func(site string, id uint64) {
		h.mu.Lock()
		f := h.yields[site]
		h.mu.Unlock()
		if f != nil {
			f(id)
		}
	})
}

// Inject appends a pseudo-event logged by the harness itself (e.g. when its transport hands an
// envelope to the library), in the same log and order as the library's events.
func (h *Hooks) Inject(site string, id uint64, detail string) {
	h.mu.Lock()
	if h.logging {
		h.events = append(h.events, Event{len(h.events), site, id, detail})
		h.cond.Broadcast()
	}
	h.mu.Unlock()
}

// Reset clears the log and the yield table and turns logging on or off.
func (h *Hooks) Reset(logging bool) {
	h.mu.Lock()
	h.events = nil
	h.yields = map[string]func(uint64){}
	h.logging = logging
	h.mu.Unlock()
}

func (h *Hooks) OnYield(site string, f func(id uint64)) {
	h.mu.Lock()
	h.yields[site] = f
	h.mu.Unlock()
}

// eventsUnlocked is for use inside a WaitFor predicate (the lock is already held there).
func (h *Hooks) eventsUnlocked() []Event { return h.events }

func (h *Hooks) Events() []Event {
	h.mu.Lock()
	defer h.mu.Unlock()
	return append([]Event(nil), h.events...)
}

// WaitFor blocks until an event satisfying pred has been logged (looking at
// the whole log), or the timeout passes.
func (h *Hooks) WaitFor(pred func(Event) bool, timeout time.Duration) bool {
	deadline := time.Now().Add(timeout)
	stop := time.AfterFunc(timeout, func() {
		h.mu.Lock()
		h.cond.Broadcast()
		h.mu.Unlock()
	})
	defer stop.Stop()
	h.mu.Lock()
	defer h.mu.Unlock()
	next := 0
	for {
		for ; next < len(h.events); next++ {
			if pred(h.events[next]) {
				return true
			}
		}
		if time.Now().After(deadline) {
			return false
		}
		h.cond.Wait()
	}
}

func siteIs(site string, id uint64) func(Event) bool {
	return func(e Event) bool { return e.Site == site && (id == 0 || e.ID == id) }
}
