package main

// C19: shipped transports carry every envelope unchanged and reject what is not one.
//
// Scenarios (each can be replayed alone with -only):
//   codec   generated envelopes: Go proto.Marshal(Deterministic)/Unmarshal in lock-step with the Lean codec (pbenc / pbdec)
//   raw     raw byte strings, random / mutated from valid encodings / hand-built wire corner cases: Go Unmarshal vs Lean decode (pbdec)
//   ws      a real websocket pair on loopback: round trip in write order both ways, non-binary message, undecodable bytes, blocked Read/Write vs context
//   chan    goat.NewGoatOverChannel: round trip in write order, blocked Read/Write vs context
//   http    goat.NewGoatOverHttp with httptest servers both ways: round trip, request shapes -> status (httpcode), never delivered when 400, blocked Read vs context
//   clean   the idle cleaner under clockwork.FakeClock: tick before / during / after an in-progress delivery

import (
	"bytes"
	"context"
	"errors"
	"fmt"
	"io"
	"math"
	"math/rand"
	"net/http"
	"net/http/httptest"
	"runtime"
	"strconv"
	"strings"
	"sync"
	"sync/atomic"
	"time"
	"unicode/utf8"

	goat "github.com/avos-io/goat"
	"github.com/avos-io/goat/gen/goatorepo"
	"github.com/coder/websocket"
	"github.com/jonboulle/clockwork"
	"google.golang.org/protobuf/encoding/protowire"
	"google.golang.org/protobuf/proto"
	"google.golang.org/protobuf/types/known/anypb"
)

func init() { register("C19", runC19) }

func runC19(r *Run) {
	// -only takes a scenario family ("clean") or the scenario name of a replay file ("clean.during.reader")
	want := func(family string) bool {
		return r.Only == "" || strings.HasPrefix(family, r.Only) || strings.HasPrefix(r.Only, family)
	}
	if want("codec") {
		c19Codec(r)
	}
	if want("raw") {
		c19Raw(r)
	}
	if want("chan") {
		c19Chan(r)
	}
	if want("ws") {
		c19Ws(r)
		c19WsPartialThenHealthy(r)
	}
	if want("http") {
		c19Http(r)
	}
	if want("clean") {
		c19Clean(r)
	}
	if want("http.stale") {
		c19HttpStale(r)
	}
	if want("http.table") {
		c19HttpTable(r)
	}
	if want("http.firstcontact") {
		c19HttpFirstContact(r)
	}
	if want("http.chunked") {
		c19HttpChunked(r)
	}
}

// ---------------------------------------------------------------------------
// envelope generator

var c19Runes = []rune{
	'a', 'Z', '0', '/', '.', '-', ' ', '~', 0x7f, 0x01,
	0x80, 0xe9, 0xdf, 0x7ff, // two bytes
	0x800, 0x20ac, 0x6f22, 0xd7ff, 0xe000, 0xfffd, 0xffff, // three bytes, around the surrogate gap
	0x10000, 0x1f600, 0x10ffff, // four bytes
}

// c19Str draws a valid UTF-8 string: often empty or ASCII, otherwise mixed widths.
func c19Str(rng *rand.Rand, max int) string {
	switch rng.Intn(6) {
	case 0:
		return ""
	case 1:
		return genTextValue(rng)
	}
	n := 1 + rng.Intn(max)
	var sb strings.Builder
	for i := 0; i < n; i++ {
		if rng.Intn(4) == 0 {
			// any scalar value
			c := rune(rng.Intn(0x110000))
			if c >= 0xd800 && c <= 0xdfff {
				c = 0xfffd
			}
			sb.WriteRune(c)
		} else {
			sb.WriteRune(c19Runes[rng.Intn(len(c19Runes))])
		}
	}
	return sb.String()
}

var c19Ids = []uint64{0, 1, 127, 128, 300, 16383, 16384, 1<<32 - 1, 1 << 32, 1<<56 - 1, 1 << 56, 1<<63 - 1, 1 << 63, math.MaxUint64 - 1, math.MaxUint64}

func c19Id(rng *rand.Rand) uint64 {
	switch rng.Intn(3) {
	case 0:
		return c19Ids[rng.Intn(len(c19Ids))]
	case 1:
		return rng.Uint64() >> uint(rng.Intn(64))
	}
	return rng.Uint64()
}

var c19Codes = []int32{0, 1, 2, 16, 127, 128, -1, -2, math.MinInt32, math.MaxInt32, 1 << 20}

func c19Code(rng *rand.Rand) int32 {
	if rng.Intn(3) == 0 {
		return int32(rng.Uint32())
	}
	return c19Codes[rng.Intn(len(c19Codes))]
}

var c19Sizes = []int{1, 2, 127, 128, 129, 1000}
var c19SizesBig = []int{16383, 16384, 16385}

// c19Body draws body data (mostly small, the lengths around the varint boundaries, a few KiB now and then);
// big says whether sizes up to max may be drawn.
func c19Body(rng *rand.Rand, max int, big bool) []byte {
	var n int
	switch k := rng.Intn(100); {
	case k < 75:
		n = rng.Intn(65)
	case k < 85:
		n = c19Sizes[rng.Intn(len(c19Sizes))]
	case k < 94:
		n = rng.Intn(2049)
	case k < 98:
		n = rng.Intn(4097)
	case k < 99:
		n = c19SizesBig[rng.Intn(len(c19SizesBig))]
	default:
		if big {
			if rng.Intn(3) == 0 {
				n = max
			} else {
				n = rng.Intn(max + 1)
			}
		} else {
			n = rng.Intn(8193)
		}
	}
	if n > max {
		n = max
	}
	b := make([]byte, n)
	rng.Read(b)
	return b
}

func c19KVs(rng *rand.Rand) []*goatorepo.KeyValue {
	n := rng.Intn(5)
	if rng.Intn(8) == 0 {
		n = 5 + rng.Intn(12)
	}
	kvs := make([]*goatorepo.KeyValue, n)
	for i := range kvs {
		kvs[i] = &goatorepo.KeyValue{Key: c19Str(rng, 8), Value: c19Str(rng, 12)}
	}
	return kvs
}

func c19Strs(rng *rand.Rand) []string {
	n := rng.Intn(4)
	l := make([]string, n)
	for i := range l {
		l[i] = c19Str(rng, 10)
	}
	return l
}

// c19Env draws an envelope. mask selects the sub-messages that are present
// (bit 0 header, 1 status, 2 body, 3 trailer, 4 reset); a present sub-message
// is empty with probability 1/6.
func c19Env(rng *rand.Rand, mask int, maxBody int, big bool) *Rpc {
	m := &Rpc{Id: c19Id(rng)}
	empty := func() bool { return rng.Intn(6) == 0 }
	if mask&1 != 0 {
		m.Header = &goatorepo.RequestHeader{}
		if !empty() {
			m.Header.Method = c19Str(rng, 16)
			m.Header.Source = c19Str(rng, 8)
			m.Header.Destination = c19Str(rng, 8)
			m.Header.Headers = c19KVs(rng)
			m.Header.ProxyRecord = c19Strs(rng)
			m.Header.ProxyNext = c19Strs(rng)
		}
	}
	if mask&2 != 0 {
		m.Status = &goatorepo.ResponseStatus{}
		if !empty() {
			m.Status.Code = c19Code(rng)
			m.Status.Message = c19Str(rng, 20)
			nd := rng.Intn(4)
			for i := 0; i < nd; i++ {
				m.Status.Details = append(m.Status.Details, &anypb.Any{TypeUrl: c19Str(rng, 20), Value: c19Body(rng, 300, false)})
			}
		}
	}
	if mask&4 != 0 {
		m.Body = &goatorepo.Body{}
		if !empty() {
			m.Body.Data = c19Body(rng, maxBody, big)
		}
	}
	if mask&8 != 0 {
		m.Trailer = &goatorepo.Trailer{}
		if !empty() {
			m.Trailer.Metadata = c19KVs(rng)
		}
	}
	if mask&16 != 0 {
		m.Reset_ = &goatorepo.Reset{}
		switch rng.Intn(3) {
		case 0:
			m.Reset_.Type = "RST_STREAM"
		case 1:
			m.Reset_.Type = c19Str(rng, 8)
		}
	}
	return m
}

func c19MaskName(mask int) string {
	s := ""
	for i, c := range "hsbtr" {
		if mask&(1<<uint(i)) != 0 {
			s += string(c)
		}
	}
	if s == "" {
		s = "none"
	}
	return s
}

func c19MaskOf(m *Rpc) int {
	mask := 0
	if m.Header != nil {
		mask |= 1
	}
	if m.Status != nil {
		mask |= 2
	}
	if m.Body != nil {
		mask |= 4
	}
	if m.Trailer != nil {
		mask |= 8
	}
	if m.Reset_ != nil {
		mask |= 16
	}
	return mask
}

// c19CountEnv records the input distribution of one generated envelope.
func c19CountEnv(r *Run, where string, m *Rpc) {
	r.Count(where + ".mask." + c19MaskName(c19MaskOf(m)))
	switch {
	case m.Id == 0:
		r.Count(where + ".id.zero")
	case m.Id == math.MaxUint64:
		r.Count(where + ".id.max")
	case m.Id >= 1<<63:
		r.Count(where + ".id.top-bit")
	case m.Id >= 1<<32:
		r.Count(where + ".id.64bit")
	default:
		r.Count(where + ".id.32bit")
	}
	if m.Body != nil {
		n := len(m.Body.Data)
		switch {
		case n == 0:
			r.Count(where + ".body.0")
		case n < 128:
			r.Count(where + ".body.<128")
		case n < 16384:
			r.Count(where + ".body.<16Ki")
		case n < 65536:
			r.Count(where + ".body.<64Ki")
		case n == 65536:
			r.Count(where + ".body.64Ki")
		case n < 1<<20:
			r.Count(where + ".body.<1Mi")
		default:
			r.Count(where + ".body.1Mi")
		}
	}
	nonASCII := false
	chk := func(s string) {
		for i := 0; i < len(s); i++ {
			if s[i] >= 0x80 {
				nonASCII = true
			}
		}
	}
	if h := m.Header; h != nil {
		chk(h.Method)
		chk(h.Source)
		chk(h.Destination)
		for _, kv := range h.Headers {
			chk(kv.Key)
			chk(kv.Value)
		}
		r.CountN(where+".repeated.headers", len(h.Headers))
		r.CountN(where+".repeated.proxy", len(h.ProxyNext)+len(h.ProxyRecord))
	}
	if s := m.Status; s != nil {
		chk(s.Message)
		r.CountN(where+".repeated.details", len(s.Details))
		if s.Code < 0 {
			r.Count(where + ".code.negative")
		}
	}
	if t := m.Trailer; t != nil {
		r.CountN(where+".repeated.trailer", len(t.Metadata))
	}
	if nonASCII {
		r.Count(where + ".nonASCII")
	}
}

// ---------------------------------------------------------------------------
// canonical text of an envelope (the format of Goat/Drv/PbOps.lean)

func c19KVText(kvs []*goatorepo.KeyValue) string {
	if len(kvs) == 0 {
		return "_"
	}
	p := make([]string, len(kvs))
	for i, kv := range kvs {
		p[i] = hxs(kv.GetKey()) + "=" + hxs(kv.GetValue())
	}
	return strings.Join(p, ";")
}

func c19Text(m *Rpc) string {
	f := make([]string, 6)
	f[0] = strconv.FormatUint(m.GetId(), 10)
	if h := m.Header; h == nil {
		f[1] = "~"
	} else {
		f[1] = strings.Join([]string{hxs(h.Method), hxs(h.Source), hxs(h.Destination), c19KVText(h.Headers), hxList(h.ProxyRecord), hxList(h.ProxyNext)}, ":")
	}
	if s := m.Status; s == nil {
		f[2] = "~"
	} else {
		d := "_"
		if len(s.Details) > 0 {
			p := make([]string, len(s.Details))
			for i, a := range s.Details {
				p[i] = hxs(a.GetTypeUrl()) + "=" + hx(a.GetValue())
			}
			d = strings.Join(p, ",")
		}
		f[2] = strconv.FormatInt(int64(s.Code), 10) + ":" + hxs(s.Message) + ":" + d
	}
	if b := m.Body; b == nil {
		f[3] = "~"
	} else {
		f[3] = hx(b.Data)
	}
	if t := m.Trailer; t == nil {
		f[4] = "~"
	} else {
		f[4] = c19KVText(t.Metadata)
	}
	if rs := m.Reset_; rs == nil {
		f[5] = "~"
	} else {
		f[5] = hxs(rs.Type)
	}
	return strings.Join(f, "|")
}

var c19Marshal = proto.MarshalOptions{Deterministic: true}

// c19DecText is Go's verdict on raw bytes: canonical text, or ERR.
func c19DecText(raw []byte) (string, *Rpc) {
	var m Rpc
	if err := proto.Unmarshal(raw, &m); err != nil {
		return "ERR", nil
	}
	return c19Text(&m), &m
}

func c19Brief(m *Rpc) string {
	if m == nil {
		return "<nil>"
	}
	return clip(c19Text(m), 300)
}

// ---------------------------------------------------------------------------
// scenario codec: generated envelopes, Go codec against the Lean codec

func c19Codec(r *Run) {
	rng := r.Rand("c19.codec")
	n := r.Scale(2000, 100000)
	maxBody := r.Scale(64<<10, 1<<20)
	bigLeft := r.Scale(10, 12) // envelopes with a body near the maximum (each costs 4x its size in the case file)
	for i := 0; i < n && r.NumViolations() <= 4; i++ {
		big := bigLeft > 0 && i%97 == 5
		m := c19Env(rng, i%32, maxBody, big)
		if big {
			m.Body = &goatorepo.Body{Data: c19Body(rng, maxBody, true)}
			if bigLeft%2 == 0 {
				m.Body.Data = make([]byte, maxBody)
				rng.Read(m.Body.Data)
			}
			bigLeft--
		}
		c19CountEnv(r, "codec", m)
		text := c19Text(m)
		enc, err := c19Marshal.Marshal(m)
		if err != nil {
			r.Violate("codec.marshal", "ops", "Marshal failed on a valid envelope: "+err.Error(), clip(text, 400), nil, nil)
			continue
		}
		r.Case("pbenc", text, hx(enc))
		back, dm := c19DecText(enc)
		r.Case("pbdec", hx(enc), back)
		if dm == nil || !proto.Equal(dm, m) || back != text {
			r.Violate("codec.roundtrip", "ops", "Unmarshal(Marshal(m)) differs from m", clip(text, 400), clip(back, 400), clip(text, 400))
		}
	}
	// strings that are not UTF-8: Marshal must refuse them, and so does the model (pbenc = ERR)
	k := r.Scale(100, 3000)
	for i := 0; i < k; i++ {
		m := c19Env(rng, 1|2|8|16|rng.Intn(32), 64, false)
		bad := c19BadUTF8(rng)
		switch rng.Intn(8) {
		case 0:
			m.Header.Method = bad
		case 1:
			m.Header.Source = bad
		case 2:
			m.Header.Headers = append(m.Header.Headers, &goatorepo.KeyValue{Key: "k", Value: bad})
		case 3:
			m.Header.ProxyNext = append(m.Header.ProxyNext, bad)
		case 4:
			m.Status.Message = bad
		case 5:
			m.Status.Details = append(m.Status.Details, &anypb.Any{TypeUrl: bad})
		case 6:
			m.Trailer.Metadata = append(m.Trailer.Metadata, &goatorepo.KeyValue{Key: bad})
		case 7:
			m.Reset_.Type = bad
		}
		out := "ERR"
		if enc, err := c19Marshal.Marshal(m); err == nil {
			out = hx(enc)
		}
		r.Count("codec.badutf8." + map[bool]string{true: "refused", false: "accepted"}[out == "ERR"])
		r.Case("pbenc", c19Text(m), out)
	}
}

var c19BadSeqs = []string{
	"\x80", "\xbf", "\xc0\x80", "\xc1\xbf", "\xc2", "\xc2\x41", "\xe0\x80\x80", "\xe0\x9f\xbf", "\xe0\xa0", "\xed\xa0\x80", "\xed\xbf\xbf",
	"\xef\xbf", "\xf0\x80\x80\x80", "\xf0\x8f\xbf\xbf", "\xf0\x90\x80", "\xf4\x90\x80\x80", "\xf5\x80\x80\x80", "\xf8\x88\x80\x80\x80", "\xff", "\xfe",
	"\xe2\x28\xa1", "\xf0\x28\x8c\xbc", "\xf0\x90\x28\xbc",
}

func c19BadUTF8(rng *rand.Rand) string {
	s := c19Str(rng, 4) + c19BadSeqs[rng.Intn(len(c19BadSeqs))]
	if rng.Intn(2) == 0 {
		s += c19Str(rng, 4)
	}
	if utf8.ValidString(s) {
		return "\xff"
	}
	return s
}

// ---------------------------------------------------------------------------
// scenario raw: byte strings that are not (necessarily) encodings

// c19RandField appends one well-formed field with a random number and wire type.
func c19RandField(rng *rand.Rand, b []byte, depth int) []byte {
	nums := []protowire.Number{1, 2, 3, 4, 5, 6, 7, 8, 15, 16, 2047, 1<<29 - 1}
	num := nums[rng.Intn(len(nums))]
	switch rng.Intn(6) {
	case 0:
		b = protowire.AppendTag(b, num, protowire.VarintType)
		b = protowire.AppendVarint(b, c19Id(rng))
	case 1:
		b = protowire.AppendTag(b, num, protowire.Fixed64Type)
		b = protowire.AppendFixed64(b, rng.Uint64())
	case 2:
		b = protowire.AppendTag(b, num, protowire.Fixed32Type)
		b = protowire.AppendFixed32(b, rng.Uint32())
	case 3:
		b = protowire.AppendTag(b, num, protowire.BytesType)
		var inner []byte
		if depth > 0 && rng.Intn(2) == 0 {
			k := rng.Intn(4)
			for i := 0; i < k; i++ {
				inner = c19RandField(rng, inner, depth-1)
			}
		} else {
			inner = []byte(c19Str(rng, 6))
		}
		b = protowire.AppendBytes(b, inner)
	case 4:
		if depth > 0 {
			b = protowire.AppendTag(b, num, protowire.StartGroupType)
			k := rng.Intn(3)
			for i := 0; i < k; i++ {
				b = c19RandField(rng, b, depth-1)
			}
			end := num
			if rng.Intn(6) == 0 {
				end = nums[rng.Intn(len(nums))]
			}
			b = protowire.AppendTag(b, end, protowire.EndGroupType)
		} else {
			b = protowire.AppendTag(b, num, protowire.VarintType)
			b = protowire.AppendVarint(b, uint64(rng.Intn(300)))
		}
	case 5:
		// a varint written with superfluous continuation bytes
		b = protowire.AppendTag(b, num, protowire.VarintType)
		v := uint64(rng.Intn(200))
		pad := rng.Intn(10)
		for i := 0; i < pad; i++ {
			b = append(b, byte(v&0x7f)|0x80)
			v >>= 7
		}
		b = append(b, byte(v&0x7f))
	}
	return b
}

func c19Special() [][]byte {
	var out [][]byte
	rep := func(b byte, n int) []byte { return bytes.Repeat([]byte{b}, n) }
	// nested groups: field 1 start = 0x0b, end = 0x0c
	for _, d := range []int{1, 2, 100, 10000, 10001, 10002} {
		out = append(out, append(rep(0x0b, d), rep(0x0c, d)...))
	}
	out = append(out, rep(0x0b, 50)) // never closed
	tag := func(num uint64, typ uint64) []byte { return protowire.AppendVarint(nil, num<<3|typ) }
	// field number limits at message level and inside a group
	for _, num := range []uint64{0, 1, 1<<29 - 1, 1 << 29, 1<<31 - 1, 1 << 31, 1<<61 - 1} {
		out = append(out, append(tag(num, 0), 1))
		g := append([]byte{0x3b}, tag(num, 0)...) // group 7 { num: varint 1 }
		g = append(g, 1, 0x3c)
		out = append(out, g)
	}
	// ten-byte varints
	out = append(out, append([]byte{0x08}, append(rep(0xff, 9), 0x01)...))
	out = append(out, append([]byte{0x08}, append(rep(0xff, 9), 0x02)...))
	out = append(out, append([]byte{0x08}, append(rep(0xff, 9), 0x81, 0x00)...))
	out = append(out, append([]byte{0x08}, rep(0x80, 9)...))
	out = append(out, append(append([]byte{0x08}, rep(0x80, 9)...), 0x00))
	// tag written as a long varint: field 1 varint, value 5
	out = append(out, []byte{0x88, 0x80, 0x80, 0x00, 0x05})
	// status code truncation to int32
	for _, v := range []uint64{1 << 31, 1<<32 - 1, 1 << 32, 1<<32 + 7, 1<<63 + 5, math.MaxUint64} {
		st := protowire.AppendVarint([]byte{0x08}, v)
		out = append(out, protowire.AppendBytes([]byte{0x1a}, st))
	}
	// a sub-message seen twice merges; a scalar seen twice keeps the last; explicit defaults overwrite
	h1, _ := proto.Marshal(&goatorepo.RequestHeader{Method: "a", Headers: []*goatorepo.KeyValue{{Key: "k", Value: "1"}}, ProxyNext: []string{"x"}})
	h2, _ := proto.Marshal(&goatorepo.RequestHeader{Source: "b", Headers: []*goatorepo.KeyValue{{Key: "k", Value: "2"}}, ProxyNext: []string{"y"}})
	two := protowire.AppendBytes([]byte{0x12}, h1)
	two = append(two, 0x08, 0x01)
	two = protowire.AppendBytes(append(two, 0x12), h2)
	two = append(two, 0x08, 0x02)
	out = append(out, two)
	out = append(out, append(append([]byte{}, two...), 0x12, 0x02, 0x0a, 0x00)) // header{method: ""} explicitly encoded
	out = append(out, []byte{0x08, 0x07, 0x08, 0x00})                           // id 7 then id 0
	out = append(out, []byte{0x22, 0x02, 0x0a, 0x00, 0x22, 0x00})               // body twice
	out = append(out, []byte{0x22, 0x03, 0x0a, 0x01, 0x41, 0x22, 0x00})         // body{data:"A"} then empty body: data stays
	out = append(out, []byte{0x32, 0x03, 0x0a, 0x01, 0x41, 0x32, 0x02, 0x0a, 0x00})
	// known numbers under the wrong wire type are skipped as unknown fields
	out = append(out, []byte{0x0a, 0x01, 0x41})             // id as bytes
	out = append(out, []byte{0x10, 0x05})                   // header as varint
	out = append(out, []byte{0x15, 1, 2, 3, 4})             // header as fixed32
	out = append(out, []byte{0x11, 1, 2, 3, 4, 5, 6, 7})    // header as fixed64, truncated
	out = append(out, []byte{0x12, 0x02, 0x08, 0x01})       // header{method as varint}
	out = append(out, []byte{0x1a, 0x03, 0x0a, 0x01, 0x41}) // status{code as bytes}
	out = append(out, []byte{0x0c}, []byte{0x0e, 0x00}, []byte{0x0f, 0x00})
	// invalid UTF-8 in each string field, valid bytes in each bytes field
	out = append(out, []byte{0x12, 0x03, 0x0a, 0x01, 0xff}, []byte{0x12, 0x03, 0x1a, 0x01, 0xff}, []byte{0x12, 0x03, 0x22, 0x01, 0xff})
	out = append(out, []byte{0x12, 0x03, 0x2a, 0x01, 0xff}, []byte{0x12, 0x03, 0x32, 0x01, 0xff}, []byte{0x12, 0x05, 0x12, 0x03, 0x0a, 0x01, 0xff})
	out = append(out, []byte{0x12, 0x05, 0x12, 0x03, 0x12, 0x01, 0xff}, []byte{0x1a, 0x03, 0x12, 0x01, 0xff}, []byte{0x1a, 0x05, 0x1a, 0x03, 0x0a, 0x01, 0xff})
	out = append(out, []byte{0x1a, 0x05, 0x1a, 0x03, 0x12, 0x01, 0xff}, []byte{0x22, 0x03, 0x0a, 0x01, 0xff}, []byte{0x2a, 0x05, 0x0a, 0x03, 0x0a, 0x01, 0xff})
	out = append(out, []byte{0x32, 0x03, 0x0a, 0x01, 0xff}, []byte{0x3a, 0x01, 0xff}, []byte{0x12, 0x03, 0x3a, 0x01, 0xff})
	for _, s := range c19BadSeqs {
		out = append(out, protowire.AppendBytes([]byte{0x32}, protowire.AppendString([]byte{0x0a}, s)))
	}
	for _, c := range []rune{0x7f, 0x80, 0x7ff, 0x800, 0xd7ff, 0xe000, 0xffff, 0x10000, 0x10ffff} {
		out = append(out, protowire.AppendBytes([]byte{0x32}, protowire.AppendString([]byte{0x0a}, string(c))))
	}
	// lengths
	out = append(out, []byte{0x22, 0x05, 0x0a, 0x01}, []byte{0x22, 0x02, 0x0a, 0x05}, []byte{0x22, 0xff, 0xff, 0xff, 0xff, 0xff, 0xff, 0xff, 0xff, 0xff, 0x01})
	out = append(out, []byte{}, []byte{0x00}, []byte{0x80})
	return out
}

// c19RawInput draws one raw transport input and names its kind.
func c19RawInput(rng *rand.Rand) ([]byte, string) {
	valid := func() []byte {
		b, _ := c19Marshal.Marshal(c19Env(rng, rng.Intn(32), 48, false))
		return b
	}
	switch rng.Intn(10) {
	case 0:
		b := make([]byte, rng.Intn(25))
		rng.Read(b)
		return b, "random"
	case 1:
		b := valid()
		if len(b) > 0 {
			k := 1 + rng.Intn(3)
			for i := 0; i < k; i++ {
				b[rng.Intn(len(b))] = byte(rng.Intn(256))
			}
		}
		return b, "mutated.byte"
	case 2:
		b := valid()
		if len(b) > 0 {
			b[rng.Intn(len(b))] ^= 1 << uint(rng.Intn(8))
		}
		return b, "mutated.bit"
	case 3:
		b := valid()
		if len(b) > 0 {
			b = b[:rng.Intn(len(b))]
		}
		return b, "truncated"
	case 4:
		b := valid()
		p := rng.Intn(len(b) + 1)
		if rng.Intn(2) == 0 || len(b) == 0 {
			b = append(b[:p:p], append([]byte{byte(rng.Intn(256))}, b[p:]...)...)
		} else {
			if p == len(b) {
				p--
			}
			b = append(b[:p:p], b[p+1:]...)
		}
		return b, "indel"
	case 5:
		return append(valid(), valid()...), "concatenated"
	case 6:
		b := valid()
		k := 1 + rng.Intn(3)
		for i := 0; i < k; i++ {
			b = c19RandField(rng, b, 3)
		}
		if rng.Intn(2) == 0 {
			b = append(b, valid()...)
		}
		return b, "valid+fields"
	case 7:
		var b []byte
		k := rng.Intn(6)
		for i := 0; i < k; i++ {
			b = c19RandField(rng, b, 3)
		}
		return b, "fields"
	case 8:
		// a valid envelope with one string made invalid after encoding is hard to place; build it from parts
		m := c19Env(rng, 1|rng.Intn(32), 16, false)
		m.Header.Destination = "\x00PLACEHOLDER"
		b, _ := c19Marshal.Marshal(m)
		return bytes.Replace(b, []byte("PLACEHOLDER"), []byte("PLACE" + c19BadSeqs[rng.Intn(len(c19BadSeqs))] + "HOLDER")[:11], 1), "badutf8"
	default:
		return valid(), "valid"
	}
}

func c19Raw(r *Run) {
	rng := r.Rand("c19.raw")
	n := r.Scale(1500, 100000)
	one := func(raw []byte, kind string) {
		out, _ := c19DecText(raw)
		r.Case("pbdec", hx(raw), out)
		if out == "ERR" {
			r.Count("raw." + kind + ".rejected")
		} else {
			r.Count("raw." + kind + ".accepted")
		}
	}
	for _, raw := range c19Special() {
		one(raw, "special")
	}
	for i := 0; i < n; i++ {
		raw, kind := c19RawInput(rng)
		one(raw, kind)
	}
}

// ---------------------------------------------------------------------------
// helpers shared by the transport scenarios

// c19Blocked runs f under a recognisable frame, so that c19SeenBlocked can find the goroutine.
//
//go:noinline
func c19Blocked(f func()) { f() }

// c19SeenBlocked polls (bounded) until a goroutine running under c19Blocked is parked. It only
// feeds a coverage bucket: no assertion depends on it.
func c19SeenBlocked() bool {
	deadline := time.Now().Add(2 * time.Second)
	for {
		for _, g := range strings.Split(goroutineDump(), "\n\n") {
			if !strings.Contains(g, "main.c19Blocked") {
				continue
			}
			hdr := g
			if i := strings.Index(g, "\n"); i >= 0 {
				hdr = g[:i]
			}
			if strings.Contains(hdr, "[IO wait") || strings.Contains(hdr, "[select") || strings.Contains(hdr, "[chan ") || strings.Contains(hdr, "[sync.") {
				return true
			}
		}
		if time.Now().After(deadline) {
			return false
		}
		time.Sleep(time.Millisecond)
	}
}

// c19Envs draws n envelopes for a transport run; forHTTP forces a header with a mappable source.
func c19Envs(r *Run, rng *rand.Rand, where string, n, maxBody int, forHTTP bool) []*Rpc {
	out := make([]*Rpc, n)
	for i := range out {
		mask := i % 32
		if forHTTP {
			mask |= 1
		}
		big := i%50 == 7
		m := c19Env(rng, mask, maxBody, big)
		if big && m.Body != nil && i%100 == 7 {
			m.Body.Data = make([]byte, maxBody)
			rng.Read(m.Body.Data)
		}
		if forHTTP {
			if m.Header.Source == "" || strings.HasPrefix(m.Header.Source, "!") {
				m.Header.Source = "src" + m.Header.Source
			}
		}
		c19CountEnv(r, where, m)
		out[i] = m
	}
	return out
}

// c19Pump writes envs in order on w while reading len(envs) envelopes from rd, and checks that what is read
// equals what was written, in write order. It returns false when it gave up. No single Read of a correct tree
// takes hangTimeout.
func c19Pump(r *Run, scenario string, w, rd goat.RpcReadWriter, envs []*Rpc) bool {
	ctx, cancel := context.WithCancel(context.Background())
	defer cancel()
	werr := make(chan error, 1)
	go func() {
		for i, m := range envs {
			if err := w.Write(ctx, proto.Clone(m).(*Rpc)); err != nil {
				werr <- fmt.Errorf("write %d: %w", i, err)
				return
			}
		}
		werr <- nil
	}()
	type rres struct {
		m   *Rpc
		err error
	}
	reads := make(chan rres, 64)
	go func() {
		for range envs {
			m, err := rd.Read(ctx)
			reads <- rres{m, err}
			if err != nil {
				return
			}
		}
	}()
	ok := true
	timer := time.NewTimer(hangTimeout)
	defer timer.Stop()
	for i, m := range envs {
		if !timer.Stop() {
			select {
			case <-timer.C:
			default:
			}
		}
		timer.Reset(hangTimeout)
		var got rres
		select {
		case got = <-reads:
		case <-timer.C:
			r.Violate(scenario, "ops", fmt.Sprintf("read %d of %d did not return", i, len(envs)), c19Brief(m), "hang", "the envelope written")
			return false
		}
		if got.err != nil || got.m == nil {
			r.Violate(scenario, "ops", fmt.Sprintf("read %d of %d failed: %v", i, len(envs), got.err), c19Brief(m), fmt.Sprint(got.err), "the envelope written")
			ok = false
			break
		}
		r.Eval(fmt.Sprintf("%s|%d|%s|%d", scenario, m.Id, c19MaskName(c19MaskOf(m)), proto.Size(m)), true)
		if !proto.Equal(got.m, m) {
			r.Violate(scenario, "ops", fmt.Sprintf("envelope %d read differs from the one written", i), c19Brief(m), c19Brief(got.m), c19Brief(m))
			ok = false
			break
		}
	}
	if !ok {
		cancel()
	}
	select {
	case err := <-werr:
		if err != nil && ok {
			r.Violate(scenario, "ops", "write failed: "+err.Error(), nil, err.Error(), "nil")
			ok = false
		}
	case <-time.After(hangTimeout):
		r.Violate(scenario, "ops", "writer did not finish", nil, "hang", "return")
		ok = false
	}
	return ok
}

// c19CtxCheck starts op (a Read or Write that should block) with a context, cancels the context and demands
// that op returns within hangTimeout with an error. It reports whether the op returned.
func c19CtxCheck(r *Run, scenario string, op func(ctx context.Context) error) bool {
	r.Progress(scenario, nil)
	ctx, cancel := context.WithCancel(context.Background())
	defer cancel()
	res := make(chan error, 1)
	go c19Blocked(func() { res <- op(ctx) })
	if c19SeenBlocked() {
		r.Count(scenario + ".seen-blocked")
	} else {
		r.Count(scenario + ".not-seen-blocked")
	}
	cancel()
	r.Eval(scenario, true)
	select {
	case err := <-res:
		if err == nil {
			r.Violate(scenario, "ops", "the operation reported success although nothing could complete it and its context was cancelled", nil, "nil", "an error")
		}
		return true
	case <-time.After(hangTimeout):
		r.Violate(scenario, "ops", "blocked operation did not return once its context was done", nil, "still blocked after "+hangTimeout.String(), "returns with an error")
		return false
	}
}

// ---------------------------------------------------------------------------
// scenario chan

func c19ChanPair() (a, b goat.RpcReadWriter) {
	ab := make(chan *Rpc)
	ba := make(chan *Rpc)
	return goat.NewGoatOverChannel(ba, ab), goat.NewGoatOverChannel(ab, ba)
}

func c19Chan(r *Run) {
	rng := r.Rand("c19.chan")
	n := r.Scale(2000, 100000)
	maxBody := r.Scale(64<<10, 1<<20)
	r.Progress("chan.roundtrip", n)
	a, b := c19ChanPair()
	envs := c19Envs(r, rng, "chan", n, maxBody, false)
	done := make(chan bool, 2)
	go func() { done <- c19Pump(r, "chan.roundtrip.ab", a, b, envs[:n/2]) }()
	go func() { done <- c19Pump(r, "chan.roundtrip.ba", b, a, envs[n/2:]) }()
	<-done
	<-done

	a, b = c19ChanPair()
	c19CtxCheck(r, "chan.ctx.read", func(ctx context.Context) error { _, err := a.Read(ctx); return err })
	c19CtxCheck(r, "chan.ctx.write", func(ctx context.Context) error { return b.Write(ctx, &Rpc{Id: 1}) })
	c19ChanCancelledRead(r)
	c19ChanObs(r)
	c19ChanSecondWriter(r)
	c19ChanClosed(r)
}

// ---------------------------------------------------------------------------
// scenario ws

type c19WsPair struct {
	cli, srv *websocket.Conn
	ts       *httptest.Server
}

func c19NewWsPair() (*c19WsPair, error) {
	ch := make(chan *websocket.Conn, 1)
	ts := httptest.NewServer(http.HandlerFunc(func(w http.ResponseWriter, req *http.Request) {
		c, err := websocket.Accept(w, req, nil)
		if err != nil {
			ch <- nil
			return
		}
		ch <- c
	}))
	ctx, cancel := context.WithTimeout(context.Background(), hangTimeout)
	defer cancel()
	cli, _, err := websocket.Dial(ctx, "ws"+strings.TrimPrefix(ts.URL, "http"), nil)
	if err != nil {
		ts.Close()
		return nil, err
	}
	var srv *websocket.Conn
	select {
	case srv = <-ch:
	case <-ctx.Done():
	}
	if srv == nil {
		cli.CloseNow()
		ts.Close()
		return nil, errors.New("websocket accept failed")
	}
	// the library's default refuses messages above 32 KiB; the application chooses the limit
	cli.SetReadLimit(-1)
	srv.SetReadLimit(-1)
	return &c19WsPair{cli: cli, srv: srv, ts: ts}, nil
}

func (p *c19WsPair) Close() {
	p.cli.CloseNow()
	p.srv.CloseNow()
	p.ts.Close()
}

func c19Ws(r *Run) {
	rng := r.Rand("c19.ws")
	n := r.Scale(2000, 100000)
	maxBody := r.Scale(64<<10, 1<<20)
	r.Progress("ws.roundtrip", n)
	p, err := c19NewWsPair()
	if err != nil {
		r.Violate("ws.setup", "ops", "cannot set up a websocket pair: "+err.Error(), nil, nil, nil)
		return
	}
	envs := c19Envs(r, rng, "ws", n, maxBody, false)
	cw, sw := goat.NewGoatOverWebsocket(p.cli), goat.NewGoatOverWebsocket(p.srv)
	done := make(chan bool, 2)
	go func() { done <- c19Pump(r, "ws.roundtrip.cs", cw, sw, envs[:n/2]) }()
	go func() { done <- c19Pump(r, "ws.roundtrip.sc", sw, cw, envs[n/2:]) }()
	<-done
	<-done
	p.Close()

	c19WsRejects(r, rng)
	c19WsConcurrentWriters(r)
	c19WsLarge(r)
	c19ReusedEnvelope(r, "ws")

	// blocked Read
	if p, err = c19NewWsPair(); err == nil {
		rw := goat.NewGoatOverWebsocket(p.srv)
		c19CtxCheck(r, "ws.ctx.read", func(ctx context.Context) error { _, err := rw.Read(ctx); return err })
		p.Close()
	}
	// blocked Write: the peer never reads, so the loop must block long before it ends
	if p, err = c19NewWsPair(); err == nil {
		rw := goat.NewGoatOverWebsocket(p.cli)
		big := &Rpc{Id: 9, Body: &goatorepo.Body{Data: make([]byte, 1<<20)}}
		c19CtxCheck(r, "ws.ctx.write", func(ctx context.Context) error {
			for i := 0; i < 512; i++ {
				if err := rw.Write(ctx, big); err != nil {
					return err
				}
			}
			return nil
		})
		p.Close()
	}
}

// c19WsRejects feeds one websocket connection a mix of messages written with the raw library (text
// messages, binary garbage, valid encodings) and checks each Read of the goat end.
func c19WsRejects(r *Run, rng *rand.Rand) {
	n := r.Scale(600, 20000)
	type msg struct {
		typ  websocket.MessageType
		data []byte
		kind string
	}
	var p *c19WsPair
	defer func() {
		if p != nil {
			p.Close()
		}
	}()
	for i := 0; i < n && r.NumViolations() <= 4; i++ {
		if p == nil {
			var err error
			if p, err = c19NewWsPair(); err != nil {
				r.Violate("ws.setup", "ops", "cannot set up a websocket pair: "+err.Error(), nil, nil, nil)
				return
			}
		}
		var m msg
		switch i % 3 {
		case 0:
			// a text message; its payload may even be a valid encoding
			switch rng.Intn(4) {
			case 0:
				m = msg{websocket.MessageText, []byte{}, "text.empty"}
			case 1:
				m = msg{websocket.MessageText, []byte(genTextValue(rng)), "text.ascii"}
			case 2:
				m = msg{websocket.MessageText, []byte{0x08, byte(1 + rng.Intn(100))}, "text.valid-encoding"}
			default:
				b, _ := c19Marshal.Marshal(&Rpc{Id: uint64(rng.Intn(100)), Header: &goatorepo.RequestHeader{Method: "/s/m", Source: c19Str(rng, 6)}})
				m = msg{websocket.MessageText, b, "text.valid-encoding"}
			}
		case 1:
			raw, kind := c19RawInput(rng)
			m = msg{websocket.MessageBinary, raw, "binary." + kind}
		default:
			b, _ := c19Marshal.Marshal(c19Env(rng, rng.Intn(32), 256, false))
			m = msg{websocket.MessageBinary, b, "binary.valid"}
		}
		input := map[string]any{"type": m.typ.String(), "data": hx(m.data), "kind": m.kind}
		r.Progress("ws.reject", input)
		ctx, cancel := context.WithTimeout(context.Background(), hangTimeout)
		if err := p.cli.Write(ctx, m.typ, m.data); err != nil {
			cancel()
			r.Count("ws.reject.raw-write-failed")
			p.Close()
			p = nil
			continue
		}
		got, err := goat.NewGoatOverWebsocket(p.srv).Read(ctx)
		cancel()
		r.Eval("ws.reject|"+m.kind+"|"+clip(hx(m.data), 80), true)
		wantText, want := c19DecText(m.data)
		switch {
		case m.typ == websocket.MessageText:
			r.Count("ws.reject.text")
			if err == nil || got != nil {
				r.Violate("ws.reject.nonbinary", "ops", "a non-binary websocket message was not reported as an error", input, c19Brief(got), "error, nothing delivered")
			}
		case want == nil:
			r.Count("ws.reject.undecodable")
			if err == nil || got != nil {
				r.Violate("ws.reject.undecodable", "ops", "undecodable bytes were not reported as an error", input, c19Brief(got), "error, nothing delivered")
			}
		default:
			r.Count("ws.reject.decodable")
			if err != nil || got == nil || !proto.Equal(got, want) {
				r.Violate("ws.reject.decodable", "ops", "a decodable binary message was not delivered as decoded", input, fmt.Sprint(c19Brief(got), " ", err), wantText)
			}
		}
		if err != nil && (m.typ == websocket.MessageText || want == nil) {
			// the connection stays usable after a rejected message (the next iteration shows it); a
			// transport error instead would end it, which the property does not forbid
			if errors.Is(err, context.DeadlineExceeded) {
				r.Violate("ws.reject", "ops", "Read did not return for a rejected message", input, "hang", "error")
				p.Close()
				p = nil
			}
		} else if err != nil {
			p.Close()
			p = nil
		}
	}
}

// ---------------------------------------------------------------------------
// HTTP nodes

type c19Conn struct {
	id string
	rw goat.RpcReadWriter
}

type c19Delivery struct {
	id  string
	rpc *Rpc
	err error
}

// c19Node is one GoatOverHttp behind an httptest server. ServeHTTP is wrapped so that a panic of the
// handler goroutine is recorded (net/http would swallow it).
type c19Node struct {
	goh    *goat.GoatOverHttp
	ts     *httptest.Server
	addr   string
	conns  chan c19Conn
	panics atomic.Int32
	panic1 atomic.Value
	mapper func(string) (string, error)
}

func c19NewNode(mapper func(n *c19Node, src string) (string, error), opts ...goat.GoatOverHttpOption) *c19Node {
	n := &c19Node{conns: make(chan c19Conn, 4096)}
	n.mapper = func(src string) (string, error) { return mapper(n, src) }
	n.goh = goat.NewGoatOverHttp(
		func(id string, rw goat.RpcReadWriter) { n.conns <- c19Conn{id, rw} },
		func(src string) (string, error) { return n.mapper(src) },
		opts...,
	)
	n.ts = httptest.NewServer(http.HandlerFunc(n.serve))
	n.addr = strings.TrimPrefix(n.ts.URL, "http://")
	return n
}

func (n *c19Node) serve(w http.ResponseWriter, req *http.Request) {
	defer func() {
		if p := recover(); p != nil {
			n.panics.Add(1)
			n.panic1.CompareAndSwap(nil, fmt.Sprint(p))
			w.WriteHeader(http.StatusInternalServerError)
		}
	}()
	n.goh.ServeHTTP(w, req)
}

func (n *c19Node) Close() {
	n.goh.Cancel()
	n.ts.CloseClientConnections()
	n.ts.Close()
}

func (n *c19Node) post(ctx context.Context, body []byte) (int, error) {
	req, err := http.NewRequestWithContext(ctx, "POST", n.ts.URL, bytes.NewReader(body))
	if err != nil {
		return 0, err
	}
	resp, err := n.ts.Client().Do(req)
	if err != nil {
		return 0, err
	}
	io.Copy(io.Discard, resp.Body)
	resp.Body.Close()
	return resp.StatusCode, nil
}

// the mapper the Lean driver knows (Goat/Drv/PbOps.lean drvMapper): "!…" is rejected, anything else is its own key
func c19IdentityMapper(_ *c19Node, src string) (string, error) {
	if strings.HasPrefix(src, "!") {
		return "", errors.New("unknown source")
	}
	return src, nil
}

// c19HttpExpect is the answer the property demands for a request body: 400, or delivery under a key.
func c19HttpExpect(raw []byte) (code int, key string, m *Rpc) {
	_, m = c19DecText(raw)
	if m == nil || m.Header == nil || m.Header.Source == "" || strings.HasPrefix(m.Header.Source, "!") {
		return 400, "", nil
	}
	return 200, m.Header.Source, m
}

func c19CountDelivers() int {
	n := 0
	for _, e := range hooks.Events() {
		if e.Site == "http.deliver" {
			n++
		}
	}
	return n
}

type c19ErrReader struct{}

func (c19ErrReader) Read([]byte) (int, error) { return 0, errors.New("body read fails") }
func (c19ErrReader) Close() error             { return nil }

// ---------------------------------------------------------------------------
// scenario http

func c19Http(r *Run) {
	hooks.Reset(true)
	defer hooks.Reset(false)
	c19HttpRoundtrip(r)
	c19HttpShapes(r)
	c19HttpCtx(r)
}

func c19HttpRoundtrip(r *Run) {
	rng := r.Rand("c19.http.rt")
	n := r.Scale(2000, 100000)
	maxBody := r.Scale(64<<10, 1<<20)
	r.Progress("http.roundtrip", n)
	var a, b *c19Node
	toPeer := func(n *c19Node, src string) (string, error) {
		if strings.HasPrefix(src, "!") {
			return "", errors.New("unknown source")
		}
		if n == a {
			return b.addr, nil
		}
		return a.addr, nil
	}
	a = c19NewNode(toPeer)
	b = c19NewNode(toPeer)
	defer a.Close()
	defer b.Close()
	envs := c19Envs(r, rng, "http", n, maxBody, true)
	ab := a.goh.NewConnection(b.addr) // writes POST to b; reads what b's peer connection writes back
	// the first envelope makes b announce its connection to a
	first := &Rpc{Id: 1, Header: &goatorepo.RequestHeader{Source: "opening"}}
	ctx, cancel := context.WithTimeout(context.Background(), hangTimeout)
	defer cancel()
	werr := make(chan error, 1)
	go func() { werr <- ab.Write(ctx, first) }()
	var ba goat.RpcReadWriter
	select {
	case c := <-b.conns:
		ba = c.rw
		if c.id != a.addr {
			r.Violate("http.roundtrip", "ops", "connection announced under a key other than the mapped source", a.addr, c.id, a.addr)
		}
	case <-ctx.Done():
		r.Violate("http.roundtrip", "ops", "no connection announced for the first envelope of a new source", nil, "none within "+hangTimeout.String(), "onConnect")
		return
	}
	got, err := ba.Read(ctx)
	if err != nil || !proto.Equal(got, first) {
		r.Violate("http.roundtrip", "ops", "first envelope not delivered as written", c19Brief(first), fmt.Sprint(c19Brief(got), " ", err), c19Brief(first))
		return
	}
	if err := <-werr; err != nil {
		r.Violate("http.roundtrip", "ops", "first write failed: "+err.Error(), nil, nil, nil)
		return
	}
	done := make(chan bool, 2)
	go func() { done <- c19Pump(r, "http.roundtrip.ab", ab, ba, envs[:n/2]) }()
	go func() { done <- c19Pump(r, "http.roundtrip.ba", ba, ab, envs[n/2:]) }()
	<-done
	<-done
	if k := a.panics.Load() + b.panics.Load(); k > 0 {
		r.Violate("http.roundtrip", "ops", "ServeHTTP panicked", nil, fmt.Sprint(a.panic1.Load(), b.panic1.Load()), "no panic")
	}
	select {
	case c := <-a.conns:
		r.Violate("http.roundtrip", "ops", "a second connection was announced for a source that maps to an existing one", nil, c.id, "none")
	default:
	}
}

// c19HttpShapes posts every request shape to one node and compares the status with the model.
func c19HttpShapes(r *Run) {
	rng := r.Rand("c19.http.shapes")
	n := r.Scale(1500, 60000)
	node := c19NewNode(c19IdentityMapper)
	defer node.Close()
	ctx, cancel := context.WithCancel(context.Background())
	defer cancel()

	// every announced connection gets a reader; what the readers receive is collected here
	deliveries := make(chan c19Delivery, 1<<16)
	var announced atomic.Int32
	go func() {
		for {
			select {
			case c := <-node.conns:
				announced.Add(1)
				go func(c c19Conn) {
					for {
						m, err := c.rw.Read(ctx)
						if err != nil {
							return
						}
						deliveries <- c19Delivery{id: c.id, rpc: m}
					}
				}(c)
			case <-ctx.Done():
				return
			}
		}
	}()

	total200 := 0
	check := func(scenario string, raw []byte, shape string, viaServer bool, code int) {
		exp, key, em := c19HttpExpect(raw)
		input := map[string]any{"shape": shape, "body": clip(hx(raw), 400)}
		obs := strconv.Itoa(code)
		if code == 200 {
			obs += ":" + hxs(key)
		}
		r.Case("httpcode", hx(raw)+"|d", obs)
		r.Count("http.shape." + shape + "." + strconv.Itoa(code))
		if code != exp {
			r.Violate(scenario, "ops", "status differs from what the request shape demands", input, code, exp)
			return
		}
		if code == 200 {
			total200++
			select {
			case d := <-deliveries:
				if d.id != key || !proto.Equal(d.rpc, em) {
					r.Violate(scenario, "ops", "delivered envelope or connection key differs from the request", input, d.id+" "+c19Brief(d.rpc), key+" "+c19Brief(em))
				}
			case <-time.After(hangTimeout):
				r.Violate(scenario, "ops", "status 200 but no reader received the envelope", input, "nothing", c19Brief(em))
			}
		}
	}

	for i := 0; i < n && r.NumViolations() <= 4; i++ {
		var raw []byte
		var shape string
		switch k := rng.Intn(12); {
		case k == 0:
			raw, shape = nil, "empty-body"
		case k <= 2:
			raw, shape = c19RawInput(rng)
			shape = "raw." + shape
		case k <= 4:
			m := c19Env(rng, rng.Intn(32)&^1, 256, false)
			raw, _ = c19Marshal.Marshal(m)
			shape = "no-header"
		case k == 5:
			m := c19Env(rng, rng.Intn(32)|1, 256, false)
			m.Header.Source = ""
			raw, _ = c19Marshal.Marshal(m)
			shape = "empty-source"
		case k == 6:
			m := c19Env(rng, rng.Intn(32)|1, 256, false)
			m.Header.Source = "!" + c19Str(rng, 5)
			raw, _ = c19Marshal.Marshal(m)
			shape = "unmappable-source"
		default:
			m := c19Env(rng, rng.Intn(32)|1, 2048, false)
			if m.Header.Source == "" || strings.HasPrefix(m.Header.Source, "!") {
				m.Header.Source = "peer-" + strconv.Itoa(rng.Intn(8))
			}
			raw, _ = c19Marshal.Marshal(m)
			shape = "valid"
			if k == 11 {
				raw = c19RandField(rng, raw, 2) // unknown fields do not matter
				shape = "valid+unknown"
			}
		}
		r.Progress("http.shapes", map[string]any{"shape": shape, "body": clip(hx(raw), 400)})
		hooks.Reset(true) // only the events of this request matter
		before := c19CountDelivers()
		pctx, pcancel := context.WithTimeout(ctx, hangTimeout)
		code, err := node.post(pctx, raw)
		pcancel()
		r.Eval("http.shapes|"+clip(hx(raw), 120), true)
		if err != nil {
			r.Violate("http.shapes", "ops", "request failed: "+err.Error(), map[string]any{"shape": shape, "body": clip(hx(raw), 400)}, err.Error(), "a response")
			continue
		}
		after := c19CountDelivers()
		if code == 400 && after != before {
			r.Violate("http.shapes", "ops", "answered 400 but handed the envelope to a reader", map[string]any{"shape": shape, "body": clip(hx(raw), 400)}, after-before, 0)
		}
		check("http.shapes", raw, shape, true, code)
	}

	// shapes that only a direct call can produce: no body at all, a body that cannot be read
	direct := func(body io.ReadCloser, label string) {
		r.Progress("http.shapes.direct", label)
		req := httptest.NewRequest("POST", "http://goat/", nil)
		req.Body = body
		rec := httptest.NewRecorder()
		before := c19CountDelivers()
		if !within(hangTimeout, func() { node.serve(rec, req) }) {
			r.Violate("http.shapes.direct", "ops", "ServeHTTP did not return", label, "hang", 400)
			return
		}
		r.Eval("http.shapes.direct|"+label, true)
		r.Case("httpcode", label+"|d", strconv.Itoa(rec.Code))
		r.Count("http.shape." + label + "." + strconv.Itoa(rec.Code))
		if rec.Code != 400 || c19CountDelivers() != before {
			r.Violate("http.shapes.direct", "ops", "a request without a readable body must be answered 400 and not delivered", label, rec.Code, 400)
		}
	}
	direct(nil, "nil")
	direct(c19ErrReader{}, "rderr")

	// the request is cancelled while ServeHTTP waits for a reader: 503, not delivered
	{
		r.Progress("http.shapes.cancelled", nil)
		node.goh.NewConnection("nobody-reads")
		raw, _ := c19Marshal.Marshal(&Rpc{Id: 77, Header: &goatorepo.RequestHeader{Source: "nobody-reads"}})
		rctx, rcancel := context.WithCancel(context.Background())
		req := httptest.NewRequest("POST", "http://goat/", bytes.NewReader(raw)).WithContext(rctx)
		rec := httptest.NewRecorder()
		before := c19CountDelivers()
		ret := make(chan struct{})
		go func() { node.serve(rec, req); close(ret) }()
		rcancel()
		select {
		case <-ret:
			r.Eval("http.shapes.cancelled", true)
			r.Case("httpcode", hx(raw)+"|x", strconv.Itoa(rec.Code))
			if rec.Code != 503 || c19CountDelivers() != before {
				r.Violate("http.shapes.cancelled", "ops", "a cancelled request waiting for a reader must be answered 503 and not delivered", hx(raw), rec.Code, 503)
			}
		case <-time.After(hangTimeout):
			r.Violate("http.shapes.cancelled", "ops", "ServeHTTP did not return after its request was cancelled", hx(raw), "hang", 503)
		}
	}

	if k := node.panics.Load(); k > 0 {
		r.Violate("http.shapes", "ops", "ServeHTTP panicked", nil, node.panic1.Load(), "no panic")
	}
	// nothing beyond the answered-200 requests ever reached a reader
	cancel()
	select {
	case d := <-deliveries:
		r.Violate("http.shapes", "ops", "a reader received an envelope no 200 answer accounts for", nil, d.id+" "+c19Brief(d.rpc), "nothing")
	default:
	}
	r.CountN("http.shape.connections", int(announced.Load()))
	_ = total200
}

func c19HttpCtx(r *Run) {
	c19HttpCtxRetry(r)
	c19HttpLostResponse(r)
	c19ReusedEnvelope(r, "http")
	node := c19NewNode(c19IdentityMapper)
	defer node.Close()
	rw := node.goh.NewConnection("idle-peer")
	c19CtxCheck(r, "http.ctx.read", func(ctx context.Context) error { _, err := rw.Read(ctx); return err })

	// blocked Write: the peer's ServeHTTP waits for a reader that never comes
	peer := c19NewNode(c19IdentityMapper)
	defer peer.Close()
	w := node.goh.NewConnection(peer.addr)
	env := &Rpc{Id: 5, Header: &goatorepo.RequestHeader{Source: "writer"}}
	// (before the repair "the HTTP transport's Write returns when its context is done" this stayed blocked)
	{
		r.Progress("http.ctx.write", nil)
		ctx, cancel := context.WithCancel(context.Background())
		defer cancel()
		res := make(chan error, 1)
		go c19Blocked(func() { res <- w.Write(ctx, env) })
		select {
		case <-peer.conns: // the request is inside the peer's ServeHTTP, past retrieve()
			r.Count("http.ctx.write.seen-blocked")
		case <-time.After(hangTimeout):
			r.Count("http.ctx.write.not-seen-blocked")
		}
		cancel()
		r.Eval("http.ctx.write", true)
		select {
		case err := <-res:
			if err == nil {
				r.Violate("http.ctx.write", "ops", "Write reported success although nobody read the envelope and its context was cancelled", nil, "nil", "an error")
			}
		case <-time.After(hangTimeout):
			r.Violate("http.ctx.write", "ops", "blocked operation did not return once its context was done", nil, "still blocked after "+hangTimeout.String(), "returns with an error")
		}
	}
}

// ---------------------------------------------------------------------------
// scenario clean

// c19Clean places the idle cleaner's tick before, during and after a delivery, under a fake clock.
func c19Clean(r *Run) {
	c19HttpStuckWriteTimesOut(r)
	c19HttpRefused(r)
	hooks.Reset(true)
	defer hooks.Reset(false)
	rng := r.Rand("c19.clean")
	n := r.Scale(16, 300)
	for i := 0; i < n && r.NumViolations() <= 4; i++ {
		for _, placement := range []string{"before", "during", "after"} {
			for _, reader := range []bool{true, false} {
				c19CleanOnce(r, rng, placement, reader)
			}
		}
	}
}

type c19Clock struct {
	clk      clockwork.FakeClock
	interval time.Duration
}

func c19CountSite(site string) int {
	n := 0
	for _, e := range hooks.Events() {
		if e.Site == site {
			n++
		}
	}
	return n
}

// tick advances the fake clock by one cleanup interval and waits until the cleaner has finished
// the pass that the tick starts. It reports false when the cleaner did not run.
func (c *c19Clock) tick() bool {
	want := c19CountSite("http.clean.done") + 1
	c.clk.Advance(c.interval)
	k := 0
	return hooks.WaitFor(func(e Event) bool {
		if e.Site == "http.clean.done" {
			k++
		}
		return k >= want
	}, hangTimeout)
}

// tickUntilUnregistered ticks until the cleaner has unregistered key (at most max ticks).
func (c *c19Clock) tickUntilUnregistered(key string, already int, max int) (ticks int, ok bool) {
	for ticks = 0; ticks < max; ticks++ {
		if !c.tick() {
			return ticks, false
		}
		k := 0
		for _, e := range hooks.Events() {
			if e.Site == "http.unregister" && e.Detail == key {
				k++
			}
		}
		if k > already {
			return ticks + 1, true
		}
	}
	return ticks, false
}

type c19ReadRes struct {
	m   *Rpc
	err error
}

func c19CleanOnce(r *Run, rng *rand.Rand, placement string, withReader bool) {
	scenario := "clean." + placement
	if withReader {
		scenario += ".reader"
	} else {
		scenario += ".noreader"
	}
	interval := time.Duration(1+rng.Intn(90)) * time.Second
	mult := 1 + rng.Intn(6)
	timeout := time.Duration(mult) * interval
	input := map[string]any{"placement": placement, "reader": withReader, "interval_s": interval.Seconds(), "timeout_s": timeout.Seconds()}
	r.Progress(scenario, input)
	hooks.Reset(true)
	clk := clockwork.NewFakeClock()
	node := c19NewNode(c19IdentityMapper, goat.WithClock(clk), goat.WithConnectionCleanupInterval(interval), goat.WithConnectionTimeout(timeout))
	defer node.Close()
	if !within(hangTimeout, func() { clk.BlockUntil(1) }) { // the cleaner's ticker exists
		r.Violate(scenario, "schedule", "the cleaner never created its ticker", input, nil, nil)
		return
	}
	fc := &c19Clock{clk: clk, interval: interval}
	maxTicks := mult + 3
	ctx, cancel := context.WithCancel(context.Background())
	defer cancel()
	key := "peer"
	bad := func(detail string, observed, expected any) {
		r.Violate(scenario, "schedule", detail, input, observed, expected)
	}

	type postRes struct {
		code int
		err  error
	}
	post := func(id uint64) chan postRes {
		raw, _ := c19Marshal.Marshal(&Rpc{Id: id, Header: &goatorepo.RequestHeader{Source: key, Method: "/s/m"}, Body: &goatorepo.Body{Data: []byte{byte(id)}}})
		ch := make(chan postRes, 1)
		go func() {
			pctx, pcancel := context.WithTimeout(ctx, 3*hangTimeout)
			defer pcancel()
			code, err := node.post(pctx, raw)
			ch <- postRes{code, err}
		}()
		return ch
	}
	waitPost := func(ch chan postRes, what string) (int, bool) {
		select {
		case p := <-ch:
			if p.err != nil {
				bad(what+": request failed: "+p.err.Error(), p.err.Error(), "200 or 503")
				return 0, false
			}
			return p.code, true
		case <-time.After(hangTimeout):
			bad(what+": no answer (the sender is stuck)", "hang", "200 or 503")
			return 0, false
		}
	}
	waitConn := func(what string) (goat.RpcReadWriter, bool) {
		select {
		case c := <-node.conns:
			return c.rw, true
		case <-time.After(hangTimeout):
			bad(what+": no connection announced", "none", "onConnect")
			return nil, false
		}
	}
	read := func(rw goat.RpcReadWriter) chan c19ReadRes {
		ch := make(chan c19ReadRes, 1)
		go func() {
			m, err := rw.Read(ctx)
			ch <- c19ReadRes{m, err}
		}()
		return ch
	}
	waitRead := func(ch chan c19ReadRes, what string) (c19ReadRes, bool) {
		select {
		case x := <-ch:
			if x.m == nil && x.err == nil {
				bad(what+": Read returned neither an envelope nor an error", "(nil, nil)", "an envelope or an error")
				return x, false
			}
			return x, true
		case <-time.After(hangTimeout):
			bad(what+": Read did not return", "hang", "an envelope or an error")
			return c19ReadRes{}, false
		}
	}
	unregistered := false
	var c1 goat.RpcReadWriter
	finish := func() {
		if unregistered && r.NumViolations() == 0 {
			// a Read that starts after the timeout fails as well
			if x, ok := waitRead(read(c1), "late reader of the timed-out connection"); ok && x.err == nil {
				bad("a Read on a timed-out connection received an envelope nobody sent", c19Brief(x.m), "an error")
			} else if ok {
				r.Count("clean.late-reader-failed")
			}
		}
		if k := node.panics.Load(); k > 0 {
			bad("ServeHTTP panicked: the idle cleaner crashed a concurrent sender", node.panic1.Load(), "no panic")
		}
		r.Eval(fmt.Sprintf("%s|%v|%v", scenario, interval, timeout), true)
	}
	defer finish()

	// establish the connection with a first, undisturbed delivery
	p1 := post(1)
	var ok bool
	if c1, ok = waitConn("first delivery"); !ok {
		return
	}
	x, ok := waitRead(read(c1), "first delivery")
	if !ok {
		return
	}
	if x.err != nil || x.m.GetId() != 1 {
		bad("first delivery not received", fmt.Sprint(c19Brief(x.m), " ", x.err), "envelope 1")
		return
	}
	if code, ok := waitPost(p1, "first delivery"); !ok || code != 200 {
		if ok {
			bad("first delivery not answered 200", code, 200)
		}
		return
	}

	switch placement {
	case "before":
		// the connection idles past its timeout before the next request arrives
		var rd chan c19ReadRes
		if withReader {
			rd = read(c1)
		}
		ticks, ok := fc.tickUntilUnregistered(key, 0, maxTicks)
		r.Count(fmt.Sprintf("clean.ticks-to-unregister.%d-of-%d", ticks, mult))
		if !ok {
			bad("an idle connection was not unregistered after its timeout", fmt.Sprint(ticks, " ticks"), fmt.Sprint("at most ", maxTicks))
			return
		}
		unregistered = true
		if withReader {
			x, ok := waitRead(rd, "reader of the idle connection")
			if !ok {
				return
			}
			if x.err == nil {
				bad("the reader of a timed-out connection received an envelope nobody sent", c19Brief(x.m), "an error")
				return
			}
			r.Count("clean.before.reader-failed")
		}
		// the next request opens a fresh connection
		p2 := post(2)
		c2, ok := waitConn("request after the timeout")
		if !ok {
			return
		}
		x, ok := waitRead(read(c2), "request after the timeout")
		if !ok {
			return
		}
		if x.err != nil || x.m.GetId() != 2 {
			bad("request after the timeout not delivered on the new connection", fmt.Sprint(c19Brief(x.m), " ", x.err), "envelope 2")
			return
		}
		if code, ok := waitPost(p2, "request after the timeout"); ok && code != 200 {
			bad("request after the timeout not answered 200", code, 200)
		}

	case "during":
		// the sender is held between retrieve() and its select while the connection times out
		arrived := make(chan struct{}, 1)
		release := make(chan struct{})
		hooks.OnYield("http.beforeDeliver", func(id uint64) {
			if id == 2 {
				arrived <- struct{}{}
				<-release
			}
		})
		var rd chan c19ReadRes
		if withReader {
			rd = read(c1)
		}
		p2 := post(2)
		select {
		case <-arrived:
		case <-time.After(hangTimeout):
			close(release)
			bad("the sender never reached the delivery point", "hang", "http.beforeDeliver")
			return
		}
		ticks, ok := fc.tickUntilUnregistered(key, 0, maxTicks)
		r.Count(fmt.Sprintf("clean.ticks-to-unregister.%d-of-%d", ticks, mult))
		close(release)
		if !ok {
			bad("an idle connection was not unregistered after its timeout", fmt.Sprint(ticks, " ticks"), fmt.Sprint("at most ", maxTicks))
			return
		}
		unregistered = true
		code, ok := waitPost(p2, "sender racing the cleaner")
		if !ok {
			return
		}
		raw2, _ := c19Marshal.Marshal(&Rpc{Id: 2, Header: &goatorepo.RequestHeader{Source: key, Method: "/s/m"}, Body: &goatorepo.Body{Data: []byte{2}}})
		if code != 200 && code != 503 {
			bad("sender racing the cleaner got neither delivery nor 503", code, "200 or 503")
			return
		}
		r.Count(fmt.Sprintf("clean.during.sender-%d", code))
		if withReader {
			x, ok := waitRead(rd, "reader racing the cleaner")
			if !ok {
				return
			}
			switch {
			case x.err == nil && x.m.GetId() == 2 && code == 200:
				r.Count("clean.during.handed-over")
				r.Case("httpcode", hx(raw2)+"|d", "200:"+hxs(key))
			case x.err != nil && code == 503:
				r.Count("clean.during.reader-failed")
				r.Case("httpcode", hx(raw2)+"|c", "503")
			default:
				bad("sender and reader disagree about the delivery", fmt.Sprint("status ", code, ", reader ", c19Brief(x.m), " ", x.err), "200 and envelope 2, or 503 and an error")
			}
		} else {
			if code != 503 {
				bad("answered 200 although the connection was closed and nobody read", code, 503)
			} else {
				r.Case("httpcode", hx(raw2)+"|c", "503")
			}
		}

	case "after":
		// a second delivery completes part of the way into the idle period; the connection then idles out
		part := rng.Intn(mult)
		for k := 0; k < part; k++ {
			if !fc.tick() {
				bad("the cleaner did not run on a tick", nil, nil)
				return
			}
		}
		if c19CountSite("http.unregister") > 0 {
			r.Count("clean.after.closed-early") // cannot happen: part < mult ticks
		}
		rd := read(c1)
		p2 := post(2)
		x, ok := waitRead(rd, "second delivery")
		if !ok {
			return
		}
		if x.err != nil || x.m.GetId() != 2 {
			bad("second delivery not received", fmt.Sprint(c19Brief(x.m), " ", x.err), "envelope 2")
			return
		}
		if code, ok := waitPost(p2, "second delivery"); !ok || code != 200 {
			if ok {
				bad("second delivery not answered 200", code, 200)
			}
			return
		}
		if withReader {
			rd = read(c1)
		}
		ticks, ok := fc.tickUntilUnregistered(key, 0, maxTicks)
		r.Count(fmt.Sprintf("clean.ticks-to-unregister.%d-of-%d", ticks, mult))
		if !ok {
			bad("an idle connection was not unregistered after its timeout", fmt.Sprint(ticks, " ticks"), fmt.Sprint("at most ", maxTicks))
			return
		}
		unregistered = true
		if withReader {
			x, ok := waitRead(rd, "reader of the idle connection")
			if !ok {
				return
			}
			if x.err == nil {
				bad("the reader of a timed-out connection received an envelope nobody sent", c19Brief(x.m), "an error")
				return
			}
			r.Count("clean.after.reader-failed")
		}
	}
}

var _ sync.Mutex

// c19WsPartialThenHealthy: a Read fails in the middle of a fragmented message (the peer sent one
// non-final frame and stalled; the reader's context expires); afterwards a Read on ANOTHER, healthy
// connection must still return exactly what its peer wrote — nothing of the abandoned message may
// leak into it.
func c19WsPartialThenHealthy(r *Run) {
	// state a transport keeps between reads (a pooled buffer, say) is most likely to be handed from the
	// abandoned Read to the next one when both run on one OS thread, in one goroutine
	defer runtime.GOMAXPROCS(runtime.GOMAXPROCS(1))
	rounds := r.Scale(8, 60)
	for i := 0; i < rounds; i++ {
		bad, err := c19NewWsPair()
		if err != nil {
			r.Violate("ws.setup", "ops", "cannot set up a websocket pair: "+err.Error(), nil, nil, nil)
			return
		}
		good, err := c19NewWsPair()
		if err != nil {
			bad.Close()
			r.Violate("ws.setup", "ops", "cannot set up a websocket pair: "+err.Error(), nil, nil, nil)
			return
		}
		// the stalled peer: the beginning of a valid envelope (with repeated fields), never finished
		stale := &Rpc{Id: 77, Header: &goatorepo.RequestHeader{Method: "/stale/m", ProxyRecord: []string{"stale-hop"}}, Trailer: &goatorepo.Trailer{Metadata: []*goatorepo.KeyValue{{Key: "stale", Value: "trailer"}}}}
		sb, _ := proto.Marshal(stale)
		wctx, wcancel := context.WithTimeout(context.Background(), hangTimeout)
		w, werr := bad.srv.Writer(wctx, websocket.MessageBinary)
		if werr == nil {
			// non-final frames; the writer is never closed. The library only flushes a final frame, so
			// enough padding follows to push the beginning of the message through its write buffer.
			w.Write(sb)
			w.Write(make([]byte, 64<<10))
		}
		rctx, rcancel := context.WithTimeout(context.Background(), 150*time.Millisecond)
		_, rerr := goat.NewGoatOverWebsocket(bad.cli).Read(rctx)
		rcancel()
		wcancel()
		in := map[string]any{"round": i}
		r.Progress("ws.partial", in)
		if rerr == nil {
			r.Violate("ws.partial.delivered", "ops", "a Read returned an envelope although its message was never completed", in, nil, "an error")
		}
		want := &Rpc{Id: uint64(1000 + i), Header: &goatorepo.RequestHeader{Method: "/verif.Echo/Unary", Source: "a", Destination: "b"}, Body: &goatorepo.Body{Data: []byte{1, 2, 3}}}
		hctx, hcancel := context.WithTimeout(context.Background(), hangTimeout)
		go goat.NewGoatOverWebsocket(good.srv).Write(hctx, want)
		got, gerr := goat.NewGoatOverWebsocket(good.cli).Read(hctx)
		hcancel()
		ok := true
		r.Eval(fmt.Sprintf("ws.partial/%d", i), true)
		r.Count("ws.partial")
		if !ok || gerr != nil {
			r.Violate("ws.partial.read", "ops", "Read on a healthy connection failed after another connection's Read was abandoned", in, fmt.Sprint(gerr), nil)
		} else if !proto.Equal(got, want) {
			r.Violate("ws.partial.changed", "ops", "the envelope read differs from the one written (after another connection's Read was abandoned in mid-message)", in, c19Brief(got), c19Brief(want))
		}
		bad.Close()
		good.Close()
	}
}
