package main

import (
	"context"
	"fmt"
	"net"
	"net/http"
	"sync"
	"sync/atomic"
	"time"

	goat "github.com/avos-io/goat"
	"github.com/avos-io/goat/gen/goatorepo"

	"google.golang.org/grpc"
	"google.golang.org/grpc/codes"
	"google.golang.org/grpc/metadata"
	"google.golang.org/grpc/status"
)

// c15APIUse: the concurrent uses the grpc.ClientStream / grpc.ServerStream contracts permit, made with
// NO synchronisation of the harness's own between the calls (no hook log, no channel, no mutex — those
// would order the accesses and hide a race from the detector):
//   - right after RecvMsg has returned an error (cancellation, deadline, end of stream, handler error)
//     the caller reads Trailer(), Header() and Context() while the stream's read loop may still be finishing;
//   - one goroutine in SendMsg, one in RecvMsg, a third calling Header();
//   - on the server, the handler calls SetHeader / SendHeader / SetTrailer / SendMsg / RecvMsg from two
//     goroutines (one sending, one receiving) as grpc allows.
//
// The monitor is the race detector; nothing else is asserted here.
func c15APIUse(r *Run) {
	rounds := r.Scale(150, 1500)
	for _, serialise := range []bool{true, false} {
		rig := NewRig(RigOpt{Serialise: serialise})
		rig.Impl.SetUnary(func(ctx context.Context, req []byte) ([]byte, error) { return req, nil })
		rig.Impl.SetStream(func(method string, ss grpc.ServerStream) error {
			switch mdGet(ss.Context(), "x-prog") {
			case "hold":
				<-ss.Context().Done()
				return ss.Context().Err()
			case "fail":
				return fmt.Errorf("failing handler")
			case "duplex":
				ss.SetHeader(metadata.Pairs("h1", "v"))
				var wg sync.WaitGroup
				wg.Add(1)
				go func() {
					defer wg.Done()
					for i := 0; i < 3; i++ {
						if sendB(ss, srvMsg(i)) != nil {
							return
						}
					}
				}()
				for {
					if _, err := recvB(ss); err != nil {
						break
					}
				}
				wg.Wait()
				ss.SetTrailer(metadata.Pairs("t1", "v"))
				return nil
			}
			// echo once, then end
			if b, err := recvB(ss); err == nil {
				sendB(ss, b)
			}
			return nil
		})
		for i := 0; i < rounds; i++ {
			prog := []string{"hold", "fail", "once", "duplex"}[i%4]
			r.Progress("apiuse", map[string]any{"round": i, "prog": prog, "serialise": serialise})
			ctx, cancel := context.WithCancel(metadata.AppendToOutgoingContext(context.Background(), "x-prog", prog))
			cs, err := rig.CC.NewStream(ctx, descBidi, mBidi)
			if err != nil {
				cancel()
				continue
			}
			switch prog {
			case "hold":
				if i%8 == 0 {
					sendB(cs, []byte("m"))
				}
				cancel()
				recvB(cs)
				cs.Trailer()
				cs.Header()
				cs.Context()
			case "fail":
				recvB(cs)
				cs.Trailer()
				cs.Header()
			case "once":
				sendB(cs, []byte("m"))
				recvB(cs)
				cs.CloseSend()
				recvB(cs)
				cs.Trailer()
			case "duplex":
				var wg sync.WaitGroup
				wg.Add(2)
				go func() {
					defer wg.Done()
					for k := 0; k < 3; k++ {
						if sendB(cs, []byte("c")) != nil {
							break
						}
					}
					cs.CloseSend()
				}()
				go func() { defer wg.Done(); cs.Header() }()
				for {
					if _, err := recvB(cs); err != nil {
						break
					}
				}
				cs.Trailer()
				wg.Wait()
			}
			cancel()
			r.Eval(fmt.Sprintf("apiuse/%s/%d", prog, i), true)
			r.Count("apiuse." + prog)
		}
		rig.Close()
	}
	// large messages (above the codec's 1 KiB buffer-pooling threshold) back to back on by-reference
	// transports, both directions, with unary calls of the same size class alongside: every byte a
	// receiver reads must be ordered after the sender's last write of it
	for _, serialise := range []bool{false, true} {
		rig := NewRig(RigOpt{Serialise: serialise})
		rig.Impl.SetUnary(func(ctx context.Context, req []byte) ([]byte, error) { return req, nil })
		rig.Impl.SetStream(func(method string, ss grpc.ServerStream) error {
			big := make([]byte, 3000)
			for i := 0; i < 24; i++ {
				big[0] = byte(i)
				if sendB(ss, big) != nil {
					return nil
				}
			}
			for {
				if _, err := recvB(ss); err != nil {
					return nil
				}
			}
		})
		for i, n := 0, r.Scale(6, 40); i < n; i++ {
			r.Progress("apiuse.large", map[string]any{"round": i, "serialise": serialise})
			cs, err := rig.CC.NewStream(context.Background(), descBidi, mBidi)
			if err != nil {
				continue
			}
			var wg sync.WaitGroup
			wg.Add(2)
			go func() {
				defer wg.Done()
				big := make([]byte, 2500)
				for k := 0; k < 12; k++ {
					big[1] = byte(k)
					if sendB(cs, big) != nil {
						break
					}
				}
				cs.CloseSend()
			}()
			go func() {
				defer wg.Done()
				big := make([]byte, 2800)
				for k := 0; k < 6; k++ {
					callUnary(context.Background(), rig.CC, big)
				}
			}()
			for {
				if _, err := recvB(cs); err != nil {
					break
				}
			}
			wg.Wait()
			r.Eval(fmt.Sprintf("apiuse/large/%v/%d", serialise, i), true)
			r.Count("apiuse.large")
		}
		rig.Close()
	}
	// the proxy: a peer attaches itself (AddClient) under a name for which an outgoing dial is still in
	// flight, or has just completed, with no synchronisation between the two but the proxy's own; the dial
	// takes its time by sleeping (a gate channel would order the accesses)
	for i, n := 0, r.Scale(12, 120); i < n; i++ {
		r.Progress("apiuse.dialattach", i)
		ctx, cancel := context.WithCancel(context.Background())
		dialOK := i%2 == 0
		proxy := goat.NewProxy(ctx, "px", func(id string) (goat.RpcReadWriter, error) {
			time.Sleep(time.Duration(2+i%5) * time.Millisecond)
			if dialOK {
				return NewScript(16), nil
			}
			return nil, errPxUnknown
		}, nil, nil)
		a := NewScript(16)
		proxy.AddClient("a", a)
		served := make(chan struct{})
		go func() { defer close(served); proxy.Serve() }()
		a.In <- pxGoodEnv(1, "a", "x") // the proxy starts dialling x
		time.Sleep(time.Duration(i%4) * time.Millisecond)
		x := NewScript(16)
		proxy.AddClient("x", x)
		a.In <- pxGoodEnv(2, "a", "x")
		time.Sleep(8 * time.Millisecond)
		cancel()
		a.FailRead(errInjectedRead)
		x.FailRead(errInjectedRead)
		<-served
		r.Eval(fmt.Sprintf("apiuse/dialattach/%d", i), true)
		r.Count("apiuse.dialattach")
	}
	// chained server interceptors, one of which answers on its own when the call's time is up while the
	// rest of the chain is still running in a goroutine (the usual server-side timeout interceptor; grpc-go
	// permits it): further calls on the connection overlap with the abandoned one
	for i, n := 0, r.Scale(4, 30); i < n; i++ {
		r.Progress("apiuse.asyncchain", i)
		timeoutIc := func(ctx context.Context, req any, info *grpc.UnaryServerInfo, next grpc.UnaryHandler) (any, error) {
			type res struct {
				out any
				err error
			}
			ch := make(chan res, 1)
			go func() {
				out, err := next(ctx, req)
				ch <- res{out, err}
			}()
			select {
			case x := <-ch:
				return x.out, x.err
			case <-time.After(3 * time.Millisecond):
				return nil, status.Error(codes.DeadlineExceeded, "interceptor gave up")
			}
		}
		passIc := func(ctx context.Context, req any, info *grpc.UnaryServerInfo, next grpc.UnaryHandler) (any, error) {
			return next(ctx, req)
		}
		rig := NewRig(RigOpt{Serialise: i%2 == 0, SrvOpts: []goat.ServerOption{goat.ChainUnaryInterceptor(passIc, timeoutIc, passIc, passIc)}})
		rig.Impl.SetUnary(func(ctx context.Context, req []byte) ([]byte, error) {
			if len(req) > 0 && req[0] == 's' {
				time.Sleep(8 * time.Millisecond) // slower than the interceptor's patience
			}
			return req, nil
		})
		var wg sync.WaitGroup
		for k := 0; k < 6; k++ {
			wg.Add(1)
			go func(k int) {
				defer wg.Done()
				for j := 0; j < 8; j++ {
					p := "f"
					if (k+j)%3 == 0 {
						p = "s"
					}
					ctx, cancel := context.WithTimeout(context.Background(), time.Second)
					callUnary(ctx, rig.CC, []byte(fmt.Sprintf("%s-%d-%d", p, k, j)))
					cancel()
				}
			}(k)
		}
		wg.Wait()
		time.Sleep(12 * time.Millisecond) // the abandoned continuations finish
		rig.Close()
		r.Eval(fmt.Sprintf("apiuse/asyncchain/%d", i), true)
		r.Count("apiuse.asyncchain")
	}
	// a metadata value shared by all handlers of a service ("common headers", only ever read by them):
	// concurrent unary and stream handlers pass it to SetHeader / SetTrailer and then set the same key
	// again with a value of their own. The library never writes into what it was handed.
	for i, n := 0, r.Scale(6, 40); i < n; i++ {
		r.Progress("apiuse.sharedmd", i)
		common := metadata.Pairs("via", "a", "via", "b", "via", "c") // three values in a slice with room for a fourth
		rig := NewRig(RigOpt{Serialise: i%2 == 0})
		rig.Impl.SetUnary(func(ctx context.Context, req []byte) ([]byte, error) {
			grpc.SetHeader(ctx, common)
			grpc.SetHeader(ctx, metadata.Pairs("via", string(req)))
			grpc.SetTrailer(ctx, common)
			grpc.SetTrailer(ctx, metadata.Pairs("via", string(req)))
			if vs := common["via"]; len(vs) != 3 || vs[0] != "a" || vs[2] != "c" || (cap(vs) > 3 && vs[:4][3] != "") {
				return nil, status.Error(codes.DataLoss, "shared metadata changed")
			}
			return req, nil
		})
		rig.Impl.SetStream(func(method string, ss grpc.ServerStream) error {
			b, _ := recvB(ss)
			ss.SetHeader(common)
			ss.SetHeader(metadata.Pairs("via", string(b)))
			ss.SetTrailer(common)
			ss.SetTrailer(metadata.Pairs("via", string(b)))
			sendB(ss, b)
			return nil
		})
		var wg sync.WaitGroup
		var changed atomic.Int32
		for k := 0; k < 6; k++ {
			wg.Add(1)
			go func(k int) {
				defer wg.Done()
				for j := 0; j < 8; j++ {
					ctx, cancel := context.WithTimeout(context.Background(), hangTimeout)
					if (k+j)%3 == 0 {
						if cs, err := rig.CC.NewStream(ctx, descBidi, mBidi); err == nil {
							sendB(cs, []byte(fmt.Sprintf("call-%d-%d", k, j)))
							cs.CloseSend()
							for {
								if _, err := recvB(cs); err != nil {
									break
								}
							}
						}
					} else if _, err := callUnary(ctx, rig.CC, []byte(fmt.Sprintf("call-%d-%d", k, j))); status.Code(err) == codes.DataLoss {
						changed.Add(1)
					}
					cancel()
				}
			}(k)
		}
		wg.Wait()
		if vs := common["via"]; changed.Load() > 0 || len(vs) != 3 || (cap(vs) > 3 && vs[:4][3] != "") {
			r.Violate("apiuse.sharedmd", "history", "memory of a metadata value that handlers passed to SetHeader / SetTrailer was written by the library", i, fmt.Sprint(common["via"][:cap(common["via"])]), "[a b c ]")
		}
		rig.Close()
		r.Eval(fmt.Sprintf("apiuse/sharedmd/%d", i), true)
		r.Count("apiuse.sharedmd")
	}
	// the HTTP transport under a client connection: several calls are writing when the peer dies (all
	// their POSTs are cut off together), so several Writes of one connection fail concurrently while its
	// reader is woken
	for i, n := 0, r.Scale(6, 40); i < n; i++ {
		r.Progress("apiuse.httpfail", i)
		const callers = 4
		var inflight atomic.Int32
		allIn := make(chan struct{})
		var once sync.Once
		ln, err := net.Listen("tcp", "127.0.0.1:0")
		if err != nil {
			r.Count("apiuse.httpfail.no_listener")
			break
		}
		hs := &http.Server{Handler: http.HandlerFunc(func(w http.ResponseWriter, req *http.Request) {
			if inflight.Add(1) >= callers {
				once.Do(func() { close(allIn) })
			}
			select {
			case <-allIn:
			case <-time.After(300 * time.Millisecond):
			}
			if hj, ok := w.(http.Hijacker); ok {
				if c, _, err := hj.Hijack(); err == nil {
					c.Close()
				}
			}
		})}
		go hs.Serve(ln)
		goh := goat.NewGoatOverHttp(func(string, goat.RpcReadWriter) {}, func(s string) (string, error) { return s, nil })
		cc := goat.NewClientConn(goh.NewConnection(ln.Addr().String()), "c", "srv")
		var wg sync.WaitGroup
		for k := 0; k < callers; k++ {
			wg.Add(1)
			go func(k int) {
				defer wg.Done()
				ctx, cancel := context.WithTimeout(context.Background(), 2*time.Second)
				defer cancel()
				callUnary(ctx, cc, []byte(fmt.Sprintf("hf-%d-%d", i, k)))
			}(k)
		}
		wg.Wait()
		cc.Close()
		hs.Close()
		r.Eval(fmt.Sprintf("apiuse/httpfail/%d", i), true)
		r.Count("apiuse.httpfail")
	}
	// the demultiplexer: keys are cancelled (Demux.Cancel, from another goroutine — Run blocks) while the
	// run loop is handing over envelopes of those very keys; readers come and go
	for i, n := 0, r.Scale(10, 80); i < n; i++ {
		r.Progress("apiuse.demuxcancel", i)
		shared := NewScript(0)
		ctx, cancel := context.WithCancel(context.Background())
		var cmu sync.Mutex
		var lcs []goat.RpcReadWriter
		dm := goat.NewDemux(ctx, shared, func(e *Rpc) string { return e.GetHeader().GetSource() }, func(rw goat.RpcReadWriter) {
			cmu.Lock()
			lcs = append(lcs, rw)
			cmu.Unlock()
			go func() {
				for {
					rctx, rcancel := context.WithTimeout(ctx, 3*time.Millisecond)
					_, err := rw.Read(rctx)
					rcancel()
					if err != nil && ctx.Err() != nil {
						return
					}
					if err != nil && rctx.Err() == nil {
						return // the key was cancelled
					}
				}
			}()
		})
		ran := make(chan struct{})
		go func() { defer close(ran); dm.Run() }()
		stop := make(chan struct{})
		var wg sync.WaitGroup
		wg.Add(1)
		go func() { // canceller
			defer wg.Done()
			for k := 0; ; k++ {
				select {
				case <-stop:
					return
				default:
				}
				dm.Cancel(fmt.Sprintf("k%d", k%3))
				time.Sleep(200 * time.Microsecond)
			}
		}()
		for k := 0; k < 300; k++ {
			select {
			case shared.In <- &Rpc{Id: uint64(k), Header: &goatorepo.RequestHeader{Source: fmt.Sprintf("k%d", (k/3)%3)}}:
			case <-time.After(hangTimeout):
				r.Violate("apiuse.demuxcancel", "history", "the demultiplexer's run loop stopped reading", i, goroutineDump(), nil)
				k = 300
			}
		}
		close(stop)
		wg.Wait()
		dm.Stop()
		cancel()
		shared.FailRead(errInjectedRead)
		within(hangTimeout, func() { <-ran })
		r.Eval(fmt.Sprintf("apiuse/demuxcancel/%d", i), true)
		r.Count("apiuse.demuxcancel")
	}
	// the connection fails (read side and write side) while streams are sending and receiving and unary
	// calls are being made: the error paths of the multiplexer run concurrently with its read loop's end
	for i, n := 0, r.Scale(20, 200); i < n; i++ {
		r.Progress("apiuse.connfail", i)
		rig := NewRig(RigOpt{Serialise: i%2 == 0})
		rig.Impl.SetUnary(func(ctx context.Context, req []byte) ([]byte, error) { return req, nil })
		rig.Impl.SetStream(func(method string, ss grpc.ServerStream) error {
			for {
				b, err := recvB(ss)
				if err != nil {
					return nil
				}
				if sendB(ss, b) != nil {
					return nil
				}
			}
		})
		var wg sync.WaitGroup
		for k := 0; k < 3; k++ {
			cs, err := rig.CC.NewStream(context.Background(), descBidi, mBidi)
			if err != nil {
				continue
			}
			wg.Add(2)
			go func() {
				defer wg.Done()
				for j := 0; j < 50; j++ {
					if sendB(cs, []byte("m")) != nil {
						break
					}
				}
				sendB(cs, []byte("again"))
				cs.CloseSend()
			}()
			go func() {
				defer wg.Done()
				for {
					if _, err := recvB(cs); err != nil {
						break
					}
				}
				cs.Trailer()
			}()
		}
		wg.Add(1)
		go func() {
			defer wg.Done()
			for j := 0; j < 20; j++ {
				if _, err := callUnary(context.Background(), rig.CC, []byte("u")); err != nil {
					break
				}
			}
			callUnary(context.Background(), rig.CC, []byte("after"))
			rig.CC.NewStream(context.Background(), descBidi, mBidi)
		}()
		if i%3 != 0 {
			rig.CEnd.FailWrite(errInjectedWrite)
		}
		rig.CEnd.FailRead(errInjectedRead)
		if i%3 == 0 {
			rig.CEnd.FailWrite(errInjectedWrite)
		}
		wg.Wait()
		rig.Close()
		r.Eval(fmt.Sprintf("apiuse/connfail/%d", i), true)
		r.Count("apiuse.connfail")
	}
}
