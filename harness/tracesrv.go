package main

import (
	"context"
	"fmt"
	"io"
	"math/rand"
	"strings"
	"time"

	goat "github.com/avos-io/goat"
	"github.com/avos-io/goat/gen/goatorepo"
	"google.golang.org/grpc"
	"google.golang.org/protobuf/types/known/wrapperspb"
)

func init() { register("TRACESRV", func(r *Run) { srvTraceScenario(r, 0) }) }

// tapRW logs an "in" pseudo-event whenever the library's read loop is handed an envelope, in the same
// log (and, being called by the read loop's own goroutine, in program order with its events).
type tapRW struct{ inner *Script }

func (t *tapRW) Read(ctx context.Context) (*Rpc, error) {
	r, err := t.inner.Read(ctx)
	if err == nil {
		var fl strings.Builder
		m := strings.TrimPrefix(r.GetHeader().GetMethod(), "/")
		if m == "verif.Echo/Unary" {
			fl.WriteByte('u')
		}
		if r.GetReset_() != nil && r.GetReset_().Type == "RST_STREAM" {
			fl.WriteByte('r')
		}
		if r.GetBody() != nil {
			fl.WriteByte('b')
		}
		if r.GetTrailer() != nil {
			fl.WriteByte('t')
		}
		for _, kv := range r.GetHeader().GetHeaders() {
			if kv.Value == "!!" {
				fl.WriteByte('m')
			}
		}
		if fl.Len() == 0 {
			fl.WriteByte('-')
		}
		hooks.Inject("in", r.Id, fl.String())
	}
	return r, err
}

func (t *tapRW) Write(ctx context.Context, r *Rpc) error { return t.inner.Write(ctx, r) }

// srvTraceScenario (strand C for the server connection): a scripted peer drives a real Serve with
// several streams and unary calls whose handlers run concurrently; the connection then ends by a read
// error, a write error or Stop. The logged events are replayed against Goat.ServerConn.step by the
// Lean driver (op "srvtrace").
func srvTraceScenario(r *Run, variant int) {
	rounds := r.Scale(8, 120)
	for round := 0; round < rounds; round++ {
		rng := r.Rand(fmt.Sprintf("srvtrace/%d/%d", variant, round))
		settleGoroutines(0)
		hooks.Reset(true)
		if !srvTraceOne(r, round, rng) {
			hooks.Reset(false)
			return
		}
		hooks.Reset(false)
	}
}

func srvTraceOne(r *Run, round int, rng *rand.Rand) bool {
	sc := NewScript(0)
	sc.Out = make(chan *Rpc, 1<<14)
	srv := goat.NewServer("srv")
	impl := &Impl{}
	impl.SetUnary(func(ctx context.Context, req []byte) ([]byte, error) { return req, nil })
	impl.SetStream(func(method string, ss grpc.ServerStream) error {
		prog := mdGet(ss.Context(), "x-prog")
		switch prog {
		case "echo":
			for {
				b, err := recvB(ss)
				if err != nil {
					return nil
				}
				if sendB(ss, b) != nil {
					return nil
				}
			}
		case "burst":
			for i := 0; i < 3; i++ {
				if sendB(ss, srvMsg(i)) != nil {
					break
				}
			}
			for {
				if _, err := recvB(ss); err != nil {
					return nil
				}
			}
		case "early":
			recvB(ss)
			return nil
		case "fail":
			return fmt.Errorf("failing handler")
		default: // hold
			<-ss.Context().Done()
			return ss.Context().Err()
		}
	})
	srv.RegisterService(&echoDesc, impl)
	ctx, cancel := context.WithCancel(context.Background())
	defer cancel()
	served := make(chan error, 1)
	go func() { served <- srv.Serve(ctx, &tapRW{sc}) }()

	hdr := func(method, prog string) *goatorepo.RequestHeader {
		h := &goatorepo.RequestHeader{Method: method, Destination: "srv", Source: "c"}
		if prog != "" {
			h.Headers = []*goatorepo.KeyValue{{Key: "x-prog", Value: prog}}
		}
		return h
	}
	body := func() *goatorepo.Body {
		b, _ := goat_marshal(&wrapperspb.BytesValue{Value: []byte("m")})
		return &goatorepo.Body{Data: b}
	}
	progs := []string{"echo", "burst", "early", "fail", "hold"}
	nStreams := 1 + rng.Intn(4)
	type st struct {
		id     uint64
		prog   string
		open   bool
		bodies int
	}
	var streams []*st
	nextID := uint64(1)
	send := func(e *Rpc) bool {
		select {
		case sc.In <- e:
			return true
		case <-time.After(hangTimeout):
			r.Violate("srvtrace.stall", "history", "server stopped reading", round, goroutineDump(), nil)
			return false
		}
	}
	steps := 6 + rng.Intn(r.Scale(14, 40))
	for i := 0; i < steps; i++ {
		switch k := rng.Intn(10); {
		case k < 3 && len(streams) < nStreams:
			s := &st{id: nextID, prog: progs[rng.Intn(len(progs))], open: true}
			nextID++
			streams = append(streams, s)
			if !send(&Rpc{Id: s.id, Header: hdr(mBidi, s.prog)}) {
				return false
			}
		case k < 6 && len(streams) > 0:
			s := streams[rng.Intn(len(streams))]
			// a handler that never reads takes one message into its one-slot queue; a second one would
			// park the read loop behind it (head-of-line blocking, the documented known finding)
			if s.prog == "hold" && s.bodies >= 1 {
				continue
			}
			s.bodies++
			if !send(&Rpc{Id: s.id, Header: hdr(mBidi, ""), Body: body()}) {
				return false
			}
		case k == 6 && len(streams) > 0:
			s := streams[rng.Intn(len(streams))]
			if s.prog == "hold" && s.bodies >= 1 {
				continue
			}
			s.bodies++
			if !send(&Rpc{Id: s.id, Header: hdr(mBidi, ""), Trailer: &goatorepo.Trailer{}, Status: &goatorepo.ResponseStatus{}}) {
				return false
			}
		case k == 7 && len(streams) > 0:
			s := streams[rng.Intn(len(streams))]
			if !send(&Rpc{Id: s.id, Header: hdr(mBidi, ""), Reset_: &goatorepo.Reset{Type: "RST_STREAM"}}) {
				return false
			}
		default:
			id := nextID
			nextID++
			if !send(&Rpc{Id: id, Header: hdr(mUnary, ""), Body: body()}) {
				return false
			}
		}
	}
	// the end of the connection
	end := round % 3
	switch end {
	case 0:
		sc.FailRead(io.EOF)
	case 1:
		hooks.Inject("stop", 0, "")
		srv.Stop()
	case 2:
		sc.FailWrite(errInjectedWrite)
		// a write must be attempted for the failure to be noticed: one more unary request (unless an
		// earlier response already hit the failure and the server is gone)
		select {
		case sc.In <- &Rpc{Id: nextID, Header: hdr(mUnary, ""), Body: body()}:
		case err := <-served:
			served <- err
		case <-time.After(2 * hangTimeout):
			// the read loop takes nothing any more: decided below (Serve has to return all the same)
		}
	}
	if !within(2*hangTimeout, func() { <-served }) {
		if end == 2 {
			// a failed write only ends Serve once the read loop returns, which takes a Read that honours the context
			sc.FailRead(io.EOF)
			if !within(2*hangTimeout, func() { <-served }) {
				r.Violate("srvtrace.serve", "history", "Serve did not return after a transport write failed and the transport's Read failed as well", map[string]any{"round": round, "end": end}, goroutineDump(), nil)
				return false
			}
		} else {
			r.Violate("srvtrace.serve", "history", "Serve did not return", map[string]any{"round": round, "end": end}, goroutineDump(), nil)
			return false
		}
	}
	settleGoroutines(0)
	evs := hooks.Events()
	var parts []string
	for _, e := range evs {
		id := e.ID
		switch e.Site {
		case "in":
			parts = append(parts, fmt.Sprintf("in:%d:%s", id, e.Detail))
		case "stop":
			parts = append(parts, "stop")
		case "srv.unary.dispatch":
			parts = append(parts, fmt.Sprintf("dispatch:%d", id))
		case "srv.worker.ran":
			parts = append(parts, fmt.Sprintf("wran:%d", id))
		case "srv.worker.handoff":
			parts = append(parts, fmt.Sprintf("whand:%d", id))
		case "srv.worker.abandon":
			parts = append(parts, fmt.Sprintf("waban:%d", id))
		case "srv.worker.exit":
			parts = append(parts, "wexit")
		case "srv.writer.write":
			parts = append(parts, fmt.Sprintf("wwrite:%d:%s", id, e.Detail))
		case "srv.writer.exit":
			parts = append(parts, "wrexit")
		case "srv.stream.cancel":
			parts = append(parts, fmt.Sprintf("scancel:%d", id))
		case "srv.forward.enter":
			parts = append(parts, fmt.Sprintf("fenter:%d", id))
		case "srv.forward.sent":
			parts = append(parts, fmt.Sprintf("fsent:%d", id))
		case "srv.forward.dropped":
			parts = append(parts, fmt.Sprintf("fdropped:%d", id))
		case "srv.forward.abort":
			parts = append(parts, fmt.Sprintf("fabort:%d:%s", id, e.Detail))
		case "srv.reset":
			parts = append(parts, fmt.Sprintf("reset:%d", id))
		case "srv.reset.handoff":
			parts = append(parts, fmt.Sprintf("rhand:%d", id))
		case "srv.register":
			parts = append(parts, fmt.Sprintf("reg:%d", id))
		case "srv.stream.recv":
			parts = append(parts, fmt.Sprintf("hrecv:%d", id))
		case "srv.stream.sent":
			parts = append(parts, fmt.Sprintf("hsent:%d", id))
		case "srv.handler.returned":
			parts = append(parts, fmt.Sprintf("hret:%d", id))
		case "srv.trailer":
			parts = append(parts, fmt.Sprintf("trailer:%d:%s", id, e.Detail))
		case "srv.unregister":
			parts = append(parts, fmt.Sprintf("unreg:%d", id))
		case "srv.serve.exit":
			parts = append(parts, "sexit")
		case "srv.wait.pick":
			parts = append(parts, "wpick")
		case "srv.wait.taken":
			parts = append(parts, "wtaken")
		case "srv.wait.done":
			parts = append(parts, "wdone")
		}
	}
	r.Case("srvtrace", strings.Join(parts, ";"), "accept:streams=0")
	r.Trace()
	r.CountN("srvtrace.events", len(parts))
	r.Count(fmt.Sprintf("srvtrace.end%d", end))
	return true
}
