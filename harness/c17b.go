package main

import (
	"context"
	"fmt"
	"time"

	goat "github.com/avos-io/goat"
	"github.com/avos-io/goat/gen/goatorepo"
)

// c17EmptyName: a peer attached under the EMPTY name (legal for AddClient) sends envelopes without a
// header, with an empty source and with a foreign source. A header-less envelope is never forwarded and
// never crashes the proxy — also when "no header" and "the sender's name" both read as the empty string.
func c17EmptyName(r *Run) {
	if !r.Want("emptyname") {
		return
	}
	for rep, reps := 0, r.Scale(3, 30); rep < reps && r.NumViolations() <= 4; rep++ {
		in := map[string]any{"rep": rep, "peer_names": []string{"", "a"}}
		r.Progress("emptyname", in)
		hooks.Reset(true)
		ctx, cancel := context.WithCancel(context.Background())
		proxy := goat.NewProxy(ctx, "px", func(id string) (goat.RpcReadWriter, error) { return nil, errPxUnknown }, nil, nil)
		anon, a := NewScript(16), NewScript(16)
		proxy.AddClient("", anon)
		proxy.AddClient("a", a)
		served := make(chan any, 1)
		go func() {
			defer func() { served <- recover() }()
			proxy.Serve()
		}()
		bad := []*Rpc{
			{Id: 1, Body: &goatorepo.Body{Data: []byte("x")}},                                                                  // no header at all
			{Id: 2, Header: &goatorepo.RequestHeader{Source: "a", Destination: "a"}},                                           // foreign source
			{Id: 3, Header: nil, Trailer: &goatorepo.Trailer{}},                                                                // no header, trailer
			{Id: 4, Header: &goatorepo.RequestHeader{Source: "", Destination: "a", Method: "/svc/m"}, Body: &goatorepo.Body{}}, // well-formed: source = its name
		}
		crashed := false
		for _, e := range bad {
			select {
			case anon.In <- e:
			case p := <-served:
				r.Violate("emptyname.crash", "ops", "an envelope from a peer attached under the empty name crashed the proxy's forwarding loop", in, fmt.Sprint(p), "ignored")
				crashed = true
			case <-time.After(hangTimeout):
				r.Violate("emptyname.stall", "ops", "the proxy stopped reading from an attached peer", in, goroutineDump(), nil)
				crashed = true
			}
			if crashed {
				break
			}
		}
		if !crashed {
			// only the well-formed one arrives at a; a header-less one never does
			select {
			case got := <-a.Out:
				if got.Header == nil || got.Id != 4 {
					r.Violate("emptyname.forwarded", "ops", "the proxy forwarded an envelope without a header / with a foreign source", in, shapeOf(got), "only envelope 4")
				}
			case p := <-served:
				r.Violate("emptyname.crash", "ops", "an envelope from a peer attached under the empty name crashed the proxy's forwarding loop", in, fmt.Sprint(p), "ignored")
				crashed = true
			case <-time.After(hangTimeout):
				r.Violate("emptyname.lost", "ops", "a well-formed envelope from the peer attached under the empty name was not forwarded", in, goroutineDump(), nil)
			}
		}
		cancel()
		anon.FailRead(errInjectedRead)
		a.FailRead(errInjectedRead)
		if !crashed {
			within(hangTimeout, func() { <-served })
		}
		r.Eval(fmt.Sprintf("emptyname/%d", rep), true)
		r.Count("c17.emptyname")
		hooks.Reset(false)
	}
}
