package main

import (
	"context"
	"io"
	"sync"

	goat "github.com/avos-io/goat"
	"google.golang.org/grpc"
	"google.golang.org/protobuf/types/known/wrapperspb"
)

// The harness's own gRPC service: messages are wrapperspb.BytesValue, so
// payloads are arbitrary byte strings. The service descriptor is written by
// hand (it is what protoc-gen-go-grpc would generate).

const (
	svcName    = "verif.Echo"
	mUnary     = "/verif.Echo/Unary"
	mBidi      = "/verif.Echo/Bidi"
	mSrvStream = "/verif.Echo/SrvStream"
	mCliStream = "/verif.Echo/CliStream"
)

type echoIface interface{ isEcho() }

// Impl is the programmable service implementation.
type Impl struct {
	mu     sync.Mutex
	unary  func(ctx context.Context, req []byte) ([]byte, error)
	stream func(method string, ss grpc.ServerStream) error
}

func (*Impl) isEcho() {}

func (i *Impl) SetUnary(f func(ctx context.Context, req []byte) ([]byte, error)) {
	i.mu.Lock()
	i.unary = f
	i.mu.Unlock()
}

func (i *Impl) SetStream(f func(method string, ss grpc.ServerStream) error) {
	i.mu.Lock()
	i.stream = f
	i.mu.Unlock()
}

func (i *Impl) getUnary() func(ctx context.Context, req []byte) ([]byte, error) {
	i.mu.Lock()
	defer i.mu.Unlock()
	return i.unary
}

func (i *Impl) getStream() func(method string, ss grpc.ServerStream) error {
	i.mu.Lock()
	defer i.mu.Unlock()
	return i.stream
}

func unaryHandler(srv any, ctx context.Context, dec func(any) error, interceptor grpc.UnaryServerInterceptor) (any, error) {
	in := new(wrapperspb.BytesValue)
	if err := dec(in); err != nil {
		return nil, err
	}
	h := func(ctx context.Context, req any) (any, error) {
		out, err := srv.(*Impl).getUnary()(ctx, req.(*wrapperspb.BytesValue).Value)
		if err != nil {
			return nil, err
		}
		return &wrapperspb.BytesValue{Value: out}, nil
	}
	if interceptor == nil {
		return h(ctx, in)
	}
	info := &grpc.UnaryServerInfo{Server: srv, FullMethod: mUnary}
	return interceptor(ctx, in, info, h)
}

func streamHandlerFor(method string) grpc.StreamHandler {
	return func(srv any, ss grpc.ServerStream) error {
		return srv.(*Impl).getStream()(method, ss)
	}
}

var echoDesc = grpc.ServiceDesc{
	ServiceName: svcName,
	HandlerType: (*echoIface)(nil),
	Methods:     []grpc.MethodDesc{{MethodName: "Unary", Handler: unaryHandler}},
	Streams: []grpc.StreamDesc{
		{StreamName: "Bidi", Handler: streamHandlerFor(mBidi), ServerStreams: true, ClientStreams: true},
		{StreamName: "SrvStream", Handler: streamHandlerFor(mSrvStream), ServerStreams: true},
		{StreamName: "CliStream", Handler: streamHandlerFor(mCliStream), ClientStreams: true},
	},
}

var (
	descBidi = &grpc.StreamDesc{StreamName: "Bidi", ServerStreams: true, ClientStreams: true}
	descSrv  = &grpc.StreamDesc{StreamName: "SrvStream", ServerStreams: true}
	descCli  = &grpc.StreamDesc{StreamName: "CliStream", ClientStreams: true}
)

func descOf(method string) *grpc.StreamDesc {
	switch method {
	case mBidi:
		return descBidi
	case mSrvStream:
		return descSrv
	default:
		return descCli
	}
}

// ---- small client/server helpers ----

func callUnary(ctx context.Context, cc grpc.ClientConnInterface, payload []byte) ([]byte, error) {
	out := new(wrapperspb.BytesValue)
	err := cc.Invoke(ctx, mUnary, &wrapperspb.BytesValue{Value: payload}, out)
	if err != nil {
		return nil, err
	}
	return out.Value, nil
}

func sendB(s interface{ SendMsg(m any) error }, b []byte) error {
	return s.SendMsg(&wrapperspb.BytesValue{Value: b})
}

func recvB(s interface{ RecvMsg(m any) error }) ([]byte, error) {
	m := new(wrapperspb.BytesValue)
	if err := s.RecvMsg(m); err != nil {
		return nil, err
	}
	if m.Value == nil {
		return []byte{}, nil
	}
	return m.Value, nil
}

// Rig is one client connection to one server over an in-memory pipe.
type Rig struct {
	Impl   *Impl
	Srv    *goat.Server
	CC     *goat.ClientConn
	CEnd   *End
	SEnd   *End
	Wire   *Wire
	served chan error
	ctx    context.Context
	cancel context.CancelFunc
}

type RigOpt struct {
	Serialise  bool
	Cap        int
	SrvOpts    []goat.ServerOption
	DialOpts   []goat.DialOption
	ServerName string
	DestName   string
	Source     string
}

func NewRig(o RigOpt) *Rig {
	if o.Cap == 0 {
		o.Cap = 4096
	}
	if o.ServerName == "" {
		o.ServerName = "srv"
	}
	if o.DestName == "" {
		o.DestName = o.ServerName
	}
	if o.Source == "" {
		o.Source = "cli"
	}
	wire := &Wire{}
	ce, se := NewPipe(o.Cap, o.Serialise, wire)
	impl := &Impl{}
	srv := goat.NewServer(o.ServerName, o.SrvOpts...)
	srv.RegisterService(&echoDesc, impl)
	ctx, cancel := context.WithCancel(context.Background())
	r := &Rig{Impl: impl, Srv: srv, CEnd: ce, SEnd: se, Wire: wire, served: make(chan error, 1), ctx: ctx, cancel: cancel}
	go func() { r.served <- srv.Serve(ctx, se) }()
	r.CC = goat.NewClientConn(ce, o.Source, o.DestName, o.DialOpts...)
	return r
}

// Close tears the rig down and waits for Serve to return.
func (r *Rig) Close() bool {
	r.Srv.Stop()
	r.cancel()
	r.CEnd.FailRead(io.ErrClosedPipe)
	r.SEnd.FailRead(io.ErrClosedPipe)
	r.CEnd.FailWrite(io.ErrClosedPipe)
	r.SEnd.FailWrite(io.ErrClosedPipe)
	r.CC.Close()
	ok := true
	select {
	case <-r.served:
	default:
		ok = within(hangTimeout, func() { <-r.served })
	}
	return ok
}
