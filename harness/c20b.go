package main

import (
	"context"
	"fmt"

	goat "github.com/avos-io/goat"
	"google.golang.org/grpc"
	"google.golang.org/grpc/codes"
	"google.golang.org/grpc/status"
	"google.golang.org/protobuf/types/known/wrapperspb"
)

// c20ChainRetry: the chained handler is the NESTING of the interceptors (theorem chain_is_nesting), also
// for an interceptor that invokes its handler more than once — a retry after an error runs the rest of
// the chain and the handler again, in registration order, with what the earlier stages put into the
// context. The real chain's call log is compared with the log of the nesting built directly from the
// same interceptors (reference: wrap from the last to the first).
func c20ChainRetry(r *Run) {
	if !r.Want("chainretry") {
		return
	}
	for n := 2; n <= 5; n++ {
		for p := 0; p < n-1; p++ {
			mk := func(log *callLog) (u []grpc.UnaryServerInterceptor, s []grpc.StreamServerInterceptor) {
				for k := 0; k < n; k++ {
					k := k
					u = append(u, func(ctx context.Context, req any, info *grpc.UnaryServerInfo, next grpc.UnaryHandler) (any, error) {
						log.add(fmt.Sprintf("e%d", k))
						if k > 0 {
							if v, _ := ctx.Value(tagKey{fmt.Sprint("stage", k-1)}).(int); v != k-1 {
								log.add(fmt.Sprintf("ctxlost%d", k))
							}
						}
						ctx = context.WithValue(ctx, tagKey{fmt.Sprint("stage", k)}, k)
						out, err := next(ctx, req)
						if err != nil && k == p {
							log.add(fmt.Sprintf("retry%d", k))
							out, err = next(ctx, req)
						}
						log.add(fmt.Sprintf("x%d", k))
						return out, err
					})
					s = append(s, func(srv any, ss grpc.ServerStream, info *grpc.StreamServerInfo, next grpc.StreamHandler) error {
						log.add(fmt.Sprintf("e%d", k))
						err := next(srv, ss)
						if err != nil && k == p {
							log.add(fmt.Sprintf("retry%d", k))
							err = next(srv, ss)
						}
						log.add(fmt.Sprintf("x%d", k))
						return err
					})
				}
				return
			}
			// the reference: the nesting, run directly
			ref := &callLog{}
			ru, rs := mk(ref)
			attempts := 0
			finalU := grpc.UnaryHandler(func(ctx context.Context, req any) (any, error) {
				ref.add("F")
				if v, _ := ctx.Value(tagKey{fmt.Sprint("stage", n-1)}).(int); v != n-1 {
					ref.add("ctxlostF")
				}
				attempts++
				if attempts == 1 {
					return nil, status.Error(codes.Unavailable, "try again")
				}
				return req, nil
			})
			hu := finalU
			for k := n - 1; k >= 0; k-- {
				k, inner := k, hu
				hu = func(ctx context.Context, req any) (any, error) { return ru[k](ctx, req, nil, inner) }
			}
			hu(context.Background(), &wrapperspb.BytesValue{})
			wantU := ref.take()
			attempts = 0
			finalS := grpc.StreamHandler(func(srv any, ss grpc.ServerStream) error {
				ref.add("F")
				attempts++
				if attempts == 1 {
					return status.Error(codes.Unavailable, "try again")
				}
				return nil
			})
			hs := finalS
			for k := n - 1; k >= 0; k-- {
				k, inner := k, hs
				hs = func(srv any, ss grpc.ServerStream) error { return rs[k](srv, ss, nil, inner) }
			}
			hs(nil, nil)
			wantS := ref.take()

			// the real chain, through a real server
			log := &callLog{}
			u, s := mk(log)
			rig := NewRig(RigOpt{Serialise: true, SrvOpts: []goat.ServerOption{goat.ChainUnaryInterceptor(u...), goat.ChainStreamInterceptor(s...)}})
			tries := 0
			rig.Impl.SetUnary(func(ctx context.Context, req []byte) ([]byte, error) {
				log.add("F")
				if v, _ := ctx.Value(tagKey{fmt.Sprint("stage", n-1)}).(int); v != n-1 {
					log.add("ctxlostF")
				}
				tries++
				if tries == 1 {
					return nil, status.Error(codes.Unavailable, "try again")
				}
				return req, nil
			})
			rig.Impl.SetStream(func(method string, ss grpc.ServerStream) error {
				log.add("F")
				tries++
				if tries == 1 {
					return status.Error(codes.Unavailable, "try again")
				}
				return nil
			})
			in := map[string]any{"chain": n, "retrying_interceptor": p}
			r.Progress("chainretry", in)
			_, err := callUnary(context.Background(), rig.CC, []byte("q"))
			if got := log.take(); got != wantU || err != nil {
				r.Violate("chainretry.unary", "ops", "the chained unary handler does not behave as the nesting of its interceptors when an interceptor retries after an error", in, fmt.Sprintf("%s err=%v", got, err), wantU)
			}
			tries = 0
			if cs, err := rig.CC.NewStream(context.Background(), descBidi, mBidi); err == nil {
				cs.CloseSend()
				recvB(cs)
			}
			if got := log.take(); got != wantS {
				r.Violate("chainretry.stream", "ops", "the chained stream handler does not behave as the nesting of its interceptors when an interceptor retries after an error", in, got, wantS)
			}
			r.Eval(fmt.Sprintf("chainretry/%d/%d", n, p), true)
			r.Count("chain.retry")
			rig.Close()
		}
	}
}
