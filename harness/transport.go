package main

import (
	"context"
	"errors"
	"sync"
	"time"

	"github.com/avos-io/goat/gen/goatorepo"
	"google.golang.org/protobuf/proto"
)

type Rpc = goatorepo.Rpc

// WireEv is one envelope seen on a wire tap.
type WireEv struct {
	Dir string // "c2s" or "s2c" (or a peer name for proxy taps)
	Rpc *Rpc
}

// Wire is a log of envelopes in the order they were written.
type Wire struct {
	mu  sync.Mutex
	evs []WireEv
}

func (w *Wire) add(dir string, r *Rpc) {
	w.mu.Lock()
	w.evs = append(w.evs, WireEv{dir, proto.Clone(r).(*Rpc)})
	w.mu.Unlock()
}

func (w *Wire) Snapshot() []WireEv {
	w.mu.Lock()
	defer w.mu.Unlock()
	return append([]WireEv(nil), w.evs...)
}

// End is one end of an in-memory transport.
type End struct {
	name      string
	in        chan *Rpc
	out       chan *Rpc
	serialise bool
	wire      *Wire
	dirOut    string

	mu        sync.Mutex
	readFail  chan struct{}
	readErr   error
	writeFail chan struct{}
	writeErr  error
	readAfter int // fail reads after this many more envelopes (-1 = off)
	nRead     int
	nWritten  int
	onRead    func(*Rpc)
	wlock     chan struct{}
}

var errInjectedRead = errors.New("injected read failure")
var errInjectedWrite = errors.New("injected write failure")

// NewPipe makes a bidirectional in-memory transport. cap is the per-direction
// buffer; serialise chooses marshal/unmarshal copies vs passing pointers.
func NewPipe(cap int, serialise bool, wire *Wire) (client *End, server *End) {
	c2s := make(chan *Rpc, cap)
	s2c := make(chan *Rpc, cap)
	client = &End{name: "client", in: s2c, out: c2s, serialise: serialise, wire: wire, dirOut: "c2s",
		readFail: make(chan struct{}), writeFail: make(chan struct{}), readAfter: -1, wlock: make(chan struct{}, 1)}
	server = &End{name: "server", in: c2s, out: s2c, serialise: serialise, wire: wire, dirOut: "s2c",
		readFail: make(chan struct{}), writeFail: make(chan struct{}), readAfter: -1, wlock: make(chan struct{}, 1)}
	return
}

func (e *End) Read(ctx context.Context) (*Rpc, error) {
	e.mu.Lock()
	if e.readAfter == 0 {
		e.mu.Unlock()
		e.FailRead(errInjectedRead)
	} else {
		e.mu.Unlock()
	}
	select {
	case <-e.readFail:
		return nil, e.readErr
	default:
	}
	select {
	case r := <-e.in:
		e.mu.Lock()
		e.nRead++
		if e.readAfter > 0 {
			e.readAfter--
		}
		f := e.onRead
		e.mu.Unlock()
		if f != nil {
			f(r)
		}
		return r, nil
	case <-ctx.Done():
		return nil, ctx.Err()
	case <-e.readFail:
		return nil, e.readErr
	}
}

func (e *End) Write(ctx context.Context, r *Rpc) error {
	// a transport that honours its context: a Write entered with a finished context fails
	if err := ctx.Err(); err != nil {
		return err
	}
	select {
	case <-e.writeFail:
		return e.writeErr
	default:
	}
	var w *Rpc
	if e.serialise {
		b, err := proto.Marshal(r)
		if err != nil {
			return err
		}
		w = new(Rpc)
		if err := proto.Unmarshal(b, w); err != nil {
			return err
		}
	} else {
		w = r
	}
	var tap *Rpc
	if e.wire != nil {
		tap = proto.Clone(r).(*Rpc)
	}
	// Writers are serialised so that the tap's order is the channel's order.
	select {
	case e.wlock <- struct{}{}:
	case <-ctx.Done():
		return ctx.Err()
	case <-e.writeFail:
		return e.writeErr
	}
	defer func() { <-e.wlock }()
	if e.wire != nil {
		// Log and send in one step with respect to the tap, so that the peer can never act on an
		// envelope (and have its response logged) before the envelope itself is in the log. Only when
		// the buffer is full does the write fall back to the blocking path below (log after send).
		e.wire.mu.Lock()
		select {
		case e.out <- w:
			e.wire.evs = append(e.wire.evs, WireEv{e.dirOut, tap})
			e.wire.mu.Unlock()
			e.mu.Lock()
			e.nWritten++
			e.mu.Unlock()
			return nil
		default:
			e.wire.mu.Unlock()
		}
	}
	select {
	case e.out <- w:
		if e.wire != nil {
			e.wire.mu.Lock()
			e.wire.evs = append(e.wire.evs, WireEv{e.dirOut, tap})
			e.wire.mu.Unlock()
		}
		e.mu.Lock()
		e.nWritten++
		e.mu.Unlock()
		return nil
	case <-ctx.Done():
		return ctx.Err()
	case <-e.writeFail:
		return e.writeErr
	}
}

// FailRead makes the current and every later Read fail.
func (e *End) FailRead(err error) {
	e.mu.Lock()
	defer e.mu.Unlock()
	select {
	case <-e.readFail:
	default:
		e.readErr = err
		close(e.readFail)
	}
}

// FailWrite makes the current and every later Write fail.
func (e *End) FailWrite(err error) {
	e.mu.Lock()
	defer e.mu.Unlock()
	select {
	case <-e.writeFail:
	default:
		e.writeErr = err
		close(e.writeFail)
	}
}

// FailReadAfter makes reads fail once n more envelopes have been delivered.
func (e *End) FailReadAfter(n int) {
	e.mu.Lock()
	e.readAfter = n
	e.mu.Unlock()
}

func (e *End) Counts() (read, written int) {
	e.mu.Lock()
	defer e.mu.Unlock()
	return e.nRead, e.nWritten
}

// Script is a transport end driven by the test itself: the "peer" is the
// scenario, which injects envelopes and observes what the library writes.
type Script struct {
	In  chan *Rpc // envelopes the library will Read
	Out chan *Rpc // envelopes the library wrote

	mu       sync.Mutex
	readFail chan struct{}
	readErr  error
	wFail    chan struct{}
	wErr     error
	reads    int
	readCond *sync.Cond
}

// WaitReads blocks until Read has been entered at least n times (the library came back for more
// input, so everything delivered before has been processed by its read loop).
func (s *Script) WaitReads(n int, timeout time.Duration) bool {
	stop := time.AfterFunc(timeout, func() { s.mu.Lock(); s.readCond.Broadcast(); s.mu.Unlock() })
	defer stop.Stop()
	deadline := time.Now().Add(timeout)
	s.mu.Lock()
	defer s.mu.Unlock()
	for s.reads < n {
		if time.Now().After(deadline) {
			return false
		}
		s.readCond.Wait()
	}
	return true
}

func (s *Script) Reads() int {
	s.mu.Lock()
	defer s.mu.Unlock()
	return s.reads
}

func NewScript(cap int) *Script {
	s := &Script{In: make(chan *Rpc, cap), Out: make(chan *Rpc, cap), readFail: make(chan struct{}), wFail: make(chan struct{})}
	s.readCond = sync.NewCond(&s.mu)
	return s
}

func (s *Script) Read(ctx context.Context) (*Rpc, error) {
	s.mu.Lock()
	s.reads++
	s.readCond.Broadcast()
	s.mu.Unlock()
	select {
	case <-s.readFail:
		return nil, s.readErr
	default:
	}
	select {
	case r := <-s.In:
		return r, nil
	case <-ctx.Done():
		return nil, ctx.Err()
	case <-s.readFail:
		return nil, s.readErr
	}
}

func (s *Script) Write(ctx context.Context, r *Rpc) error {
	if err := ctx.Err(); err != nil {
		return err
	}
	select {
	case <-s.wFail:
		return s.wErr
	default:
	}
	select {
	case s.Out <- proto.Clone(r).(*Rpc):
		return nil
	case <-ctx.Done():
		return ctx.Err()
	case <-s.wFail:
		return s.wErr
	}
}

func (s *Script) FailRead(err error) {
	s.mu.Lock()
	defer s.mu.Unlock()
	select {
	case <-s.readFail:
	default:
		s.readErr = err
		close(s.readFail)
	}
}

func (s *Script) FailWrite(err error) {
	s.mu.Lock()
	defer s.mu.Unlock()
	select {
	case <-s.wFail:
	default:
		s.wErr = err
		close(s.wFail)
	}
}
