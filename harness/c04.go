package main

import (
	"context"
	"encoding/base64"
	"fmt"
	"io"
	"math/rand"
	"sort"
	"strings"
	"time"

	goat "github.com/avos-io/goat"
	"github.com/avos-io/goat/gen/goatorepo"
	"github.com/avos-io/goat/internal"
	"github.com/avos-io/goat/internal/server"
	"google.golang.org/grpc"
	"google.golang.org/grpc/metadata"
)

func init() { register("C04", runC04) }

func implToMetadata(kvs []*goatorepo.KeyValue) string {
	md, err := internal.ToMetadata(kvs)
	if err != nil {
		return "ERR"
	}
	return mdCanon(md)
}

func runC04(r *Run) {
	if r.Want("pure") {
		c04Pure(r)
	}
	if r.Want("uts") {
		c04UnaryTransportStream(r)
	}
	if r.Want("e2e") {
		c04EndToEnd(r)
	}
	topoSweep(r, "metadata")
}

// c04UnaryTransportStream drives the real unaryServerTransportStream (what grpc.SetHeader /
// SendHeader / SetTrailer reach in a unary handler) with operation sequences over a small POOL of
// metadata objects, so that the same object is handed in several times (to SetHeader and to
// SetTrailer, before and after other calls) and its value slices have spare capacity — the usage
// patterns under which a collector that shares storage with its caller goes wrong. The model joins
// values; the lock-step compares what GetHeaders / GetTrailers return in the end.
func c04UnaryTransportStream(r *Run) {
	rng := r.Rand("c04.uts")
	n := r.Scale(1500, 60000)
	for i := 0; i < n; i++ {
		pool := make([]metadata.MD, 2+rng.Intn(2))
		ins := make([]string, len(pool))
		for j := range pool {
			md := metadata.MD{}
			for _, k := range []string{"route", "k-bin", "x"}[:1+rng.Intn(3)] {
				// value counts that leave spare capacity in the slice (3 of 4) or fill a spare slot exactly (1)
				nv := []int{3, 1, 1, 2, 4, 3}[rng.Intn(6)]
				if j == 0 && rng.Intn(2) == 0 {
					nv = 3
				}
				for v := 0; v < nv; v++ {
					if k == "k-bin" {
						md.Append(k, genBinValue(rng))
					} else {
						md.Append(k, genTextValue(rng))
					}
				}
			}
			pool[j] = md
			ins[j] = mdInput(md)
		}
		sts := server.NewUnaryServerTransportStream("/verif.Echo/Unary")
		k := 1 + rng.Intn(6)
		ops := make([]string, k)
		rets := make([]string, k)
		// the monitor's own bookkeeping: per key the values of the accepted calls in call order (deep copies)
		wantH, wantT := map[string][]string{}, map[string][]string{}
		sent := false
		note := func(dst map[string][]string, md metadata.MD) {
			for kk, vs := range md {
				dst[kk] = append(dst[kk], append([]string(nil), vs...)...)
			}
		}
		for j := 0; j < k; j++ {
			p := rng.Intn(len(pool))
			var err error
			pick := rng.Intn(5)
			if i%2 == 0 && j < 2 { // the same object first to the header and to the trailer collector
				p, pick = 0, []int{0, 4}[j]
			}
			switch pick {
			case 0, 1:
				ops[j] = fmt.Sprintf("H%d", p)
				if !sent {
					note(wantH, pool[p])
				}
				err = sts.SetHeader(pool[p])
			case 2:
				ops[j] = fmt.Sprintf("S%d", p)
				if !sent {
					note(wantH, pool[p])
				}
				sent = true
				err = sts.SendHeader(pool[p])
			default:
				ops[j] = fmt.Sprintf("T%d", p)
				note(wantT, pool[p])
				err = sts.SetTrailer(pool[p])
			}
			rets[j] = "ok"
			if err != nil {
				rets[j] = "err"
			}
		}
		out := "hdr=" + mdCanon(sts.GetHeaders()) + "~tr=" + mdCanon(sts.GetTrailers()) + "~" + strings.Join(rets, ",")
		r.Case("utsrun", strings.Join(ins, "#")+"|"+strings.Join(ops, "/"), out)
		if mdCanon(sts.GetHeaders()) != mdCanon(wantH) || mdCanon(sts.GetTrailers()) != mdCanon(wantT) {
			r.Violate("uts.collected", "ops", "headers/trailers collected for a unary handler differ from the values set, in call order", map[string]any{"pool": ins, "ops": ops}, out, "hdr="+mdCanon(wantH)+"~tr="+mdCanon(wantT))
		}
		r.CountN("uts.ops", k)
		// the caller's own objects must not have been changed by the collector
		for j := range pool {
			if mdInput(pool[j]) != ins[j] {
				r.Violate("uts.caller_md_changed", "ops", "a metadata object passed to SetHeader/SetTrailer was modified by the library", strings.Join(ops, "/"), mdInput(pool[j]), ins[j])
			}
		}
	}
}

func c04Pure(r *Run) {
	rng := r.Rand("c04.pure")
	n := r.Scale(3000, 200000)
	for i := 0; i < n; i++ {
		md := genMD(rng, 16, true)
		in := mdInput(md)
		kvs := internal.ToKeyValue(md)
		r.Case("tokv", in, kvGrouped(kvs))
		r.Case("mdrt", in, implToMetadata(kvs))
		lmd, collide := metadata.MD{}, false
		for k, v := range md {
			lk := strings.ToLower(k)
			if _, dup := lmd[lk]; dup {
				collide = true
			}
			lmd[lk] = v
		}
		if i%3 == 0 && !collide {
			// grpc's outgoing context hands the metadata over with lower-cased keys
			in := mdInput(lmd)
			// the request header list (client.go headersFromContext, model Goat.ReqHeaders): the same
			// metadata part whether or not the context has a deadline, and then the one timeout entry
			ctx := metadata.NewOutgoingContext(context.Background(), md)
			var cancel context.CancelFunc = func() {}
			withDeadline := i%2 == 0
			if withDeadline {
				ctx, cancel = context.WithTimeout(ctx, time.Duration(1+rng.Intn(3600))*time.Second)
			}
			hk := goat.VerifHeadersFromContext(ctx)
			cancel()
			nT := 0
			if withDeadline && len(hk) > 0 && hk[len(hk)-1].Key == "GRPC-Timeout" {
				hk, nT = hk[:len(hk)-1], 1
			}
			if (nT == 1) != withDeadline {
				r.Violate("reqhdrs.timeout", "ops", "the request header list does not end with exactly one GRPC-Timeout entry iff the context has a deadline", in, kvInput(hk), withDeadline)
			}
			r.Case("tokv", in, kvGrouped(hk))
			r.Count(fmt.Sprintf("reqhdrs.deadline=%v", withDeadline))
		}
		r.CountN("pure.keys", len(md))
		for k := range md {
			if strings.HasSuffix(strings.ToLower(k), "-bin") {
				r.Count("pure.binkeys")
			}
		}
		// the monitor itself: what comes back is lower(md)
		got, err := internal.ToMetadata(kvs)
		want := lowerMD(md)
		if err != nil || mdCanon(got) != mdCanon(want) {
			r.Violate("pure.roundtrip", "ops", "ToMetadata(ToKeyValue(md)) differs from lower-cased md", in, implToMetadata(kvs), mdCanon(want))
		}
	}
	// base64 on its own, all small lengths plus random
	m := r.Scale(1500, 100000)
	for i := 0; i < m; i++ {
		var b []byte
		if i < 64 {
			b = make([]byte, i%8)
			for j := range b {
				b[j] = byte(i * 37 * (j + 1))
			}
		} else {
			b = []byte(genBinValue(rng))
		}
		enc := base64.URLEncoding.EncodeToString(b)
		r.Case("b64enc", hx(b), hxs(enc))
		r.Case("b64dec", hxs(enc), hx(b))
	}
	// malformed stream: decoder agreement on arbitrary and mutated input
	for i := 0; i < m; i++ {
		var s []byte
		switch rng.Intn(4) {
		case 0: // random over the alphabet plus padding/newlines
			const al = "ABCDEFGHIJKLMNOPQRSTUVWXYZabcdefghijklmnopqrstuvwxyz0123456789-_=\r\n+/ "
			s = make([]byte, rng.Intn(13))
			for j := range s {
				s[j] = al[rng.Intn(len(al))]
			}
		case 1: // valid with one mutation
			s = []byte(base64.URLEncoding.EncodeToString([]byte(genBinValue(rng))))
			if len(s) > 0 {
				switch rng.Intn(4) {
				case 0:
					s[rng.Intn(len(s))] = byte(rng.Intn(256))
				case 1:
					s = s[:rng.Intn(len(s))]
				case 2:
					p := rng.Intn(len(s) + 1)
					s = append(s[:p:p], append([]byte{"\n\r=A"[rng.Intn(4)]}, s[p:]...)...)
				case 3:
					s = append(s, '=')
				}
			}
		case 2:
			s = make([]byte, rng.Intn(9))
			rng.Read(s)
		case 3: // valid
			s = []byte(base64.URLEncoding.EncodeToString([]byte(genBinValue(rng))))
		}
		dec, err := base64.URLEncoding.DecodeString(string(s))
		out := "ERR"
		if err == nil {
			out = hx(dec)
			r.Count("b64dec.accepted")
		} else {
			r.Count("b64dec.rejected")
		}
		r.Case("b64dec", hx(s), out)
	}
	// ToMetadata on raw key/value lists, including bad base64 under -bin keys
	for i := 0; i < m; i++ {
		nk := rng.Intn(5)
		kvs := make([]*goatorepo.KeyValue, nk)
		for j := range kvs {
			bin := rng.Intn(2) == 0
			k := randCase(rng, genKey(rng, bin))
			var v string
			if bin && rng.Intn(3) > 0 {
				v = base64.URLEncoding.EncodeToString([]byte(genBinValue(rng)))
				if rng.Intn(4) == 0 && len(v) > 0 {
					v = v[:len(v)-1]
				}
			} else {
				v = genTextValue(rng)
			}
			kvs[j] = &goatorepo.KeyValue{Key: k, Value: v}
		}
		inp := kvInput(kvs) // before the call: the code is handed the very slice
		out := implToMetadata(kvs)
		if out == "ERR" {
			r.Count("tomd.err")
		} else {
			r.Count("tomd.ok")
		}
		r.Case("tomd", inp, out)
	}
}

// ---- end to end ----

type hdrPlan struct {
	Sets     []metadata.MD // SetHeader calls, in order
	Mode     string        // send | firstmsg | trailer | grpcapi
	Trailers []metadata.MD // SetTrailer calls
	Fail     bool          // handler returns an error at the end
	Reject   bool          // streams: the handler's first SendMsg is one the codec rejects (not a proto message); it carries on
}

// spellings fixes one spelling per lower-cased key so that keys differing only by case never occur (I3).
func genPlan(rng *rand.Rand) hdrPlan {
	p := hdrPlan{Mode: []string{"send", "firstmsg", "trailer", "grpcapi"}[rng.Intn(4)], Fail: rng.Intn(4) == 0, Reject: rng.Intn(4) == 0}
	spell := map[string]string{}
	fix := func(md metadata.MD) metadata.MD {
		out := metadata.MD{}
		for k, v := range md {
			lk := strings.ToLower(k)
			if s, ok := spell[lk]; ok {
				k = s
			} else {
				spell[lk] = k
			}
			out[k] = append(out[k], v...)
		}
		return out
	}
	for i, n := 0, rng.Intn(4); i < n; i++ {
		p.Sets = append(p.Sets, fix(genMD(rng, 4, true)))
	}
	// every other plan with two or more SetHeader calls repeats a key of the first call in the last one
	// (the one that becomes SendHeader in the send / grpcapi modes): the values keep the order of the calls
	if len(p.Sets) >= 2 && rng.Intn(2) == 0 {
		keys := make([]string, 0, len(p.Sets[0]))
		for k := range p.Sets[0] {
			keys = append(keys, k)
		}
		sort.Strings(keys)
		if len(keys) > 0 {
			k := keys[rng.Intn(len(keys))]
			last := p.Sets[len(p.Sets)-1]
			for k2 := range last {
				if strings.EqualFold(k2, k) {
					delete(last, k2)
				}
			}
			if strings.HasSuffix(strings.ToLower(k), "-bin") {
				last[k] = []string{genBinValue(rng), genBinValue(rng)}
			} else {
				last[k] = []string{genTextValue(rng), genTextValue(rng)}
			}
		}
	}
	for i, n := 0, rng.Intn(3); i < n; i++ {
		p.Trailers = append(p.Trailers, fix(genMD(rng, 4, true)))
	}
	return p
}

func planString(p hdrPlan, req metadata.MD, kind string) map[string]any {
	sets := []string{}
	for _, s := range p.Sets {
		sets = append(sets, mdInput(s))
	}
	trs := []string{}
	for _, s := range p.Trailers {
		trs = append(trs, mdInput(s))
	}
	return map[string]any{"kind": kind, "request_md": mdInput(req), "set_header": sets, "mode": p.Mode, "set_trailer": trs, "fail": p.Fail, "first_send_rejected_by_codec": p.Reject}
}

// c04Deadline: the next c04One call runs under a (distant) deadline.
var c04Deadline bool

func c04EndToEnd(r *Run) {
	rng := r.Rand("c04.e2e")
	n := r.Scale(160, 8000)
	for _, serialise := range []bool{true, false} {
		crec := NewRecorder("c")
		rig := NewRig(RigOpt{Serialise: serialise, DialOpts: []goat.DialOption{goat.WithStatsHandler(crec)}})
		for i := 0; i < n/2; i++ {
			kind := []string{"unary", mBidi, mSrvStream, mCliStream}[i%4]
			reqMD := genMD(rng, 8, true)
			// keys of the "grpc-" namespace are metadata like any other (grpc-trace-bin and grpc-tags-bin are
			// what tracing libraries attach), and some calls have a deadline as well
			if rng.Intn(3) == 0 {
				reqMD.Append("grpc-trace-bin", genBinValue(rng))
				if rng.Intn(2) == 0 {
					reqMD.Append("Grpc-X-Note", genTextValue(rng), genTextValue(rng))
				}
			}
			c04Deadline = rng.Intn(3) == 0
			plan := genPlan(rng)
			r.Progress("e2e", planString(plan, reqMD, kind))
			c04One(r, rig, crec, kind, reqMD, plan, serialise)
			if r.NumViolations() > 3 {
				break
			}
		}
		if !rig.Close() {
			r.Violate("e2e.close", "history", "Serve did not return after the rig was closed", nil, nil, nil)
		}
	}
}

func c04One(r *Run, rig *Rig, crec *Recorder, kind string, reqMD metadata.MD, plan hdrPlan, serialise bool) {
	var seenReq map[string][]string
	rejectAccepted := false
	_ = rejectAccepted
	handlerErr := fmt.Errorf("planned failure")
	applyHeaders := func(ctx context.Context, ss grpc.ServerStream) {
		for i, md := range plan.Sets {
			last := i == len(plan.Sets)-1
			switch {
			case plan.Mode == "grpcapi":
				if last {
					grpc.SendHeader(ctx, md)
				} else {
					grpc.SetHeader(ctx, md)
				}
			case ss != nil && plan.Mode == "send" && last:
				ss.SendHeader(md)
			case ss != nil:
				ss.SetHeader(md)
			default:
				grpc.SetHeader(ctx, md)
			}
		}
		for _, md := range plan.Trailers {
			if ss != nil && plan.Mode != "grpcapi" {
				ss.SetTrailer(md)
			} else {
				grpc.SetTrailer(ctx, md)
			}
		}
	}
	rig.Impl.SetUnary(func(ctx context.Context, req []byte) ([]byte, error) {
		md, _ := metadata.FromIncomingContext(ctx)
		seenReq = withoutKeys(md, "grpc-timeout")
		applyHeaders(ctx, nil)
		if plan.Fail {
			return nil, handlerErr
		}
		return req, nil
	})
	rig.Impl.SetStream(func(method string, ss grpc.ServerStream) error {
		md, _ := metadata.FromIncomingContext(ss.Context())
		seenReq = withoutKeys(md, "grpc-timeout")
		applyHeaders(ss.Context(), ss)
		if method != mSrvStream || true {
			// consume the client's messages (one for server streams) until EOF
			for {
				if _, err := recvB(ss); err != nil {
					break
				}
			}
		}
		if plan.Reject {
			// a message the codec cannot marshal: SendMsg fails, nothing leaves, the stream carries on
			if err := ss.SendMsg("not a proto message"); err == nil {
				rejectAccepted = true
			}
		}
		if method != mCliStream || !plan.Fail {
			sendB(ss, []byte("x"))
		}
		if plan.Fail {
			return handlerErr
		}
		return nil
	})

	ctx := metadata.NewOutgoingContext(context.Background(), reqMD)
	if c04Deadline {
		var cancel context.CancelFunc
		ctx, cancel = context.WithTimeout(ctx, time.Hour)
		defer cancel()
		r.Count("e2e.with_deadline")
	}
	crec.Reset()
	before := len(rig.Wire.Snapshot())
	wantReq := withoutKeys(lowerMD(reqMD))
	wantHdr := withoutKeys(lowerMD(plan.Sets...))
	wantTr := withoutKeys(lowerMD(plan.Trailers...))
	key := fmt.Sprintf("%s/%s/%d/%d/%d/%v/%v", kind, plan.Mode, len(reqMD), len(plan.Sets), len(plan.Trailers), plan.Fail, serialise)
	nontrivial := len(reqMD)+len(plan.Sets)+len(plan.Trailers) > 0
	r.Eval("e2e/"+key+"/"+mdInput(reqMD), nontrivial)
	r.Count("e2e." + kind)
	r.Count("e2e.mode." + plan.Mode)
	input := planString(plan, reqMD, kind)
	if c04Deadline {
		input["deadline"] = "1h"
	}

	var gotHdr, gotTr map[string][]string
	haveClientHdr := false
	if kind == "unary" {
		_, err := callUnary(ctx, rig.CC, []byte("p"))
		if (err != nil) != plan.Fail {
			r.Violate("e2e.unary", "ops", "unexpected outcome", input, fmt.Sprint(err), plan.Fail)
		}
		for _, e := range crec.Events() {
			if e.Kind == "InHeader" {
				gotHdr = withoutKeys(e.MD)
				haveClientHdr = true
			}
		}
	} else {
		cs, err := rig.CC.NewStream(ctx, descOf(kind), kind)
		if err != nil {
			r.Violate("e2e.stream.open", "ops", "open failed", input, err.Error(), nil)
			return
		}
		sendB(cs, []byte("m"))
		cs.CloseSend()
		var last error
		for {
			if _, err := recvB(cs); err != nil {
				last = err
				break
			}
		}
		if (last != io.EOF) != plan.Fail {
			r.Violate("e2e.stream", "ops", "unexpected terminal result", input, fmt.Sprint(last), plan.Fail)
		}
		h, herr := cs.Header()
		if herr != nil {
			r.Violate("e2e.stream.header", "ops", "Header() failed", input, herr.Error(), nil)
		}
		gotHdr = withoutKeys(h)
		haveClientHdr = true
		gotTr = withoutKeys(cs.Trailer())
		if mdCanon(gotTr) != mdCanon(wantTr) {
			r.Violate("e2e.trailer", "ops", "Trailer() differs from what the handler set", input, mdCanon(gotTr), mdCanon(wantTr))
		}
	}
	if mdCanon(seenReq) != mdCanon(wantReq) {
		r.Violate("e2e.request_md", "ops", "handler's incoming metadata differs from the caller's", input, mdCanon(seenReq), mdCanon(wantReq))
	}
	if kind == "unary" && !haveClientHdr && len(wantHdr) > 0 {
		// a unary caller sees response headers through its stats handler only: they are on the reply
		// envelope whatever the final status is
		r.Violate("e2e.header", "ops", "the handler's response headers were never shown to the unary caller (no InHeader event)", input, "no InHeader", mdCanon(wantHdr))
	}
	if haveClientHdr && mdCanon(gotHdr) != mdCanon(wantHdr) {
		r.Violate("e2e.header", "ops", "headers seen by the caller differ from what the handler set", input, mdCanon(gotHdr), mdCanon(wantHdr))
	}
	// wire: response metadata only on the first response envelope; trailer metadata on the trailer
	evs := rig.Wire.Snapshot()[before:]
	first := true
	var wireTr map[string][]string
	for _, e := range evs {
		if e.Dir != "s2c" {
			continue
		}
		hk := e.Rpc.GetHeader().GetHeaders()
		if first {
			md, err := internal.ToMetadata(hk)
			if err != nil || mdCanon(withoutKeys(md)) != mdCanon(wantHdr) {
				r.Violate("e2e.wire.header", "history", "first response envelope does not carry the handler's headers", input, kvInput(hk), mdCanon(wantHdr))
			}
			first = false
		} else if len(hk) != 0 {
			r.Violate("e2e.wire.header_twice", "history", "response metadata on a later envelope", input, kvInput(hk), "_")
		}
		if e.Rpc.GetTrailer() != nil {
			md, _ := internal.ToMetadata(e.Rpc.GetTrailer().GetMetadata())
			wireTr = withoutKeys(md)
		}
	}
	if mdCanon(wireTr) != mdCanon(wantTr) {
		r.Violate("e2e.wire.trailer", "history", "trailer metadata on the wire differs from what the handler set", input, mdCanon(wireTr), mdCanon(wantTr))
	}
}
