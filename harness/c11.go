package main

import (
	"bytes"
	"context"
	"errors"
	"fmt"
	"io"
	"strings"
	"sync"
	"time"

	goat "github.com/avos-io/goat"
	"github.com/avos-io/goat/gen/goatorepo"
	"google.golang.org/grpc"
	"google.golang.org/grpc/codes"
	"google.golang.org/grpc/metadata"
	"google.golang.org/grpc/status"
	"google.golang.org/protobuf/proto"
	"google.golang.org/protobuf/types/known/wrapperspb"
)

// C11 — an abandoned stream never wedges its connection.
//
// Families (monitor probeCompletes: a unary call with a 3 s deadline started after the abandonment
// returns its exact answer; the RPCs that were in flight complete with their exact results)
//   early    the handler returns after k of the n messages its caller sends (all 0 <= k < n; all three
//            streaming kinds — for a server-streaming method this is the generated handler that reads one
//            message and returns while the peer sends more), the caller sends everything and
//            half-closes. Forced ordering (strand D, early_return): the
//            handler's return is held until "srv.forward.enter" has been logged k+2 times for the
//            stream, i.e. message k+1 sits in the stream's queue and the read loop is parked in the
//            forwarding select for the next envelope, holding the registry lock. Also run unforced.
//   cancel   the handler sends m+extra messages, the caller reads extra of them and then never reads
//            again; once m are queued (mux.deliver / mux.beforeDeliver counts: one offered to RecvMsg,
//            one in the call's queue, the read loop parked on the third) the caller cancels (or its
//            deadline expires).
//   peer     a scripted peer sends more than expected: bodies after its trailer, after a reset, for
//            finished and never-opened ids — against the real server and against the real client.
//   idle     KNOWN FINDING #10: a caller that neither reads nor cancels while the server bursts parks
//            the client's read loop; a probe with a deadline gets DeadlineExceeded. Reported with
//            KnownFinding, a violation only if the probe hangs beyond its deadline. Cancelling the idle
//            caller afterwards must free the connection.

func init() { register("C11", runC11) }

const c11ProbeDeadline = 3 * time.Second

type c11ProbeRes struct {
	out []byte
	err error
}

// c11Probe starts a unary call with a deadline; the result arrives on the channel.
func c11Probe(cc grpc.ClientConnInterface, req string, d time.Duration) chan c11ProbeRes {
	ch := make(chan c11ProbeRes, 1)
	go func() {
		ctx, cancel := context.WithTimeout(context.Background(), d)
		defer cancel()
		out, err := callUnary(ctx, cc, []byte(req))
		ch <- c11ProbeRes{out, err}
	}()
	return ch
}

func c11IsDeadline(err error) bool {
	return errors.Is(err, context.DeadlineExceeded) || status.Code(err) == codes.DeadlineExceeded
}

// c11CheckProbe is the probeCompletes monitor for a connection on which nobody is idle.
func c11CheckProbe(r *Run, scen string, in any, req string, ch chan c11ProbeRes, d time.Duration) bool {
	select {
	case res := <-ch:
		switch {
		case res.err == nil && bytes.Equal(res.out, unaryF([]byte(req))):
			r.Count("c11.probe.ok")
			return true
		case res.err == nil:
			r.Violate(scen+".probe-wrong", "schedule", "the call started after the abandonment returned something other than its answer", in, fmt.Sprintf("%x", res.out), fmt.Sprintf("%x", unaryF([]byte(req))))
		case c11IsDeadline(res.err):
			r.Violate(scen+".wedged", "schedule", fmt.Sprintf("the connection is blocked: a unary call started after the abandonment got DeadlineExceeded after %v", d), in,
				map[string]any{"error": res.err.Error(), "events": c11Events()}, goroutineDump())
		default:
			r.Violate(scen+".probe-failed", "schedule", "the call started after the abandonment failed", in, res.err.Error(), nil)
		}
		return false
	case <-time.After(d + hangTimeout):
		r.Violate(scen+".probe-hangs", "schedule", "the connection is blocked: a unary call with a deadline started after the abandonment neither completed nor failed, long after its deadline", in,
			map[string]any{"events": c11Events()}, goroutineDump())
		return false
	}
}

func c11Events() []string {
	evs := hooks.Events()
	if len(evs) > 80 {
		evs = evs[len(evs)-80:]
	}
	out := make([]string, len(evs))
	for i, e := range evs {
		out[i] = e.String()
	}
	return out
}

// c11CountAtLeast returns a predicate for hooks.WaitFor that holds once n matching events were seen.
func c11CountAtLeast(site string, id uint64, n int) func(Event) bool {
	seen := 0
	return func(e Event) bool {
		if e.Site == site && e.ID == id {
			seen++
		}
		return seen >= n
	}
}

func c11LastStreamAlloc() uint64 {
	var id uint64
	for _, e := range hooks.Events() {
		if e.Site == "mux.alloc" && e.Detail == "stream" {
			id = e.ID
		}
	}
	return id
}

// ---- bystanders: RPCs in flight during the abandonment ----

type c11By struct {
	kind, name string
	done       chan struct{}
	ok         bool
	detail     string
}

// c11Bystanders starts n RPCs (unary and bidirectional echo streams alternately) whose handlers wait
// at the gate; arrived receives one value per handler that is in flight.
func c11Bystanders(rig *Rig, n int, release chan struct{}) []*c11By {
	var bys []*c11By
	for i := 0; i < n; i++ {
		b := &c11By{name: fmt.Sprintf("by%d", i), done: make(chan struct{})}
		bys = append(bys, b)
		if i%2 == 0 {
			b.kind = "unary"
			go func() {
				defer close(b.done)
				out, err := callUnary(context.Background(), rig.CC, []byte(b.name))
				b.ok = err == nil && bytes.Equal(out, unaryF([]byte(b.name)))
				b.detail = fmt.Sprintf("err=%v out=%x", err, out)
			}()
			continue
		}
		b.kind = "stream"
		go func() {
			defer close(b.done)
			ctx := metadata.AppendToOutgoingContext(context.Background(), "x-tag", b.name, "x-prog", "echo")
			cs, err := rig.CC.NewStream(ctx, descBidi, mBidi)
			if err != nil {
				b.detail = "open: " + err.Error()
				return
			}
			<-release
			var sent, got [][]byte
			for j := 0; j < 2; j++ {
				m := cliMsg(b.name, j)
				if err := sendB(cs, m); err != nil {
					b.detail = "send: " + err.Error()
					return
				}
				sent = append(sent, m)
			}
			cs.CloseSend()
			for {
				m, err := recvB(cs)
				if err != nil {
					b.ok = err == io.EOF && seqEqual(got, sent)
					b.detail = fmt.Sprintf("terminal=%v received=%s", err, seqStr(got))
					return
				}
				got = append(got, m)
			}
		}()
	}
	return bys
}

func c11CheckBystanders(r *Run, scen string, in any, bys []*c11By) bool {
	if !within(hangTimeout, func() {
		for _, b := range bys {
			<-b.done
		}
	}) {
		r.Violate(scen+".others-hang", "schedule", "an RPC that was in flight on the connection during the abandonment did not complete", in, nil, goroutineDump())
		return false
	}
	ok := true
	for _, b := range bys {
		if !b.ok {
			ok = false
			r.Violate(scen+".others-wrong", "schedule", "an RPC that was in flight on the connection during the abandonment did not complete with its exact result", in, b.kind+" "+b.name+": "+b.detail, nil)
		}
	}
	return ok
}

// c11Rig makes a rig whose handlers run the x-prog programs; handlers of bystanders ("by…") wait at
// the gate until release is closed.
func c11Rig(release chan struct{}, arrived chan string) (*Rig, *HandlerLog) {
	rig := NewRig(RigOpt{Serialise: true})
	log := NewHandlerLog()
	InstallPrograms(rig.Impl, log, func(tag string) {
		if strings.HasPrefix(tag, "by") {
			arrived <- tag
			<-release
		}
	})
	return rig, log
}

// c11Close closes the rig and, on a healthy connection, waits until its client read loop has gone, so
// that no event of this connection appears in the next case's log.
func c11Close(rig *Rig, healthy bool) {
	rig.Close()
	if healthy {
		hooks.WaitFor(siteIs("mux.fail", 0), hangTimeout)
	}
}

func c11WaitArrived(arrived chan string, n int) bool {
	return within(hangTimeout, func() {
		for i := 0; i < n; i++ {
			<-arrived
		}
	})
}

// ---- (a) the handler returns early ----

func c11Early(r *Run, method string, k, n, bystanders int, forced bool) bool {
	scen := "early"
	in := map[string]any{"method": method, "handlerReturnsAfter": k, "callerSends": n, "othersInFlight": bystanders, "forced": forced,
		"schedule": "hold the handler's return until srv.forward.enter has been logged k+2 times for the stream (read loop parked in the forwarding select, registry lock held), then let it return"}
	if !forced {
		delete(in, "schedule")
	}
	r.Progress(scen, in)
	hooks.Reset(true)
	defer hooks.Reset(false)
	release := make(chan struct{})
	arrived := make(chan string, 16)
	rig, _ := c11Rig(release, arrived)
	healthy := false
	defer func() { c11Close(rig, healthy) }()
	var relOnce sync.Once
	releaseAll := func() { relOnce.Do(func() { close(release) }) }
	defer releaseAll()

	programDone := make(chan struct{})
	releaseReturn := make(chan struct{})
	var retOnce sync.Once
	letReturn := func() { retOnce.Do(func() { close(releaseReturn) }) }
	defer letReturn()
	inner := rig.Impl.getStream()
	rig.Impl.SetStream(func(m string, ss grpc.ServerStream) error {
		err := inner(m, ss)
		if mdGet(ss.Context(), "x-tag") == "victim" {
			close(programDone)
			<-releaseReturn
		}
		return err
	})
	if !forced {
		letReturn()
	}

	bys := c11Bystanders(rig, bystanders, release)
	if !c11WaitArrived(arrived, bystanders) {
		r.Violate(scen+".setup", "schedule", "RPCs on a healthy connection did not reach their handlers", in, nil, goroutineDump())
		return false
	}
	// the caller sends all n messages, half-closes, then receives until the end — whatever the method's
	// declared kind: a server-streaming handler reads one message and returns, a peer may send more
	victimDone := make(chan string, 1)
	go func() {
		ctx := metadata.AppendToOutgoingContext(context.Background(), "x-tag", "victim", "x-prog", fmt.Sprintf("early:%d", k))
		cs, err := rig.CC.NewStream(ctx, descOf(method), method)
		if err != nil {
			victimDone <- "open: " + err.Error()
			return
		}
		for i := 0; i < n; i++ {
			if sendB(cs, cliMsg("victim", i)) != nil {
				break
			}
		}
		cs.CloseSend()
		for {
			if _, err := recvB(cs); err != nil {
				if err == io.EOF {
					victimDone <- "EOF"
				} else {
					victimDone <- err.Error()
				}
				return
			}
		}
	}()
	select {
	case <-programDone:
	case <-time.After(hangTimeout):
		r.Violate(scen+".setup", "schedule", "the handler did not get its k messages on a healthy connection", in, c11Events(), goroutineDump())
		return false
	}
	vid := c11LastStreamAlloc()
	if forced {
		if hooks.WaitFor(c11CountAtLeast("srv.forward.enter", vid, k+2), hangTimeout) {
			r.Count("c11.early.forced.parked")
		} else {
			r.Count("c11.early.forced.not-parked")
		}
		letReturn()
	}
	// the abandonment: the handler has returned
	if !hooks.WaitFor(siteIs("srv.handler.returned", vid), hangTimeout) {
		r.Violate(scen+".setup", "schedule", "the handler's return was not observed", in, c11Events(), goroutineDump())
		return false
	}
	probe := "probe-after-early-return"
	if !c11CheckProbe(r, scen, in, probe, c11Probe(rig.CC, probe, c11ProbeDeadline), c11ProbeDeadline) {
		return false
	}
	releaseAll()
	if !c11CheckBystanders(r, scen, in, bys) {
		return false
	}
	select {
	case term := <-victimDone:
		r.Count("c11.early.caller." + map[bool]string{true: "eof", false: "other"}[term == "EOF"])
	case <-time.After(hangTimeout):
		r.Count("c11.early.caller.stuck")
	}
	for _, e := range hooks.Events() {
		if e.Site == "srv.forward.dropped" && e.ID == vid {
			r.Count("c11.early.dropped-branch")
			break
		}
	}
	healthy = true
	r.Eval(fmt.Sprintf("early/%s/%d/%d/%d/%v", method, k, n, bystanders, forced), true)
	r.Count("c11.early.cases")
	if forced {
		r.Trace()
	}
	return true
}

// ---- (b) the caller cancels with responses unread ----

type c11Yields struct {
	mu   sync.Mutex
	n    map[uint64]int
	tick chan struct{}
}

func (y *c11Yields) hit(id uint64) {
	y.mu.Lock()
	y.n[id]++
	y.mu.Unlock()
	select {
	case y.tick <- struct{}{}:
	default:
	}
}

func (y *c11Yields) waitAtLeast(id uint64, n int, d time.Duration) bool {
	deadline := time.After(d)
	for {
		y.mu.Lock()
		got := y.n[id]
		y.mu.Unlock()
		if got >= n {
			return true
		}
		select {
		case <-y.tick:
		case <-deadline:
			return false
		}
	}
}

func c11Min(a, b int) int {
	if a < b {
		return a
	}
	return b
}

// c11OpenIdle opens a stream whose handler bursts total messages, reads extra of them, and waits until
// the rest is queued in the client. It returns the stream and its id.
func c11OpenIdle(r *Run, scen string, in any, rig *Rig, ctx context.Context, method string, unread, extra int, y *c11Yields) (grpc.ClientStream, uint64, bool) {
	ctx = metadata.AppendToOutgoingContext(ctx, "x-tag", "victim", "x-prog", fmt.Sprintf("burst:%d", unread+extra))
	cs, err := rig.CC.NewStream(ctx, descOf(method), method)
	if err != nil {
		r.Violate(scen+".setup", "schedule", "stream could not be opened on a healthy connection", in, err.Error(), nil)
		return nil, 0, false
	}
	vid := c11LastStreamAlloc()
	if method == mSrvStream {
		sendB(cs, []byte("request"))
		cs.CloseSend()
	}
	okRead := within(hangTimeout, func() {
		for i := 0; i < extra; i++ {
			if _, err := recvB(cs); err != nil {
				return
			}
		}
	})
	if !okRead {
		r.Violate(scen+".setup", "schedule", "the caller did not get the messages it reads before going idle", in, c11Events(), goroutineDump())
		return nil, 0, false
	}
	// unread messages: the first is offered to RecvMsg by the stream's read loop, the second sits in the
	// call's queue, the third parks the connection's read loop
	if !hooks.WaitFor(c11CountAtLeast("mux.deliver", vid, extra+c11Min(unread, 2)), hangTimeout) ||
		!y.waitAtLeast(vid, extra+c11Min(unread, 3), hangTimeout) {
		if ctx.Err() == nil {
			r.Violate(scen+".setup", "schedule", "the handler's messages did not reach the client on a healthy connection", in, c11Events(), goroutineDump())
			return nil, 0, false
		}
	}
	return cs, vid, true
}

func c11Cancel(r *Run, method string, m, extra, bystanders int, how string) bool {
	scen := "cancel"
	in := map[string]any{"method": method, "unread": m, "readBefore": extra, "othersInFlight": bystanders, "abandon": how,
		"schedule": "wait until min(m,2) mux.deliver events and min(m,3) passages of mux.beforeDeliver beyond the messages read, then cancel"}
	r.Progress(scen, in)
	hooks.Reset(true)
	defer hooks.Reset(false)
	y := &c11Yields{n: map[uint64]int{}, tick: make(chan struct{}, 1)}
	hooks.OnYield("mux.beforeDeliver", y.hit)
	release := make(chan struct{})
	arrived := make(chan string, 16)
	rig, _ := c11Rig(release, arrived)
	healthy := false
	defer func() { c11Close(rig, healthy) }()
	var relOnce sync.Once
	releaseAll := func() { relOnce.Do(func() { close(release) }) }
	defer releaseAll()

	bys := c11Bystanders(rig, bystanders, release)
	if !c11WaitArrived(arrived, bystanders) {
		r.Violate(scen+".setup", "schedule", "RPCs on a healthy connection did not reach their handlers", in, nil, goroutineDump())
		return false
	}
	ctx, cancel := context.WithCancel(context.Background())
	if how == "deadline" {
		ctx, cancel = context.WithTimeout(context.Background(), 150*time.Millisecond)
	}
	defer cancel()
	_, _, ok := c11OpenIdle(r, scen, in, rig, ctx, method, m, extra, y)
	if !ok {
		return false
	}
	if how == "deadline" {
		<-ctx.Done()
	} else {
		cancel()
	}
	probe := "probe-after-cancel"
	if !c11CheckProbe(r, scen, in, probe, c11Probe(rig.CC, probe, c11ProbeDeadline), c11ProbeDeadline) {
		return false
	}
	releaseAll()
	if !c11CheckBystanders(r, scen, in, bys) {
		return false
	}
	healthy = true
	r.Eval(fmt.Sprintf("cancel/%s/%d/%d/%d/%s", method, m, extra, bystanders, how), true)
	r.Count("c11.cancel.cases")
	if m >= 3 {
		r.Count("c11.cancel.readloop-parked")
		r.Trace()
	}
	return true
}

// ---- (d) known finding: a caller that neither reads nor cancels ----

func c11Idle(r *Run) bool {
	scen := "idle"
	in := map[string]any{"method": mBidi, "handler": "burst:5", "caller": "opens the stream, never calls RecvMsg, does not cancel", "probeDeadline": "1s"}
	r.Progress(scen, in)
	hooks.Reset(true)
	defer hooks.Reset(false)
	y := &c11Yields{n: map[uint64]int{}, tick: make(chan struct{}, 1)}
	hooks.OnYield("mux.beforeDeliver", y.hit)
	release := make(chan struct{})
	close(release)
	rig, _ := c11Rig(release, make(chan string, 1))
	healthy := false
	defer func() { c11Close(rig, healthy) }()
	ctx, cancel := context.WithCancel(context.Background())
	defer cancel()
	if _, _, ok := c11OpenIdle(r, scen, in, rig, ctx, mBidi, 5, 0, y); !ok {
		return false
	}
	const d = time.Second
	probe := "probe-while-caller-idle"
	select {
	case res := <-c11Probe(rig.CC, probe, d):
		switch {
		case res.err != nil && c11IsDeadline(res.err):
			r.KnownFinding("caller-never-reads", "a caller that holds a stream open without reading or cancelling while the server sends blocks every other RPC of the connection: a unary call with a 1 s deadline got DeadlineExceeded while the stream's caller was idle (5 messages unread)")
			r.Count("c11.idle.head-of-line-blocked")
		case res.err == nil && bytes.Equal(res.out, unaryF([]byte(probe))):
			r.Count("c11.idle.not-blocked")
		default:
			r.Count("c11.idle.probe-other")
		}
	case <-time.After(d + hangTimeout):
		r.Violate(scen+".probe-hangs", "schedule", "a unary call with a 1 s deadline neither completed nor failed with DeadlineExceeded while another caller was idle", in, c11Events(), goroutineDump())
		return false
	}
	// the idle caller gives up: from here on it is an abandoned stream and the connection must be usable
	cancel()
	in2 := map[string]any{"after": in, "then": "the idle caller cancels"}
	probe2 := "probe-after-idle-caller-cancelled"
	if !c11CheckProbe(r, scen+".then-cancel", in2, probe2, c11Probe(rig.CC, probe2, c11ProbeDeadline), c11ProbeDeadline) {
		return false
	}
	healthy = true
	r.Eval("idle", true)
	return true
}

// ---- (c) a peer that sends more than expected ----

func c11PeerEnv(id uint64, method, src, dst string, kv ...string) *Rpc {
	e := &Rpc{Id: id, Header: &goatorepo.RequestHeader{Method: method, Source: src, Destination: dst}}
	for i := 0; i+1 < len(kv); i += 2 {
		e.Header.Headers = append(e.Header.Headers, &goatorepo.KeyValue{Key: kv[i], Value: kv[i+1]})
	}
	return e
}

func c11WithBody(e *Rpc, b []byte) *Rpc {
	d, _ := proto.Marshal(&wrapperspb.BytesValue{Value: b})
	e.Body = &goatorepo.Body{Data: d}
	return e
}

func c11WithTrailer(e *Rpc, code int32) *Rpc {
	e.Status = &goatorepo.ResponseStatus{Code: code, Message: codes.Code(code).String()}
	e.Trailer = &goatorepo.Trailer{}
	return e
}

func c11WithReset(e *Rpc) *Rpc {
	e.Reset_ = &goatorepo.Reset{Type: "RST_STREAM"}
	return e
}

// c11AsLast marks an envelope as the last one of its call the way goat's server does for unary replies
// and resets: an empty trailer, no status.
func c11AsLast(e *Rpc) *Rpc {
	e.Trailer = &goatorepo.Trailer{}
	return e
}

func c11BodyOf(e *Rpc) []byte {
	if e.GetBody() == nil {
		return nil
	}
	m := new(wrapperspb.BytesValue)
	if proto.Unmarshal(e.Body.Data, m) != nil {
		return nil
	}
	return m.Value
}

// c11Feed hands one envelope to the library's read loop (rendezvous); false = it stopped reading.
func c11Feed(sc *Script, e *Rpc, d time.Duration) bool {
	select {
	case sc.In <- e:
		return true
	case <-time.After(d):
		return false
	}
}

// c11PeerVsServer: the scenario is a client peer of the real server.
func c11PeerVsServer(r *Run, variant string, extraBodies int, waitFinished bool) bool {
	scen := "peer.server"
	in := map[string]any{"variant": variant, "extraBodies": extraBodies, "afterHandlerUnregistered": waitFinished}
	r.Progress(scen, in)
	hooks.Reset(true)
	defer hooks.Reset(false)
	sc := NewScript(0)
	sc.Out = make(chan *Rpc, 4096)
	impl := &Impl{}
	InstallPrograms(impl, NewHandlerLog(), nil)
	srv := goat.NewServer("srv")
	srv.RegisterService(&echoDesc, impl)
	served := make(chan error, 1)
	go func() { served <- srv.Serve(context.Background(), sc) }()
	defer func() {
		srv.Stop()
		sc.FailRead(io.ErrClosedPipe)
		within(hangTimeout, func() { <-served })
	}()
	const sid = 5
	env := func(kv ...string) *Rpc { return c11PeerEnv(sid, mBidi, "peer", "srv", kv...) }
	var seq []*Rpc
	switch variant {
	case "after-trailer":
		seq = []*Rpc{env("x-tag", "v", "x-prog", "echo"), c11WithBody(env(), []byte("one")), c11WithTrailer(env(), 0)}
	case "after-reset":
		seq = []*Rpc{env("x-tag", "v", "x-prog", "hold"), c11WithReset(env())}
	case "finished-id":
		seq = []*Rpc{env("x-tag", "v", "x-prog", "early:0")}
	case "finished-badsend":
		// the handler returned after one of its sends had failed in the codec
		seq = []*Rpc{env("x-tag", "v", "x-prog", "badsend:0")}
	}
	stall := func(what string) bool {
		r.Violate(scen+".wedged", "ops", "the server's read loop stopped reading its transport: "+what, in, c11Events(), goroutineDump())
		return false
	}
	for i, e := range seq {
		if !c11Feed(sc, e, hangTimeout) {
			return stall(fmt.Sprintf("envelope %d of the regular conversation", i))
		}
	}
	if waitFinished {
		if !hooks.WaitFor(siteIs("srv.unregister", sid), hangTimeout) {
			r.Violate(scen+".setup", "ops", "the handler did not finish", in, c11Events(), goroutineDump())
			return false
		}
	}
	for i := 0; i < extraBodies; i++ {
		if !c11Feed(sc, c11WithBody(env(), []byte(fmt.Sprintf("extra%d", i))), c11ProbeDeadline) {
			return stall(fmt.Sprintf("extra body %d for the stream", i))
		}
	}
	// a late trailer and reset for the same id, and a body for an id that was never opened
	for i, e := range []*Rpc{c11WithTrailer(env(), 0), c11WithReset(env()), c11WithBody(c11PeerEnv(77, mBidi, "peer", "srv"), []byte("never opened"))} {
		if !c11Feed(sc, e, c11ProbeDeadline) {
			return stall(fmt.Sprintf("late envelope %d", i))
		}
	}
	// probe: a unary request must be answered
	req := "probe-after-peer-excess"
	if !c11Feed(sc, c11WithBody(c11PeerEnv(99, mUnary, "peer", "srv"), []byte(req)), c11ProbeDeadline) {
		return stall("the probe request")
	}
	deadline := time.After(c11ProbeDeadline)
	for {
		select {
		case e := <-sc.Out:
			if e.Id != 99 {
				continue
			}
			if !bytes.Equal(c11BodyOf(e), unaryF([]byte(req))) {
				r.Violate(scen+".probe-wrong", "ops", "the unary request after the excess envelopes was not answered with its reply", in, shapeOf(e), nil)
				return false
			}
			r.Eval(fmt.Sprintf("peer.server/%s/%d/%v", variant, extraBodies, waitFinished), true)
			r.Count("c11.peer.server." + variant)
			return true
		case <-deadline:
			r.Violate(scen+".wedged", "ops", "a unary request sent after the excess envelopes was not answered within 3 s", in, c11Events(), goroutineDump())
			return false
		}
	}
}

// c11PeerVsClient: the scenario is a server peer of the real client.
func c11PeerVsClient(r *Run, variant string, extraBodies int) bool {
	scen := "peer.client"
	in := map[string]any{"variant": variant, "extraBodies": extraBodies}
	r.Progress(scen, in)
	hooks.Reset(true)
	defer hooks.Reset(false)
	sc := NewScript(0)
	sc.Out = make(chan *Rpc, 4096)
	cc := goat.NewClientConn(sc, "cli", "srv")
	defer func() {
		sc.FailRead(io.ErrClosedPipe)
		hooks.WaitFor(siteIs("mux.fail", 0), hangTimeout)
	}()
	nextOut := func() *Rpc {
		select {
		case e := <-sc.Out:
			return e
		case <-time.After(hangTimeout):
			return nil
		}
	}
	resp := func(id uint64, method string) *Rpc { return c11PeerEnv(id, method, "srv", "cli") }
	stall := func(what string) bool {
		r.Violate(scen+".wedged", "ops", "the client's read loop stopped reading its transport: "+what, in, c11Events(), goroutineDump())
		return false
	}
	callerDone := make(chan string, 1)
	var id uint64
	var method string
	if variant == "finished-id" {
		method = mUnary
		go func() {
			out, err := callUnary(context.Background(), cc, []byte("first"))
			callerDone <- fmt.Sprintf("out=%x err=%v", out, err)
		}()
		q := nextOut()
		if q == nil {
			r.Violate(scen+".setup", "ops", "the unary request was not written", in, nil, goroutineDump())
			return false
		}
		id = q.Id
		if !c11Feed(sc, c11AsLast(c11WithBody(resp(id, method), unaryF([]byte("first")))), hangTimeout) {
			return stall("the regular unary reply")
		}
	} else {
		method = mBidi
		cs, err := cc.NewStream(context.Background(), descBidi, mBidi)
		if err != nil {
			r.Violate(scen+".setup", "ops", "stream could not be opened", in, err.Error(), nil)
			return false
		}
		q := nextOut()
		if q == nil {
			r.Violate(scen+".setup", "ops", "the stream's opening envelope was not written", in, nil, goroutineDump())
			return false
		}
		id = q.Id
		go func() {
			n := 0
			for {
				if _, err := recvB(cs); err != nil {
					callerDone <- fmt.Sprintf("messages=%d terminal=%v", n, err)
					return
				}
				n++
			}
		}()
		regular := []*Rpc{c11WithBody(resp(id, method), []byte("one"))}
		if variant == "after-trailer" {
			regular = append(regular, c11WithTrailer(resp(id, method), 0))
		} else {
			regular = append(regular, c11AsLast(c11WithReset(resp(id, method))))
		}
		for i, e := range regular {
			if !c11Feed(sc, e, hangTimeout) {
				return stall(fmt.Sprintf("envelope %d of the regular conversation", i))
			}
		}
	}
	for i := 0; i < extraBodies; i++ {
		if !c11Feed(sc, c11WithBody(resp(id, method), []byte(fmt.Sprintf("extra%d", i))), c11ProbeDeadline) {
			return stall(fmt.Sprintf("extra body %d for the finished call", i))
		}
	}
	for i, e := range []*Rpc{c11WithTrailer(resp(id, method), 0), c11AsLast(c11WithReset(resp(id, method))), c11WithBody(resp(77, mBidi), []byte("never opened"))} {
		if !c11Feed(sc, e, c11ProbeDeadline) {
			return stall(fmt.Sprintf("late envelope %d", i))
		}
	}
	select {
	case <-callerDone:
	case <-time.After(hangTimeout):
		r.Violate(scen+".caller-hangs", "ops", "the call whose peer sent more than expected did not return", in, c11Events(), goroutineDump())
		return false
	}
	// probe: the scenario answers the unary request as a server would
	req := "probe-after-peer-excess"
	ch := c11Probe(cc, req, c11ProbeDeadline)
	answered := make(chan struct{})
	go func() {
		defer close(answered)
		deadline := time.After(c11ProbeDeadline)
		for {
			select {
			case q := <-sc.Out:
				if q.GetHeader().GetMethod() == mUnary && bytes.Equal(c11BodyOf(q), []byte(req)) {
					c11Feed(sc, c11AsLast(c11WithBody(resp(q.Id, mUnary), unaryF([]byte(req)))), c11ProbeDeadline)
					return
				}
			case <-deadline:
				return
			}
		}
	}()
	ok := c11CheckProbe(r, scen, in, req, ch, c11ProbeDeadline)
	<-answered
	if ok {
		r.Eval(fmt.Sprintf("peer.client/%s/%d", variant, extraBodies), true)
		r.Count("c11.peer.client." + variant)
	}
	return ok
}

func runC11(r *Run) {
	c11AbandonedOpen(r)
	c11FailedReset(r)
	c11SlowPeerLateFrame(r)
	c11ChanTwoAbandoned(r)
	c11HttpDeadlineWrite(r)
	maxN := r.Scale(4, 8)
	maxBy := r.Scale(2, 4)
	if r.Want("early") {
		rng := r.Rand("c11.early")
	early:
		for n := 1; n <= maxN; n++ {
			for k := 0; k < n; k++ {
				for _, method := range []string{mBidi, mCliStream, mSrvStream} {
					for _, forced := range []bool{true, false} {
						by := rng.Intn(maxBy + 1)
						if r.Thorough() && forced {
							// every number of bystanders for the forced schedule
							for by = 0; by <= maxBy; by++ {
								if !c11Early(r, method, k, n, by, true) {
									break early
								}
							}
							continue
						}
						reps := 1
						if !forced {
							reps = r.Scale(2, 6) // the unforced interleaving is the scheduler's choice: repeat it
						}
						for rep := 0; rep < reps; rep++ {
							if !c11Early(r, method, k, n, (by+rep)%(maxBy+1), forced) {
								break early
							}
						}
					}
				}
			}
		}
	}
	if r.Want("cancel") {
		rng := r.Rand("c11.cancel")
	cancel:
		for m := 0; m <= maxN; m++ {
			for _, extra := range []int{0, 2} {
				for _, method := range []string{mBidi, mSrvStream} {
					hows := []string{"cancel"}
					if m%4 == 3 && extra == 0 {
						hows = append(hows, "deadline")
					}
					for _, how := range hows {
						bysList := []int{rng.Intn(maxBy + 1)}
						if r.Thorough() && how == "cancel" {
							bysList = []int{0, 1, 2, 3, 4}
						}
						for _, by := range bysList {
							if !c11Cancel(r, method, m, extra, by, how) {
								break cancel
							}
						}
					}
				}
			}
		}
	}
	if r.Want("peer") {
		reps := r.Scale(2, 20)
	peerS:
		for rep := 0; rep < reps; rep++ {
			for _, v := range []string{"after-trailer", "after-reset", "finished-id", "finished-badsend"} {
				for _, wf := range []bool{false, true} {
					for _, nb := range []int{1, 3} {
						if !c11PeerVsServer(r, v, nb, wf) {
							break peerS
						}
					}
				}
			}
		}
	peerC:
		for rep := 0; rep < reps; rep++ {
			for _, v := range []string{"after-trailer", "after-reset", "finished-id"} {
				for _, nb := range []int{1, 3, 6} {
					if !c11PeerVsClient(r, v, nb) {
						break peerC
					}
				}
			}
		}
	}
	if r.Want("idle") {
		c11Idle(r)
	}
}
