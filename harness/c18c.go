package main

import (
	"context"
	"errors"
	"fmt"
	"strings"
	"sync"
	"time"

	goat "github.com/avos-io/goat"
	"github.com/avos-io/goat/gen/goatorepo"
	"google.golang.org/protobuf/proto"
	"google.golang.org/protobuf/types/known/wrapperspb"
)

// c18ReadTimeout: a logical connection is polled with a deadline while nothing is pending for its key
// (an idle timeout), and written to with a deadline while the shared transport is not being drained.
// Both calls end with their context — and that is all: the key was never cancelled, so the next
// envelope for it is handed over by the next Read, the next Write reaches the shared transport, and the
// run loop keeps serving the other keys.
func c18ReadTimeout(r *Run) {
	if !r.Want("readtimeout") {
		return
	}
	for rep, reps := 0, r.Scale(3, 30); rep < reps && r.NumViolations() <= 4; rep++ {
		for _, how := range []string{"deadline", "cancel"} {
			in := map[string]any{"rep": rep, "first_call_ends_by": how}
			r.Progress("readtimeout", in)
			shared := NewScript(0)
			ctx, cancel := context.WithCancel(context.Background())
			conns := make(chan goat.RpcReadWriter, 4)
			dm := goat.NewDemux(ctx, shared, func(e *Rpc) string { return e.GetHeader().GetSource() }, func(rw goat.RpcReadWriter) { conns <- rw })
			ran := make(chan struct{})
			go func() { defer close(ran); dm.Run() }()
			finish := func() {
				dm.Stop()
				cancel()
				shared.FailRead(errInjectedRead)
				shared.FailWrite(errInjectedWrite)
				within(hangTimeout, func() { <-ran })
			}
			env := func(id uint64, src string) *Rpc {
				return &Rpc{Id: id, Header: &goatorepo.RequestHeader{Source: src, Destination: "srv"}}
			}
			feed := func(e *Rpc) bool {
				select {
				case shared.In <- e:
					return true
				case <-time.After(hangTimeout):
					r.Violate("readtimeout.stall", "ops", "the run loop stopped reading the shared transport", in, goroutineDump(), nil)
					return false
				}
			}
			ended := func() (context.Context, context.CancelFunc) {
				if how == "deadline" {
					return context.WithTimeout(context.Background(), 5*time.Millisecond)
				}
				c, cf := context.WithCancel(context.Background())
				time.AfterFunc(5*time.Millisecond, cf)
				return c, cf
			}
			good := feed(env(1, "k"))
			var lc goat.RpcReadWriter
			if good {
				select {
				case lc = <-conns:
				case <-time.After(hangTimeout):
					r.Violate("readtimeout.setup", "ops", "no logical connection announced", in, nil, nil)
					good = false
				}
			}
			if good {
				if e, err := lc.Read(context.Background()); err != nil || e.Id != 1 {
					r.Violate("readtimeout.first", "ops", "the first envelope of the key was not handed over", in, fmt.Sprint(e.GetId(), err), 1)
					good = false
				}
			}
			if good {
				// nothing pending: the poll ends with its context
				pctx, pcancel := ended()
				var err error
				if !within(hangTimeout, func() { _, err = lc.Read(pctx) }) {
					r.Violate("readtimeout.hang", "ops", "a Read whose context ended did not return", in, goroutineDump(), nil)
					good = false
				} else if err == nil {
					r.Violate("readtimeout.fabricated", "ops", "a Read returned an envelope although none was pending for its key", in, nil, nil)
					good = false
				} else if !errors.Is(err, context.DeadlineExceeded) && !errors.Is(err, context.Canceled) {
					r.Count("c18.readtimeout.other_error")
				}
				pcancel()
			}
			// … and the key is as alive as before
			for i := uint64(2); good && i <= 4; i++ {
				if !feed(env(i, "k")) {
					good = false
					break
				}
				var e *Rpc
				var err error
				rctx, rcancel := context.WithTimeout(context.Background(), hangTimeout)
				e, err = lc.Read(rctx)
				rcancel()
				if err != nil || e.GetId() != i {
					r.Violate("readtimeout.lost", "ops", "after a Read that ended with its own context, the next envelope for the (never cancelled) key was not handed over by the next Read", in, fmt.Sprintf("id=%d err=%v", e.GetId(), err), fmt.Sprintf("id=%d", i))
					good = false
				}
			}
			if good {
				// a Write bounded by a context while nobody drains the shared transport (unbuffered) …
				wctx, wcancel := ended()
				var werr error
				if !within(hangTimeout, func() { werr = lc.Write(wctx, env(200, "srv")) }) {
					r.Violate("readtimeout.hang", "ops", "a Write whose context ended did not return", in, goroutineDump(), nil)
					good = false
				}
				wcancel()
				// … was either accepted (then it arrives) or refused (then it does not); later writes arrive
				var seen []uint64
				for i := uint64(201); good && i <= 202; i++ {
					var err error
					okW := within(hangTimeout, func() {
						done := make(chan struct{})
						go func() {
							defer close(done)
							err = lc.Write(context.Background(), env(i, "srv"))
						}()
						for {
							select {
							case got := <-shared.Out:
								seen = append(seen, got.Id)
							case <-done:
								return
							}
						}
					})
					if !okW || err != nil {
						r.Violate("readtimeout.write", "ops", "after a Write that ended with its own context, a later Write on the (never cancelled) key's connection failed or hung", in, fmt.Sprint(err), nil)
						good = false
					}
				}
				deadline := time.After(hangTimeout)
				for good && (len(seen) == 0 || seen[len(seen)-1] != 202) {
					select {
					case got := <-shared.Out:
						seen = append(seen, got.Id)
					case <-deadline:
						r.Violate("readtimeout.write.lost", "ops", "envelopes accepted by later Writes never reached the shared transport", in, fmt.Sprint(seen), "…, 201, 202")
						good = false
					}
				}
				if good {
					want := []uint64{201, 202}
					if werr == nil {
						want = []uint64{200, 201, 202}
					}
					if fmt.Sprint(seen) != fmt.Sprint(want) && fmt.Sprint(seen) != fmt.Sprint([]uint64{200, 201, 202}) {
						r.Violate("readtimeout.write.order", "ops", "the shared transport did not get exactly the accepted envelopes in write order", in, fmt.Sprint(seen), fmt.Sprint(want))
						good = false
					}
				}
			}
			// another key is served as well
			if good && feed(env(9, "other")) {
				select {
				case oc := <-conns:
					if e, err := oc.Read(context.Background()); err != nil || e.Id != 9 {
						r.Violate("readtimeout.other", "ops", "another key's envelope was not handed over", in, fmt.Sprint(e.GetId(), err), 9)
					}
				case <-time.After(hangTimeout):
					r.Violate("readtimeout.other", "ops", "another key's connection was not announced", in, goroutineDump(), nil)
				}
			}
			r.Eval(fmt.Sprintf("readtimeout/%s/%d", how, rep), true)
			r.Count("c18.readtimeout")
			finish()
			if !good {
				return
			}
		}
	}
}

// c18ChanShared: the demultiplexer over the library's own channel transport as the shared transport
// (envelopes travel by reference). Envelopes of every shape — resets, trailers, statuses, bodies,
// repeated routing fields — written on a logical connection reach the shared transport unchanged, in
// order; and what the shared transport delivers for a key is handed to its logical connection unchanged.
func c18ChanShared(r *Run) {
	if !r.Want("chanshared") {
		return
	}
	rng := r.Rand("c18.chanshared")
	toDm, fromDm := make(chan *Rpc, 8), make(chan *Rpc, 8)
	shared := goat.NewGoatOverChannel(toDm, fromDm)
	ctx, cancel := context.WithCancel(context.Background())
	conns := make(chan goat.RpcReadWriter, 4)
	dm := goat.NewDemux(ctx, shared, func(e *Rpc) string { return e.GetHeader().GetSource() }, func(rw goat.RpcReadWriter) { conns <- rw })
	ran := make(chan struct{})
	go func() { defer close(ran); dm.Run() }()
	defer func() {
		dm.Stop()
		cancel()
		close(toDm)
		within(hangTimeout, func() { <-ran })
	}()
	toDm <- &Rpc{Id: 1, Header: &goatorepo.RequestHeader{Source: "k"}}
	var lc goat.RpcReadWriter
	select {
	case lc = <-conns:
	case <-time.After(hangTimeout):
		r.Violate("chanshared.setup", "ops", "no logical connection announced", nil, nil, nil)
		return
	}
	if _, err := lc.Read(context.Background()); err != nil {
		r.Violate("chanshared.setup", "ops", "first envelope not handed over", nil, err.Error(), nil)
		return
	}
	n := r.Scale(200, 5000)
	for i := 0; i < n && r.NumViolations() <= 4; i++ {
		e := c19Env(rng, rng.Intn(64), 256, false)
		e.Id = uint64(10 + i)
		if i%4 == 0 {
			e.Reset_ = &goatorepo.Reset{Type: "RST_STREAM"}
			e.Trailer = &goatorepo.Trailer{}
		}
		want := proto.Clone(e).(*Rpc)
		r.Progress("chanshared", c19Brief(want))
		// outbound: logical connection -> shared transport
		if err := lc.Write(context.Background(), e); err != nil {
			r.Violate("chanshared.write", "ops", "Write on a live logical connection failed", c19Brief(want), err.Error(), nil)
			return
		}
		select {
		case got := <-fromDm:
			if !proto.Equal(got, want) {
				r.Violate("chanshared.out", "ops", "an envelope written on a logical connection reached the shared transport changed", c19Text(want), c19Text(got), nil)
			}
		case <-time.After(hangTimeout):
			r.Violate("chanshared.out", "ops", "an envelope written on a logical connection never reached the shared transport", c19Brief(want), nil, nil)
			return
		}
		// inbound: shared transport -> logical connection (the key is the header's source)
		in := proto.Clone(want).(*Rpc)
		if in.Header == nil {
			in.Header = &goatorepo.RequestHeader{}
		}
		in.Header.Source = "k"
		wantIn := proto.Clone(in).(*Rpc)
		toDm <- in
		rctx, rcancel := context.WithTimeout(context.Background(), hangTimeout)
		got, err := lc.Read(rctx)
		rcancel()
		if err != nil || !proto.Equal(got, wantIn) {
			r.Violate("chanshared.in", "ops", "an envelope read from the shared transport was not handed unchanged to its key's logical connection", c19Text(wantIn), fmt.Sprint(c19Text(got), err), nil)
			return
		}
		r.Eval(fmt.Sprintf("chanshared/%d", i), true)
		r.Count("c18.chanshared")
	}
}

// c18CancelWithUnaryInFlight: one Server behind the demultiplexer (one Serve per key, as the library's
// users wire it). Ten keys in turn have a unary call in flight — its handler blocked — when their key
// is cancelled; the handlers are released afterwards. A long-lived key and a brand-new key are then
// served as before: their envelopes are handed over and their unary calls answered.
func c18CancelWithUnaryInFlight(r *Run) {
	if !r.Want("cancelinflight") {
		return
	}
	in := map[string]any{"victim_keys": 10, "each": "one unary call in flight (handler blocked) when Demux.Cancel(key) is called"}
	r.Progress("cancelinflight", in)
	shared := NewScript(0)
	shared.Out = make(chan *Rpc, 1024)
	ctx, cancel := context.WithCancel(context.Background())
	impl := &Impl{}
	gate := make(chan struct{})
	entered := make(chan string, 64)
	impl.SetUnary(func(c context.Context, req []byte) ([]byte, error) {
		if strings.HasPrefix(string(req), "block") {
			entered <- string(req)
			<-gate
		}
		return unaryF(req), nil
	})
	srv := goat.NewServer("srv")
	srv.RegisterService(&echoDesc, impl)
	var serving sync.WaitGroup
	dm := goat.NewDemux(ctx, shared, func(e *Rpc) string { return e.GetHeader().GetSource() }, func(rw goat.RpcReadWriter) {
		serving.Add(1)
		defer serving.Done()
		srv.Serve(ctx, rw)
	})
	ran := make(chan struct{})
	go func() { defer close(ran); dm.Run() }()
	defer func() {
		select {
		case <-gate:
		default:
			close(gate)
		}
		srv.Stop()
		dm.Stop()
		cancel()
		shared.FailRead(errInjectedRead)
		shared.FailWrite(errInjectedWrite)
		within(hangTimeout, func() { <-ran; serving.Wait() })
	}()
	id := uint64(0)
	unary := func(key, payload string) *Rpc {
		id++
		body, _ := goat_marshal(&wrapperspb.BytesValue{Value: []byte(payload)})
		return &Rpc{Id: id, Header: &goatorepo.RequestHeader{Method: mUnary, Source: key, Destination: "srv"}, Body: &goatorepo.Body{Data: body}}
	}
	feed := func(e *Rpc, what string) bool {
		select {
		case shared.In <- e:
			return true
		case <-time.After(hangTimeout):
			r.Violate("cancelinflight.stall", "ops", "the demultiplexer's run loop stopped reading the shared transport ("+what+")", in, goroutineDump(), nil)
			return false
		}
	}
	answered := func(e *Rpc, what string) bool {
		want := unaryF([]byte(what))
		deadline := time.After(hangTimeout)
		for {
			select {
			case got := <-shared.Out:
				if got.Id == e.Id && got.GetHeader().GetDestination() == e.Header.Source {
					if string(c11BodyOf(got)) != string(want) {
						r.Violate("cancelinflight.reply", "ops", "a unary call was answered with something other than its handler's reply", in, shapeOf(got), nil)
						return false
					}
					return true
				}
			case <-deadline:
				r.Violate("cancelinflight.none", "ops", "a unary call of a live key was not answered ("+what+")", in, goroutineDump(), nil)
				return false
			}
		}
	}
	call := func(key, payload string) bool {
		e := unary(key, payload)
		return feed(e, payload) && answered(e, payload)
	}
	// the key whose envelope made the demultiplexer's very first connection comes and goes first: the
	// others must not depend on it
	if !call("firstborn", "firstborn-0") {
		return
	}
	dm.Cancel("firstborn")
	if !call("keeper", "keeper-0") {
		return
	}
	for v := 0; v < 10; v++ {
		key := fmt.Sprintf("victim%d", v)
		if !feed(unary(key, fmt.Sprintf("block-%d", v)), key) {
			return
		}
		select {
		case <-entered:
		case <-time.After(hangTimeout):
			r.Violate("cancelinflight.none", "ops", "a unary request of a fresh key did not reach its handler", in, goroutineDump(), nil)
			return
		}
		dm.Cancel(key)
		if !call("keeper", fmt.Sprintf("keeper-after-%d", v)) {
			return
		}
	}
	close(gate) // the abandoned handlers finish now; nobody is left to take their replies
	time.Sleep(20 * time.Millisecond)
	for k := 0; k < 3; k++ {
		if !call("keeper", fmt.Sprintf("keeper-late-%d", k)) || !call(fmt.Sprintf("late%d", k), fmt.Sprintf("late-%d", k)) {
			return
		}
	}
	r.Eval("cancelinflight", true)
	r.Count("c18.cancelinflight")
}

// c18BlockedWriteThenCancel: the shared transport is not being drained. A first Write on a logical
// connection is accepted (its envelope sits with the key's writer), a second Write — on a context that
// never ends — waits behind it. Then the key is cancelled: the waiting Write fails instead of blocking
// for ever, and so does any later one.
func c18BlockedWriteThenCancel(r *Run) {
	if !r.Want("blockedwrite") {
		return
	}
	for rep, reps := 0, r.Scale(3, 30); rep < reps && r.NumViolations() <= 4; rep++ {
		in := map[string]any{"rep": rep}
		r.Progress("blockedwrite", in)
		shared := NewScript(0) // unbuffered Out, nobody reads it
		ctx, cancel := context.WithCancel(context.Background())
		conns := make(chan goat.RpcReadWriter, 2)
		dm := goat.NewDemux(ctx, shared, func(e *Rpc) string { return e.GetHeader().GetSource() }, func(rw goat.RpcReadWriter) { conns <- rw })
		ran := make(chan struct{})
		go func() { defer close(ran); dm.Run() }()
		finish := func() {
			dm.Stop()
			cancel()
			shared.FailRead(errInjectedRead)
			shared.FailWrite(errInjectedWrite)
			within(hangTimeout, func() { <-ran })
		}
		shared.In <- &Rpc{Id: 1, Header: &goatorepo.RequestHeader{Source: "k"}}
		var lc goat.RpcReadWriter
		select {
		case lc = <-conns:
		case <-time.After(hangTimeout):
			r.Violate("blockedwrite.setup", "ops", "no logical connection announced", in, nil, nil)
			finish()
			return
		}
		env := func(id uint64) *Rpc {
			return &Rpc{Id: id, Header: &goatorepo.RequestHeader{Source: "srv", Destination: "k"}}
		}
		first := make(chan error, 1)
		go func() { first <- lc.Write(context.Background(), env(10)) }()
		time.Sleep(5 * time.Millisecond)
		second := make(chan error, 1)
		go func() { second <- lc.Write(context.Background(), env(11)) }()
		time.Sleep(5 * time.Millisecond)
		dm.Cancel("k")
		good := true
		for name, ch := range map[string]chan error{"the Write that was waiting for the key's writer": second, "the Write whose envelope the writer held": first} {
			select {
			case err := <-ch:
				_ = err // nil (accepted before the cancel) or an error: both are answers
			case <-time.After(hangTimeout):
				r.Violate("blockedwrite.hang", "ops", "after its key was cancelled, "+name+" is still blocked", in, goroutineDump(), "returns")
				good = false
			}
		}
		if good {
			var err error
			if !within(hangTimeout, func() { err = lc.Write(context.Background(), env(12)) }) || err == nil {
				r.Violate("blockedwrite.after", "ops", "a Write issued after the key was cancelled did not fail", in, fmt.Sprint(err), "an error")
			}
		}
		r.Eval(fmt.Sprintf("blockedwrite/%d", rep), true)
		r.Count("c18.blockedwrite")
		finish()
		if !good {
			return
		}
	}
}

// c18ConcurrentCancel: several goroutines cancel the SAME key at the same time (a read-error path and a
// write-error path both tearing a client down; a retry). Cancel is safe to call like that: no call
// panics, the key's connection fails its readers, and the next envelope of the key starts a new epoch.
func c18ConcurrentCancel(r *Run) {
	if !r.Want("concurrentcancel") {
		return
	}
	shared := NewScript(0)
	ctx, cancel := context.WithCancel(context.Background())
	var mu sync.Mutex
	var last goat.RpcReadWriter
	announced := make(chan struct{}, 1)
	dm := goat.NewDemux(ctx, shared, func(e *Rpc) string { return e.GetHeader().GetSource() }, func(rw goat.RpcReadWriter) {
		mu.Lock()
		last = rw
		mu.Unlock()
		announced <- struct{}{}
	})
	ran := make(chan struct{})
	go func() { defer close(ran); dm.Run() }()
	defer func() {
		dm.Stop()
		cancel()
		shared.FailRead(errInjectedRead)
		within(hangTimeout, func() { <-ran })
	}()
	rounds := r.Scale(1500, 20000)
	panics := 0
	var firstPanic string
	for round := 0; round < rounds; round++ {
		select {
		case shared.In <- &Rpc{Id: uint64(round), Header: &goatorepo.RequestHeader{Source: "k"}}:
		case <-time.After(hangTimeout):
			r.Violate("concurrentcancel.stall", "ops", "the run loop stopped reading", round, goroutineDump(), nil)
			return
		}
		select {
		case <-announced:
		case <-time.After(hangTimeout):
			r.Violate("concurrentcancel.announce", "ops", "the key's next epoch was not announced", round, goroutineDump(), nil)
			return
		}
		mu.Lock()
		lc := last
		mu.Unlock()
		if _, err := lc.Read(ctx); err != nil {
			r.Violate("concurrentcancel.read", "ops", "the envelope that created the connection was not handed over", round, err.Error(), nil)
			return
		}
		var wg sync.WaitGroup
		var pmu sync.Mutex
		start := make(chan struct{})
		for g := 0; g < 6; g++ {
			wg.Add(1)
			go func() {
				defer wg.Done()
				defer func() {
					if x := recover(); x != nil {
						pmu.Lock()
						panics++
						if firstPanic == "" {
							firstPanic = fmt.Sprintf("round %d: Cancel(\"k\") panicked: %v", round, x)
						}
						pmu.Unlock()
					}
				}()
				<-start
				dm.Cancel("k")
			}()
		}
		close(start)
		wg.Wait()
		if panics > 0 {
			break
		}
	}
	r.Eval("concurrentcancel", true)
	r.CountN("c18.concurrentcancel.rounds", rounds)
	if panics > 0 {
		r.Violate("concurrentcancel.crash", "ops", "concurrent Cancel calls for one key made Cancel panic (in a caller that does not recover, the process is gone)", map[string]any{"goroutines_per_round": 6}, firstPanic, "no panic")
	}
}

// c18LargeRepliesSlowShared: one Server behind the demultiplexer, eight keys, unary replies of 3000
// bytes (each key's reply is its own letter repeated), and a shared transport that takes one envelope
// every few milliseconds, so that replies wait in the keys' writer goroutines while further replies are
// being produced. What reaches the shared transport for a key is what was written on that key's logical
// connection: every reply is its own key's, unchanged.
func c18LargeRepliesSlowShared(r *Run) {
	if !r.Want("largereplies") {
		return
	}
	const keys, size = 8, 3000
	in := map[string]any{"keys": keys, "reply_bytes": size, "shared_transport": "goat.NewGoatOverChannel, takes one envelope every 2 ms"}
	r.Progress("largereplies", in)
	// the library's channel transport, unbuffered both ways: a Write completes when the envelope is taken,
	// and what is taken is the very envelope that was written
	toDm, fromDm := make(chan *Rpc), make(chan *Rpc)
	shared := goat.NewGoatOverChannel(toDm, fromDm)
	ctx, cancel := context.WithCancel(context.Background())
	impl := &Impl{}
	impl.SetUnary(func(c context.Context, req []byte) ([]byte, error) {
		out := make([]byte, size)
		for i := range out {
			out[i] = req[0]
		}
		return out, nil
	})
	srv := goat.NewServer("srv")
	srv.RegisterService(&echoDesc, impl)
	var serving sync.WaitGroup
	dm := goat.NewDemux(ctx, shared, func(e *Rpc) string { return e.GetHeader().GetSource() }, func(rw goat.RpcReadWriter) {
		serving.Add(1)
		defer serving.Done()
		srv.Serve(ctx, rw)
	})
	ran := make(chan struct{})
	go func() { defer close(ran); dm.Run() }()
	defer func() {
		srv.Stop()
		dm.Stop()
		cancel()
		close(toDm)
		within(hangTimeout, func() { <-ran; serving.Wait() })
	}()
	id := uint64(0)
	for round, rounds := 0, r.Scale(6, 60); round < rounds && r.NumViolations() <= 4; round++ {
		want := map[uint64]byte{}
		fed := true
		for rep := 0; rep < 2 && fed; rep++ {
			for k := 0; k < keys && fed; k++ {
				id++
				letter := byte('A' + k)
				want[id] = letter
				body, _ := goat_marshal(&wrapperspb.BytesValue{Value: []byte{letter}})
				e := &Rpc{Id: id, Header: &goatorepo.RequestHeader{Method: mUnary, Source: fmt.Sprint("k", k), Destination: "srv"}, Body: &goatorepo.Body{Data: body}}
				select {
				case toDm <- e:
				case <-time.After(hangTimeout):
					r.Violate("largereplies.stall", "ops", "the demultiplexer's run loop stopped reading the shared transport", in, goroutineDump(), nil)
					fed = false
				}
				if round%2 == 0 {
					time.Sleep(2 * time.Millisecond) // every other round the replies are produced one after the other
				}
			}
		}
		for n := 0; fed && n < len(want); n++ {
			time.Sleep(2 * time.Millisecond)
			select {
			case got := <-fromDm:
				letter, known := want[got.Id]
				val := c11BodyOf(got)
				bad := !known || got.GetHeader().GetDestination() != fmt.Sprint("k", int(letter-'A')) || len(val) != size
				for i := 0; !bad && i < len(val); i++ {
					bad = val[i] != letter
				}
				if bad {
					head := val
					if len(head) > 12 {
						head = head[:12]
					}
					r.Violate("largereplies.changed", "ops", "a reply written on a key's logical connection reached the shared transport changed", in,
						fmt.Sprintf("id %d for %s: %d bytes starting %q", got.Id, got.GetHeader().GetDestination(), len(val), head), fmt.Sprintf("%d x %q", size, string(letter)))
					fed = false
				}
			case <-time.After(hangTimeout):
				r.Violate("largereplies.none", "ops", "a unary call of a live key was not answered", in, goroutineDump(), nil)
				fed = false
			}
		}
		r.Eval(fmt.Sprintf("largereplies/%d", round), true)
		r.Count("c18.largereplies")
		if !fed {
			return
		}
	}
}
