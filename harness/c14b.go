package main

import (
	"context"
	"fmt"
	"strings"

	goat "github.com/avos-io/goat"
)

// c14OpenLockstep: ONE stream open on a fresh client over a scripted transport, for each of the three
// ways an open can go (registration refused because the connection is known dead / opening write
// refused / accepted), with one recording stats handler. What is left behind — the error, the
// multiplexer's registry count, whether a clientStream read loop exists, the number of Begin and End
// events — is compared with the Lean model of ClientConn.newStream (driver op `openstream`).
func c14OpenLockstep(r *Run) {
	reps := r.Scale(6, 60)
	for rep := 0; rep < reps && r.NumViolations() <= 4; rep++ {
		for _, c := range []struct{ regOk, writeOk bool }{{true, true}, {true, false}, {false, true}, {false, false}} {
			in := fmt.Sprintf("%d,%d", b2i(c.regOk), b2i(c.writeOk))
			r.Progress("openls", in)
			settleGoroutines(c14Base)
			sc := NewScript(64)
			rec := NewRecorder("open")
			cc := goat.NewClientConn(sc, "cli", "srv", goat.WithStatsHandler(rec))
			if !c.writeOk {
				sc.FailWrite(errInjectedWrite)
			}
			if !c.regOk {
				sc.FailRead(errInjectedRead)
				// the connection is known dead once the multiplexer's read loop has gone
				if n, _ := settleGoroutines(c14Base); n > c14Base {
					r.Violate("openls.busy", "history", "the client's read loop did not end after its transport failed", in, goroutineDump(), nil)
					return
				}
			}
			ctx, cancel := context.WithCancel(context.Background())
			var cs interface{ CloseSend() error }
			var err error
			if !within(hangTimeout, func() { cs, err = cc.NewStream(ctx, descOf(mBidi), mBidi) }) {
				r.Violate("openls.hang", "history", "NewStream did not return", in, goroutineDump(), nil)
				cancel()
				return
			}
			// a goroutine that has been created but has not run yet shows only its `go` wrapper frame
			dump := goroutineDump()
			loops := strings.Count(dump, "(*clientStream).readLoop") + strings.Count(dump, "client.NewStream.gowrap")
			begin, end := 0, 0
			for _, e := range rec.Events() {
				switch e.Kind {
				case "Begin":
					begin++
				case "End":
					end++
				}
			}
			obs := fmt.Sprintf("err=%d;reg=%d;loop=%d;begin=%d;end=%d", b2i(err != nil), cc.VerifHandlerCount(), b2i(loops > 0), begin, end)
			r.Case("openstream", in, obs)
			r.Eval("openls/"+in, !c.regOk || !c.writeOk)
			r.Count("openls." + in)
			_ = cs
			cancel()
			sc.FailRead(errInjectedRead)
			cc.Close()
		}
	}
}
