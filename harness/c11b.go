package main

import (
	"bytes"
	"context"
	"errors"
	"fmt"
	"io"
	"sync/atomic"
	"time"

	goat "github.com/avos-io/goat"
	"google.golang.org/grpc"
	"google.golang.org/grpc/metadata"
)

// c11AckLoss refuses the opening envelope of a stream AFTER handing it to the transport: the caller's
// NewStream fails although the server has seen the open (a lost acknowledgement, a request cancelled
// after the peer consumed it).
type c11AckLoss struct {
	*End
	armed atomic.Bool
}

func (t *c11AckLoss) Write(ctx context.Context, r *Rpc) error {
	err := t.End.Write(ctx, r)
	if err == nil && r.Body == nil && r.Trailer == nil && r.Reset_ == nil && t.armed.CompareAndSwap(true, false) {
		return errors.New("acknowledgement lost")
	}
	return err
}

// c11AbandonedOpen: an open that failed at the caller but reached the server, whose handler talks first
// (n messages, then waits). The stream is abandoned before it exists on the client side; whatever the
// server sends for it must not wedge the connection: a probe with a deadline completes.
func c11AbandonedOpen(r *Run) {
	if !r.Want("abandonedopen") {
		return
	}
	for _, n := range []int{1, 2, 3, 6} {
		for _, method := range []string{mBidi, mSrvStream, mCliStream} {
			for _, serialise := range []bool{true, false} {
				in := map[string]any{"handler_sends_first": n, "method": method, "serialise": serialise}
				scen := "abandonedopen"
				r.Progress(scen, in)
				hooks.Reset(true)
				ce, se := NewPipe(4096, serialise, nil)
				impl := &Impl{}
				impl.SetUnary(func(ctx context.Context, req []byte) ([]byte, error) { return unaryF(req), nil })
				impl.SetStream(func(m string, ss grpc.ServerStream) error {
					for i := 0; i < n; i++ {
						if sendB(ss, srvMsg(i)) != nil {
							return nil
						}
					}
					<-ss.Context().Done()
					return nil
				})
				srv := goat.NewServer("srv")
				srv.RegisterService(&echoDesc, impl)
				served := make(chan error, 1)
				go func() { served <- srv.Serve(context.Background(), se) }()
				tr := &c11AckLoss{End: ce}
				cc := goat.NewClientConn(tr, "cli", "srv")
				tr.armed.Store(true)
				_, err := cc.NewStream(context.Background(), descOf(method), method)
				good := true
				if err == nil {
					r.Violate(scen+".setup", "schedule", "NewStream succeeded although its opening write reported an error", in, nil, nil)
					good = false
				}
				if good {
					// the server's messages for the abandoned id have reached the client (n srv.stream.sent events), then the probe
					k := 0
					hooks.WaitFor(func(e Event) bool {
						if e.Site == "srv.stream.sent" {
							k++
						}
						return k >= n
					}, hangTimeout/5)
					probe := fmt.Sprintf("probe-after-abandoned-open-%d", n)
					good = c11CheckProbe(r, scen, in, probe, c11Probe(cc, probe, c11ProbeDeadline), c11ProbeDeadline)
				}
				r.Eval(fmt.Sprintf("%s/%d/%s/%v", scen, n, method, serialise), true)
				r.Count("c11.abandonedopen")
				srv.Stop()
				ce.FailRead(io.ErrClosedPipe)
				se.FailRead(io.ErrClosedPipe)
				ce.FailWrite(io.ErrClosedPipe)
				se.FailWrite(io.ErrClosedPipe)
				cc.Close()
				within(hangTimeout, func() { <-served })
				hooks.Reset(false)
				if !good {
					return
				}
			}
		}
	}
}

// c11FailOneReset refuses exactly one write of a reset envelope (a transient transport error) and lets
// everything else through.
type c11FailOneReset struct {
	*End
	armed atomic.Bool
}

func (t *c11FailOneReset) Write(ctx context.Context, r *Rpc) error {
	if r.Reset_ != nil && t.armed.CompareAndSwap(true, false) {
		return errors.New("transient write error")
	}
	return t.End.Write(ctx, r)
}

// c11FailedReset: the caller abandons a stream (cancel) and the ONE reset the client writes for it is
// lost to a transient transport error, while the connection stays usable. The server, never told, keeps
// sending on the abandoned stream. Whatever arrives for it must not wedge the connection.
func c11FailedReset(r *Run) {
	if !r.Want("failedreset") {
		return
	}
	for _, n := range []int{2, 3, 6} {
		for _, serialise := range []bool{true, false} {
			in := map[string]any{"handler_keeps_sending": n, "serialise": serialise}
			scen := "failedreset"
			r.Progress(scen, in)
			hooks.Reset(true)
			ce, se := NewPipe(4096, serialise, nil)
			impl := &Impl{}
			more := make(chan struct{})
			impl.SetUnary(func(ctx context.Context, req []byte) ([]byte, error) { return unaryF(req), nil })
			impl.SetStream(func(m string, ss grpc.ServerStream) error {
				sendB(ss, srvMsg(0))
				select {
				case <-more:
				case <-ss.Context().Done():
					return nil
				}
				for i := 1; i <= n; i++ {
					if sendB(ss, srvMsg(i)) != nil {
						return nil
					}
				}
				<-ss.Context().Done()
				return nil
			})
			srv := goat.NewServer("srv")
			srv.RegisterService(&echoDesc, impl)
			served := make(chan error, 1)
			go func() { served <- srv.Serve(context.Background(), se) }()
			tr := &c11FailOneReset{End: ce}
			cc := goat.NewClientConn(tr, "cli", "srv")
			ctx, cancel := context.WithCancel(context.Background())
			cs, err := cc.NewStream(ctx, descBidi, mBidi)
			good := err == nil
			if good {
				_, err = recvB(cs)
				good = err == nil
			}
			if !good {
				r.Violate(scen+".setup", "schedule", "the stream could not be opened / read", in, fmt.Sprint(err), nil)
			} else {
				tr.armed.Store(true)
				cancel()
				// the stream has finished on the client side (its reset was attempted and refused)
				hooks.WaitFor(func(e Event) bool { return e.Site == "cs.fin.done" }, hangTimeout)
				close(more)
				k := 0
				hooks.WaitFor(func(e Event) bool {
					if e.Site == "srv.stream.sent" {
						k++
					}
					return k >= n+1
				}, hangTimeout/5)
				probe := fmt.Sprintf("probe-after-failed-reset-%d", n)
				good = c11CheckProbe(r, scen, in, probe, c11Probe(cc, probe, c11ProbeDeadline), c11ProbeDeadline)
			}
			cancel()
			r.Eval(fmt.Sprintf("%s/%d/%v", scen, n, serialise), true)
			r.Count("c11.failedreset")
			srv.Stop()
			ce.FailRead(io.ErrClosedPipe)
			se.FailRead(io.ErrClosedPipe)
			ce.FailWrite(io.ErrClosedPipe)
			se.FailWrite(io.ErrClosedPipe)
			cc.Close()
			within(hangTimeout, func() { <-served })
			hooks.Reset(false)
			if !good {
				return
			}
		}
	}
}

// c11SlowPeerLateFrame: the peer is slow to take the server's output for a few seconds (it has not
// gone: it reads on afterwards), and meanwhile sends one more message for a stream whose handler has
// long returned. The server owes a reset for it and can only hand it over when the peer reads again.
// Being slow is not being dead: the connection survives, the other stream's responses all arrive, the
// reset arrives, and a later unary request is answered.
func c11SlowPeerLateFrame(r *Run) {
	if !r.Want("slowpeer") {
		return
	}
	in := map[string]any{"abandoned_stream": 5, "streaming_call": "8 responses, the peer takes one and pauses 3.5s", "late_frame": "one body for the abandoned stream during the pause"}
	r.Progress("slowpeer", in)
	hooks.Reset(true)
	defer hooks.Reset(false)
	sc := NewScript(0) // unbuffered Out
	impl := &Impl{}
	InstallPrograms(impl, NewHandlerLog(), nil)
	srv := goat.NewServer("srv")
	srv.RegisterService(&echoDesc, impl)
	served := make(chan error, 1)
	go func() { served <- srv.Serve(context.Background(), sc) }()
	defer func() {
		srv.Stop()
		sc.FailRead(io.ErrClosedPipe)
		go func() {
			for range sc.Out {
			}
		}()
		within(hangTimeout, func() { <-served })
	}()
	stall := func(what string) {
		r.Violate("slowpeer.wedged", "ops", what, in, c11Events(), goroutineDump())
	}
	feed := func(e *Rpc, what string) bool {
		if !c11Feed(sc, e, 2*hangTimeout) {
			stall("the server stopped reading its transport: " + what)
			return false
		}
		return true
	}
	take := func(what string) *Rpc {
		select {
		case e := <-sc.Out:
			return e
		case err := <-served:
			served <- err
			r.Violate("slowpeer.dropped", "ops", "the server dropped the whole connection because its peer was slow for a few seconds ("+what+")", in, fmt.Sprint("Serve returned: ", err), "Serve keeps running")
			return nil
		case <-time.After(2 * hangTimeout):
			stall("the server wrote nothing: " + what)
			return nil
		}
	}
	// the abandoned stream: its handler returns at once
	if !feed(c11PeerEnv(5, mBidi, "peer", "srv", "x-tag", "ab", "x-prog", "early:0"), "open of the stream to be abandoned") {
		return
	}
	if e := take("trailer of the abandoned stream"); e == nil || e.Id != 5 || e.Trailer == nil {
		return
	}
	if !hooks.WaitFor(siteIs("srv.unregister", 5), hangTimeout) {
		stall("the abandoned stream's handler did not finish")
		return
	}
	// the streaming call with 8 responses: the peer takes the first and pauses
	if !feed(c11PeerEnv(6, mSrvStream, "peer", "srv", "x-tag", "sl", "x-prog", "burst:8"), "open of the streaming call") ||
		!feed(c11WithBody(c11PeerEnv(6, mSrvStream, "peer", "srv"), []byte("req")), "request of the streaming call") {
		return
	}
	if e := take("first response"); e == nil {
		return
	}
	// the late frame for the abandoned stream (the read loop may be held until the peer reads again)
	late := make(chan bool, 1)
	go func() {
		late <- c11Feed(sc, c11WithBody(c11PeerEnv(5, mBidi, "peer", "srv"), []byte("late")), 6*time.Second+2*hangTimeout)
	}()
	time.Sleep(3500 * time.Millisecond)
	// the peer reads on
	bodies, sawReset := 1, false
	for !(bodies == 8 && sawReset) {
		e := take("after the pause")
		if e == nil {
			return
		}
		switch {
		case e.Id == 5 && e.GetReset_() != nil:
			sawReset = true
		case e.Id == 6 && e.Body != nil:
			bodies++
		}
	}
	// the streaming call's half-close, then its trailer
	if !feed(c11WithTrailer(c11PeerEnv(6, mSrvStream, "peer", "srv"), 0), "half-close of the streaming call") {
		return
	}
	for {
		e := take("trailer of the streaming call")
		if e == nil {
			return
		}
		if e.Id == 6 && e.Trailer != nil {
			break
		}
		if e.Id == 6 && e.Body != nil {
			bodies++
		}
	}
	if !<-late {
		stall("the late frame was never read")
		return
	}
	if bodies != 8 {
		r.Violate("slowpeer.lost", "ops", "the slow caller did not receive all the responses of its stream", in, bodies, 8)
	}
	// a later unary request is answered
	req := "probe-after-slow-peer"
	if !feed(c11WithBody(c11PeerEnv(99, mUnary, "peer", "srv"), []byte(req)), "the probe request") {
		return
	}
	for {
		e := take("the probe's reply")
		if e == nil {
			return
		}
		if e.Id == 99 {
			if !bytes.Equal(c11BodyOf(e), unaryF([]byte(req))) {
				r.Violate("slowpeer.probe", "ops", "the unary request after the pause was not answered with its reply", in, shapeOf(e), nil)
			}
			break
		}
	}
	r.Eval("slowpeer", true)
	r.Count("c11.slowpeer")
}

// c11ChanTwoAbandoned: over the library's channel transport with unbuffered queues. A server-streaming
// caller stops reading (the server's writer jams — the documented head-of-line finding), a
// client-streaming handler returns early while its caller keeps sending (that caller's write parks in
// the transport). A unary call started afterwards WITH A DEADLINE cannot be served — but it must come
// back with DeadlineExceeded when its deadline passes: every blocked operation answers to its own context.
func c11ChanTwoAbandoned(r *Run) {
	if !r.Want("chanabandoned") {
		return
	}
	in := map[string]any{"transport": "goat.NewGoatOverChannel, unbuffered", "stream A": "server-stream, caller reads one message and idles", "stream B": "client-stream, handler returns after 1 of 6 messages", "probe": "unary with a 300 ms deadline"}
	r.Progress("chanabandoned", in)
	c2s, s2c := make(chan *Rpc), make(chan *Rpc)
	impl := &Impl{}
	InstallPrograms(impl, NewHandlerLog(), nil)
	srv := goat.NewServer("srv")
	srv.RegisterService(&echoDesc, impl)
	sctx, scancel := context.WithCancel(context.Background())
	served := make(chan error, 1)
	go func() { served <- srv.Serve(sctx, goat.NewGoatOverChannel(c2s, s2c)) }()
	cc := goat.NewClientConn(goat.NewGoatOverChannel(s2c, c2s), "cli", "srv")
	actx, acancel := context.WithCancel(context.Background())
	bctx, bcancel := context.WithCancel(context.Background())
	defer func() {
		acancel()
		bcancel()
		srv.Stop()
		scancel()
		cc.Close()
		go func() {
			for range s2c {
			}
		}()
		go func() {
			for {
				select {
				case <-c2s:
				case <-time.After(time.Second):
					return
				}
			}
		}()
		within(2*hangTimeout, func() { <-served })
		close(s2c)
	}()
	// stream A
	csA, err := cc.NewStream(metadata.AppendToOutgoingContext(actx, "x-tag", "A", "x-prog", "burst:50"), descSrv, mSrvStream)
	if err != nil {
		r.Violate("chanabandoned.setup", "ops", "stream A could not be opened", in, err.Error(), nil)
		return
	}
	sendB(csA, []byte("req"))
	csA.CloseSend()
	if _, err := recvB(csA); err != nil {
		r.Violate("chanabandoned.setup", "ops", "stream A delivered nothing", in, err.Error(), nil)
		return
	}
	// stream B: its caller keeps sending in the background
	go func() {
		csB, err := cc.NewStream(metadata.AppendToOutgoingContext(bctx, "x-tag", "B", "x-prog", "early:1"), descCli, mCliStream)
		if err != nil {
			return
		}
		for i := 0; i < 6; i++ {
			if sendB(csB, []byte(fmt.Sprintf("b%d", i))) != nil {
				return
			}
		}
	}()
	time.Sleep(50 * time.Millisecond) // both streams are wedged where they are
	// the probe
	t0 := time.Now()
	res := make(chan error, 1)
	go func() {
		ctx, cancel := context.WithTimeout(context.Background(), 300*time.Millisecond)
		defer cancel()
		_, err := callUnary(ctx, cc, []byte("probe"))
		res <- err
	}()
	r.Eval("chanabandoned", true)
	r.Count("c11.chanabandoned")
	select {
	case err := <-res:
		if err == nil {
			r.Count("c11.chanabandoned.probe_served")
		} else if time.Since(t0) > 3*time.Second {
			r.Violate("chanabandoned.late", "ops", "a call with a 300 ms deadline came back seconds late", in, time.Since(t0).String(), "about 300 ms")
		}
	case <-time.After(c11ProbeDeadline + 2*time.Second):
		r.Violate("chanabandoned.blocked", "ops", "a unary call with a 300 ms deadline neither completed nor returned DeadlineExceeded: it is blocked beyond its own context", in, goroutineDump(), "DeadlineExceeded after about 300 ms")
	}
}

// c11HttpDeadlineWrite: over the HTTP transport. A client-streaming handler has stopped consuming (its
// caller's second message holds the server's read loop), so a unary call with a 300 ms deadline cannot
// even be delivered: its POST is pending when the deadline passes, and it comes back with
// DeadlineExceeded. That is one caller giving up — the connection is everybody's: once the handler
// lets go, a unary call started afterwards is served.
func c11HttpDeadlineWrite(r *Run) {
	if !r.Want("httpdeadline") {
		return
	}
	t, err := newTopo("http", nil, nil)
	if err != nil {
		r.Count("httpdeadline.no_listener")
		return
	}
	defer t.close()
	in := map[string]any{"transport": "http", "blocked_by": "a client-stream whose handler does not consume", "victim": "unary call with a 300 ms deadline whose request cannot be delivered"}
	r.Progress("httpdeadline", in)
	gate := make(chan struct{})
	t.impl.SetUnary(func(ctx context.Context, req []byte) ([]byte, error) { return unaryF(req), nil })
	t.impl.SetStream(func(m string, ss grpc.ServerStream) error {
		<-gate
		for {
			if _, err := recvB(ss); err != nil {
				break
			}
		}
		return sendB(ss, []byte("sum"))
	})
	sctx, scancel := context.WithTimeout(context.Background(), 4*hangTimeout)
	defer scancel()
	cs, err := t.cc.NewStream(sctx, descCli, mCliStream)
	if err != nil {
		r.Violate("httpdeadline.setup", "ops", "stream could not be opened", in, err.Error(), nil)
		return
	}
	go func() {
		sendB(cs, []byte("m1")) // fills the handler's queue
		sendB(cs, []byte("m2")) // holds the server's read loop
	}()
	time.Sleep(100 * time.Millisecond)
	vctx, vcancel := context.WithTimeout(context.Background(), 300*time.Millisecond)
	_, verr := callUnary(vctx, t.cc, []byte("victim"))
	vcancel()
	if verr == nil {
		r.Count("c11.httpdeadline.victim_served")
	}
	close(gate)
	time.Sleep(50 * time.Millisecond)
	pctx, pcancel := context.WithTimeout(context.Background(), c11ProbeDeadline)
	got, perr := callUnary(pctx, t.cc, []byte("after"))
	pcancel()
	r.Eval("httpdeadline", true)
	r.Count("c11.httpdeadline")
	if perr != nil || string(got) != string(unaryF([]byte("after"))) {
		r.Violate("httpdeadline.dead", "ops", "after ONE caller's deadline passed while its request was waiting to be delivered, the connection no longer serves other calls", in, fmt.Sprintf("victim: %v; later call: %v", verr, perr), "the later call is served")
	}
	cs.CloseSend()
}
