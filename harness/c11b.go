package main

import (
	"context"
	"errors"
	"fmt"
	"io"
	"sync/atomic"

	goat "github.com/avos-io/goat"
	"google.golang.org/grpc"
)

// c11AckLoss refuses the opening envelope of a stream AFTER handing it to the transport: the caller's
// NewStream fails although the server has seen the open (a lost acknowledgement, a request cancelled
// after the peer consumed it).
type c11AckLoss struct {
	*End
	armed atomic.Bool
}

func (t *c11AckLoss) Write(ctx context.Context, r *Rpc) error {
	err := t.End.Write(ctx, r)
	if err == nil && r.Body == nil && r.Trailer == nil && r.Reset_ == nil && t.armed.CompareAndSwap(true, false) {
		return errors.New("acknowledgement lost")
	}
	return err
}

// c11AbandonedOpen: an open that failed at the caller but reached the server, whose handler talks first
// (n messages, then waits). The stream is abandoned before it exists on the client side; whatever the
// server sends for it must not wedge the connection: a probe with a deadline completes.
func c11AbandonedOpen(r *Run) {
	if !r.Want("abandonedopen") {
		return
	}
	for _, n := range []int{1, 2, 3, 6} {
		for _, method := range []string{mBidi, mSrvStream, mCliStream} {
			for _, serialise := range []bool{true, false} {
				in := map[string]any{"handler_sends_first": n, "method": method, "serialise": serialise}
				scen := "abandonedopen"
				r.Progress(scen, in)
				hooks.Reset(true)
				ce, se := NewPipe(4096, serialise, nil)
				impl := &Impl{}
				impl.SetUnary(func(ctx context.Context, req []byte) ([]byte, error) { return unaryF(req), nil })
				impl.SetStream(func(m string, ss grpc.ServerStream) error {
					for i := 0; i < n; i++ {
						if sendB(ss, srvMsg(i)) != nil {
							return nil
						}
					}
					<-ss.Context().Done()
					return nil
				})
				srv := goat.NewServer("srv")
				srv.RegisterService(&echoDesc, impl)
				served := make(chan error, 1)
				go func() { served <- srv.Serve(context.Background(), se) }()
				tr := &c11AckLoss{End: ce}
				cc := goat.NewClientConn(tr, "cli", "srv")
				tr.armed.Store(true)
				_, err := cc.NewStream(context.Background(), descOf(method), method)
				good := true
				if err == nil {
					r.Violate(scen+".setup", "schedule", "NewStream succeeded although its opening write reported an error", in, nil, nil)
					good = false
				}
				if good {
					// the server's messages for the abandoned id have reached the client (n srv.stream.sent events), then the probe
					k := 0
					hooks.WaitFor(func(e Event) bool {
						if e.Site == "srv.stream.sent" {
							k++
						}
						return k >= n
					}, hangTimeout/5)
					probe := fmt.Sprintf("probe-after-abandoned-open-%d", n)
					good = c11CheckProbe(r, scen, in, probe, c11Probe(cc, probe, c11ProbeDeadline), c11ProbeDeadline)
				}
				r.Eval(fmt.Sprintf("%s/%d/%s/%v", scen, n, method, serialise), true)
				r.Count("c11.abandonedopen")
				srv.Stop()
				ce.FailRead(io.ErrClosedPipe)
				se.FailRead(io.ErrClosedPipe)
				ce.FailWrite(io.ErrClosedPipe)
				se.FailWrite(io.ErrClosedPipe)
				cc.Close()
				within(hangTimeout, func() { <-served })
				hooks.Reset(false)
				if !good {
					return
				}
			}
		}
	}
}

// c11FailOneReset refuses exactly one write of a reset envelope (a transient transport error) and lets
// everything else through.
type c11FailOneReset struct {
	*End
	armed atomic.Bool
}

func (t *c11FailOneReset) Write(ctx context.Context, r *Rpc) error {
	if r.Reset_ != nil && t.armed.CompareAndSwap(true, false) {
		return errors.New("transient write error")
	}
	return t.End.Write(ctx, r)
}

// c11FailedReset: the caller abandons a stream (cancel) and the ONE reset the client writes for it is
// lost to a transient transport error, while the connection stays usable. The server, never told, keeps
// sending on the abandoned stream. Whatever arrives for it must not wedge the connection.
func c11FailedReset(r *Run) {
	if !r.Want("failedreset") {
		return
	}
	for _, n := range []int{2, 3, 6} {
		for _, serialise := range []bool{true, false} {
			in := map[string]any{"handler_keeps_sending": n, "serialise": serialise}
			scen := "failedreset"
			r.Progress(scen, in)
			hooks.Reset(true)
			ce, se := NewPipe(4096, serialise, nil)
			impl := &Impl{}
			more := make(chan struct{})
			impl.SetUnary(func(ctx context.Context, req []byte) ([]byte, error) { return unaryF(req), nil })
			impl.SetStream(func(m string, ss grpc.ServerStream) error {
				sendB(ss, srvMsg(0))
				select {
				case <-more:
				case <-ss.Context().Done():
					return nil
				}
				for i := 1; i <= n; i++ {
					if sendB(ss, srvMsg(i)) != nil {
						return nil
					}
				}
				<-ss.Context().Done()
				return nil
			})
			srv := goat.NewServer("srv")
			srv.RegisterService(&echoDesc, impl)
			served := make(chan error, 1)
			go func() { served <- srv.Serve(context.Background(), se) }()
			tr := &c11FailOneReset{End: ce}
			cc := goat.NewClientConn(tr, "cli", "srv")
			ctx, cancel := context.WithCancel(context.Background())
			cs, err := cc.NewStream(ctx, descBidi, mBidi)
			good := err == nil
			if good {
				_, err = recvB(cs)
				good = err == nil
			}
			if !good {
				r.Violate(scen+".setup", "schedule", "the stream could not be opened / read", in, fmt.Sprint(err), nil)
			} else {
				tr.armed.Store(true)
				cancel()
				// the stream has finished on the client side (its reset was attempted and refused)
				hooks.WaitFor(func(e Event) bool { return e.Site == "cs.fin.done" }, hangTimeout)
				close(more)
				k := 0
				hooks.WaitFor(func(e Event) bool {
					if e.Site == "srv.stream.sent" {
						k++
					}
					return k >= n+1
				}, hangTimeout/5)
				probe := fmt.Sprintf("probe-after-failed-reset-%d", n)
				good = c11CheckProbe(r, scen, in, probe, c11Probe(cc, probe, c11ProbeDeadline), c11ProbeDeadline)
			}
			cancel()
			r.Eval(fmt.Sprintf("%s/%d/%v", scen, n, serialise), true)
			r.Count("c11.failedreset")
			srv.Stop()
			ce.FailRead(io.ErrClosedPipe)
			se.FailRead(io.ErrClosedPipe)
			ce.FailWrite(io.ErrClosedPipe)
			se.FailWrite(io.ErrClosedPipe)
			cc.Close()
			within(hangTimeout, func() { <-served })
			hooks.Reset(false)
			if !good {
				return
			}
		}
	}
}
