package main

import (
	"context"
	"fmt"
	"math/rand"
	"sort"
	"strings"
	"sync/atomic"
	"time"

	goat "github.com/avos-io/goat"
	"github.com/avos-io/goat/gen/goatorepo"
	"google.golang.org/grpc"
	"google.golang.org/protobuf/types/known/wrapperspb"
)

func init() { register("C12", runC12) }

// one envelope shape of the alphabet
type seqEnv struct {
	ID      uint64
	Hdr     bool
	Method  string
	Dst     string
	Meta    int // 0 none, 1 good, 2 undecodable -bin
	Body    bool
	Trailer bool
	Reset   int // 0 none, 1 RST_STREAM, 2 other type
}

func (e seqEnv) input() string {
	return fmt.Sprintf("%d,%d,%s,%s,%d,%d,%d,%d", e.ID, b2i(e.Hdr), hxs(e.Method), hxs(e.Dst), e.Meta, b2i(e.Body), b2i(e.Trailer), e.Reset)
}

func (e seqEnv) rpc() *Rpc {
	r := &Rpc{Id: e.ID}
	if e.Hdr {
		r.Header = &goatorepo.RequestHeader{Method: e.Method, Destination: e.Dst, Source: "c"}
		switch e.Meta {
		case 1:
			r.Header.Headers = []*goatorepo.KeyValue{{Key: "k", Value: "v"}}
		case 2:
			r.Header.Headers = []*goatorepo.KeyValue{{Key: "k-bin", Value: badBinValue()}}
		case 3:
			// the same under a key that is not all lower-case (a foreign peer may send any case)
			r.Header.Headers = []*goatorepo.KeyValue{{Key: "K-Bin", Value: "!!"}}
		case 4:
			// a timeout header with a unit that does not exist (any byte may follow the digits): ignored,
			// the request is served
			r.Header.Headers = []*goatorepo.KeyValue{{Key: "grpc-timeout", Value: c12BadUnit()}}
		}
	}
	if e.Body {
		r.Body = &goatorepo.Body{}
	}
	if e.Trailer {
		r.Trailer = &goatorepo.Trailer{}
	}
	switch e.Reset {
	case 1:
		r.Reset_ = &goatorepo.Reset{Type: "RST_STREAM"}
	case 2:
		r.Reset_ = &goatorepo.Reset{Type: "X"}
	}
	return r
}

// c12BadUnit rotates through timeout values whose unit byte is none of H M S m u n, up to 0xff.
var c12BadUnitN atomic.Uint64

func c12BadUnit() string {
	vals := []string{"5x", "10z", "1~", "3\xb5", "7X", "5s", "2\xff", "9{"}
	return vals[int(c12BadUnitN.Add(1))%len(vals)]
}

func (e seqEnv) wellFormedFor(methodKind string) bool {
	if !e.Hdr || e.Dst != "srv" || e.Meta == 2 || e.Meta == 3 {
		return false
	}
	m := strings.TrimPrefix(e.Method, "/")
	if methodKind == "unary" {
		return m == "verif.Echo/Unary"
	}
	// a body, a trailer or a reset for a stream that is not open is not a request to open one
	if e.Body || e.Trailer || e.Reset == 1 {
		return false
	}
	return m == "verif.Echo/Bidi" || m == "verif.Echo/SrvStream" || m == "verif.Echo/CliStream"
}

func c12Alphabet() []seqEnv {
	u, s := mUnary, mBidi
	base := []seqEnv{
		{Hdr: true, Method: u, Dst: "srv", Body: true},                          // valid unary
		{Hdr: true, Method: u, Dst: "srv", Body: true, Meta: 1},                 // valid unary with metadata
		{Hdr: true, Method: u, Dst: "srv"},                                      // unary without body
		{Hdr: true, Method: u, Dst: "srv", Body: true, Meta: 2},                 // unary, undecodable metadata
		{Hdr: true, Method: u, Dst: "srv", Body: true, Meta: 3},                 // unary, undecodable metadata under "K-Bin"
		{Hdr: true, Method: u, Dst: "srv", Body: true, Meta: 4},                 // unary, timeout header with an unknown unit
		{Hdr: true, Method: s, Dst: "srv", Meta: 4},                             // stream open, timeout header with an unknown unit
		{Hdr: true, Method: s, Dst: "srv", Meta: 3},                             // stream open, undecodable metadata under "K-Bin"
		{Hdr: true, Method: u, Dst: "other", Body: true},                        // wrong destination
		{Hdr: true, Method: "verif.Echo/Unary", Dst: "srv", Body: true},         // no leading slash
		{Hdr: false, Body: true},                                                // no header
		{Hdr: true, Method: "noslash", Dst: "srv", Body: true},                  // unparsable method
		{Hdr: true, Method: "", Dst: "srv"},                                     // empty method
		{Hdr: true, Method: "/nope.Svc/X", Dst: "srv", Body: true},              // unknown service
		{Hdr: true, Method: "/verif.Echo/Nope", Dst: "srv", Body: true},         // unknown method
		{Hdr: true, Method: "//verif.Echo/Unary", Dst: "srv", Body: true},       // two leading slashes: service "/verif.Echo" does not exist
		{Hdr: true, Method: "///verif.Echo/Bidi", Dst: "srv"},                   // … likewise for a stream open
		{Hdr: true, Method: s, Dst: "srv"},                                      // stream open
		{Hdr: true, Method: s, Dst: "srv", Meta: 1},                             // stream open with metadata
		{Hdr: true, Method: s, Dst: "srv", Meta: 2},                             // stream open, undecodable metadata
		{Hdr: true, Method: s, Dst: "srv", Body: true},                          // stream body
		{Hdr: true, Method: s, Dst: "srv", Trailer: true},                       // stream trailer (half close)
		{Hdr: true, Method: s, Dst: "srv", Reset: 1},                            // reset
		{Hdr: true, Method: s, Dst: "srv", Reset: 2},                            // reset of another type
		{Hdr: true, Method: s, Dst: "srv", Body: true, Trailer: true},           // body + trailer
		{Hdr: true, Method: s, Dst: "srv", Body: true, Reset: 1},                // body + reset
		{Hdr: true, Method: s, Dst: "other"},                                    // stream open, wrong destination
		{Hdr: true, Method: mSrvStream, Dst: "srv"},                             // another stream method
		{Hdr: true, Method: mCliStream, Dst: "srv", Body: true},                 // body on another stream method
		{Hdr: true, Method: u, Dst: "srv", Body: true, Trailer: true, Reset: 1}, // unary with everything
		{Hdr: true, Method: s, Dst: "srv", Trailer: true, Reset: 2, Meta: 2},    // odd mix
	}
	var out []seqEnv
	for _, id := range []uint64{1, 2} {
		for _, b := range base {
			b.ID = id
			out = append(out, b)
		}
	}
	return out
}

func runC12(r *Run) {
	c12Linger(r)
	if r.Want("method") {
		c12Method(r)
	}
	if r.Want("seq") {
		c12Sequences(r)
	}
	if r.Want("oneshot") {
		c12OneShotHandlers(r)
	}
}

// c12OneShotHandlers: stream handlers that read exactly one message and return — what every generated
// server-streaming handler does — while the peer sends more than expected. The registry then changes
// concurrently with the read loop, so there is no exact prediction; the property's own monitor decides:
// the process survives, the server keeps reading, the probe is answered.
func c12OneShotHandlers(r *Run) {
	rng := r.Rand("c12.oneshot")
	alpha := c12Alphabet()
	n := r.Scale(60, 3000)
	for i := 0; i < n; i++ {
		l := 3 + rng.Intn(8)
		seq := make([]seqEnv, 0, l+1)
		open := alpha[11]
		open.ID = uint64(1 + rng.Intn(2))
		seq = append(seq, open)
		for j := 0; j < l; j++ {
			e := alpha[11+rng.Intn(9)]
			e.ID = open.ID
			if rng.Intn(4) == 0 {
				e = alpha[rng.Intn(len(alpha))]
			}
			seq = append(seq, e)
		}
		if !c12OneShot(r, seq, i%3) || r.NumViolations() > 4 {
			return
		}
	}
}

func c12OneShot(r *Run, seq []seqEnv, mode int) bool {
	parts := make([]string, len(seq))
	for i, e := range seq {
		parts[i] = e.input()
	}
	input := fmt.Sprintf("oneshot mode=%d %s", mode, strings.Join(parts, ";"))
	r.Progress("oneshot", input)
	sc := NewScript(0)
	sc.Out = make(chan *Rpc, 4096)
	srv := goat.NewServer("srv")
	impl := &Impl{}
	impl.SetUnary(func(ctx context.Context, req []byte) ([]byte, error) { return req, nil })
	gate := make(chan struct{})
	impl.SetStream(func(method string, ss grpc.ServerStream) error {
		recvB(ss) // exactly one message
		if mode == 2 {
			select { // return only once the read loop is parked on this stream (forced order)
			case <-gate:
			case <-ss.Context().Done():
			}
		}
		if mode >= 1 {
			sendB(ss, []byte("reply"))
		}
		return nil
	})
	srv.RegisterService(&echoDesc, impl)
	hooks.Reset(true)
	ctx, cancel := context.WithCancel(context.Background())
	served := make(chan error, 1)
	go func() { served <- srv.Serve(ctx, sc) }()
	defer func() {
		cancel()
		srv.Stop()
		if !within(hangTimeout, func() { <-served }) {
			r.Violate("oneshot.serve", "ops", "Serve did not return after its context was cancelled", input, goroutineDump(), nil)
		}
		hooks.Reset(false)
	}()
	released := false
	release := func() {
		if !released {
			released = true
			close(gate)
		}
	}
	defer release()
	if mode == 2 {
		// as soon as the read loop is parked in the forwarding select, let the handler return
		// the handler takes the first message, the second fills its one-slot queue, the third parks the
		// read loop in the forwarding select (holding the registry lock): only then may the handler return
		go func() {
			hooks.WaitFor(func(e Event) bool {
				n := 0
				for _, x := range hooks.eventsUnlocked() {
					if x.Site == "srv.forward.enter" && x.ID == seq[0].ID {
						n++
					}
				}
				return n >= 3
			}, hangTimeout)
			release()
		}()
	}
	for k, e := range seq {
		select {
		case sc.In <- e.rpc():
		case <-time.After(hangTimeout):
			r.Violate("oneshot.stall", "ops", "server stopped reading its transport", input, fmt.Sprintf("envelope %d not accepted", k), goroutineDump())
			return false
		}
	}
	pb, _ := goat_marshal(&wrapperspb.BytesValue{Value: []byte("probe")})
	probe := &Rpc{Id: 99, Header: &goatorepo.RequestHeader{Method: mUnary, Destination: "srv", Source: "c"}, Body: &goatorepo.Body{Data: pb}}
	select {
	case sc.In <- probe:
	case <-time.After(hangTimeout):
		r.Violate("oneshot.stall", "ops", "server stopped reading its transport before the probe", input, nil, goroutineDump())
		return false
	}
	deadline := time.After(hangTimeout)
	for {
		select {
		case o := <-sc.Out:
			if o.Id == 99 && o.Trailer != nil {
				r.Eval("oneshot/"+input, true)
				r.Count(fmt.Sprintf("oneshot.mode%d", mode))
				return true
			}
		case <-deadline:
			r.Violate("oneshot.probe", "ops", "a valid request after the sequence was not answered", input, nil, goroutineDump())
			return false
		}
	}
}

func c12Method(r *Run) {
	rng := r.Rand("c12.method")
	fixed := []string{"", "/", "//", "a", "/a", "a/b", "/a/b", "/a/b/c", "a//b", "/a/", "///", "/verif.Echo/Unary", "verif.Echo/Unary", "/x.y.Z/M/"}
	n := r.Scale(2000, 100000)
	for i := 0; i < n+len(fixed); i++ {
		var s string
		if i < len(fixed) {
			s = fixed[i]
		} else {
			b := make([]byte, rng.Intn(8))
			for j := range b {
				b[j] = "/ab."[rng.Intn(4)]
			}
			s = string(b)
		}
		svc, m, err := goat.VerifParseRawMethod(s)
		out := "ERR"
		if err == nil {
			out = hxs(svc) + "," + hxs(m)
		}
		r.Case("method", hxs(s), out)
	}
}

func c12Sequences(r *Run) {
	alpha := c12Alphabet()
	rng := r.Rand("c12.seq")
	var seqs [][]seqEnv
	// every single envelope and every pair (exhaustive), then sampled longer ones
	for _, a := range alpha {
		seqs = append(seqs, []seqEnv{a})
	}
	if r.Thorough() {
		for _, a := range alpha {
			for _, b := range alpha {
				seqs = append(seqs, []seqEnv{a, b})
			}
		}
	}
	n := r.Scale(700, 30000)
	for i := 0; i < n; i++ {
		l := 2 + rng.Intn(3)
		if i%10 == 0 {
			l = 5 + rng.Intn(36)
		}
		s := make([]seqEnv, l)
		for j := range s {
			s[j] = alpha[rng.Intn(len(alpha))]
			// bias towards conversations on an open stream
			if j > 0 && rng.Intn(3) == 0 {
				s[j] = alpha[11+rng.Intn(9)]
				s[j].ID = s[j-1].ID
			}
		}
		seqs = append(seqs, s)
	}
	for i, s := range seqs {
		if !c12One(r, i, s, rng) || r.NumViolations() > 4 {
			return
		}
	}
}

func c12One(r *Run, idx int, seq []seqEnv, rng *rand.Rand) bool {
	parts := make([]string, len(seq))
	for i, e := range seq {
		parts[i] = e.input()
	}
	input := strings.Join(parts, ";")
	r.Progress("seq", input)

	sc := NewScript(0)
	sc.Out = make(chan *Rpc, 4096)
	srv := goat.NewServer("srv")
	impl := &Impl{}
	var unaryCalls atomic.Int64
	impl.SetUnary(func(ctx context.Context, req []byte) ([]byte, error) {
		unaryCalls.Add(1)
		return req, nil
	})
	impl.SetStream(func(method string, ss grpc.ServerStream) error {
		for { // consume the input until it ends (half-close, reset, connection end)
			if _, err := recvB(ss); err != nil {
				return nil
			}
		}
	})
	srv.RegisterService(&echoDesc, impl)
	hooks.Reset(true)
	ctx, cancel := context.WithCancel(context.Background())
	served := make(chan error, 1)
	go func() { served <- srv.Serve(ctx, sc) }()
	defer func() {
		cancel()
		srv.Stop()
		if !within(hangTimeout, func() { <-served }) {
			r.Violate("seq.serve", "ops", "Serve did not return after its context was cancelled", input, goroutineDump(), nil)
		}
		hooks.Reset(false)
	}()

	feed := func(e *Rpc, k int) bool {
		select {
		case sc.In <- e:
		case <-time.After(hangTimeout):
			r.Violate("seq.stall", "ops", "server stopped reading its transport", input, fmt.Sprintf("envelope %d not accepted", k), nil)
			return false
		}
		// processed once the read loop is back in Read
		if !sc.WaitReads(k+2, hangTimeout) {
			r.Violate("seq.stall", "ops", "server read loop did not come back for more input", input, fmt.Sprintf("after envelope %d", k), goroutineDump())
			return false
		}
		return true
	}
	for k, e := range seq {
		mark := len(hooks.Events())
		if !feed(e.rpc(), k) {
			return false
		}
		// a reset, or a forwarded trailer, of a registered stream ends its handler: let it
		// unregister before the next envelope
		for _, ev := range hooks.Events()[mark:] {
			if ev.Site == "srv.stream.cancel" || (ev.Site == "srv.forward.sent" && e.Trailer) {
				id := ev.ID
				seen := ev.Seq
				if !hooks.WaitFor(func(x Event) bool { return x.Site == "srv.unregister" && x.ID == id && x.Seq > seen }, hangTimeout) {
					r.Violate("seq.cancel", "ops", "handler of an ended stream never finished", input, id, nil)
					return false
				}
			}
		}
	}
	// the probe: a valid unary request with a recognisable payload and a fresh id
	pb, _ := goat_marshal(&wrapperspb.BytesValue{Value: []byte("probe")})
	probe := &Rpc{Id: 99, Header: &goatorepo.RequestHeader{Method: mUnary, Destination: "srv", Source: "c"}, Body: &goatorepo.Body{Data: pb}}
	if !feed(probe, len(seq)) {
		return false
	}
	// collect replies: one per unary request taken by a worker
	takes := 0
	for _, ev := range hooks.Events() {
		if ev.Site == "srv.unary.dispatch" {
			takes++
		}
	}
	var U, E, R []int
	probeOK := false
	replies := 0
	deadline := time.After(hangTimeout)
collect:
	for replies < takes {
		select {
		case o := <-sc.Out:
			switch {
			case o.Reset_ != nil:
				R = append(R, int(o.Id))
			case o.Trailer != nil && o.Id == 99:
				replies++
				m := new(wrapperspb.BytesValue)
				if o.Body != nil && o.Status == nil {
					if e := protoUnmarshal(o.Body.Data, m); e == nil && string(m.Value) == "probe" {
						probeOK = true
					}
				}
			case o.Trailer != nil && o.Status != nil && o.Body == nil && o.Status.Code == 13 && strings.HasPrefix(o.Status.Message, "malformed request metadata"):
				replies++
				E = append(E, int(o.Id))
			case o.Trailer != nil && o.Body == nil:
				// the trailer of a stream whose handler has returned
			case o.Trailer != nil && o.Body != nil:
				replies++
				U = append(U, int(o.Id))
			}
		case <-deadline:
			break collect
		}
	}
	// resets are written by the read loop's hand-off before it reads again, so they are all out by now
	for {
		select {
		case o := <-sc.Out:
			if o.Reset_ != nil {
				R = append(R, int(o.Id))
			}
			continue
		default:
		}
		break
	}
	var S, C []int
	for _, ev := range hooks.Events() {
		switch ev.Site {
		case "srv.register":
			S = append(S, int(ev.ID))
		case "srv.stream.cancel":
			C = append(C, int(ev.ID))
		}
	}
	U = append(U, 99) // the probe is part of the model's sequence
	render := func(l []int) string {
		sort.Ints(l)
		p := make([]string, len(l))
		for i, v := range l {
			p[i] = fmt.Sprint(v)
		}
		return strings.Join(p, ",")
	}
	obs := fmt.Sprintf("U:%s|S:%s|R:%s|E:%s|C:%s|alive", render(U), render(S), render(R), render(E), render(C))
	probeIn := seqEnv{ID: 99, Hdr: true, Method: mUnary, Dst: "srv", Body: true}
	r.Case("srvseq", input+";"+probeIn.input(), obs)
	r.CountN("seq.envelopes", len(seq))
	r.Count(fmt.Sprintf("seq.len.%02d", min(len(seq), 5)))

	// the property's own monitor
	if !probeOK {
		r.Violate("seq.probe", "ops", "a valid request after the sequence was not served correctly", input, obs, nil)
	}
	wfU, wfS := 0, 0
	for _, e := range seq {
		if e.wellFormedFor("unary") {
			wfU++
		}
		if e.wellFormedFor("stream") {
			wfS++
		}
	}
	if int(unaryCalls.Load()) > wfU+1 || len(S) > wfS {
		r.Violate("seq.handler", "ops", "a handler ran for a request that is not well-formed or not addressed to this server", input, obs, fmt.Sprintf("at most %d unary, %d stream", wfU+1, wfS))
	}
	if int(unaryCalls.Load()) != len(U) {
		r.Violate("seq.once", "ops", "unary handler invocations differ from successful replies", input, unaryCalls.Load(), len(U))
	}
	return true
}
