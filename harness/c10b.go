package main

import (
	"context"
	"fmt"
	"io"
	"sync/atomic"
	"time"

	goat "github.com/avos-io/goat"
	"github.com/avos-io/goat/gen/goatorepo"
	"google.golang.org/grpc"
)

// c10ResetThenEnd: the caller resets a stream whose handler is slow to return, and the connection
// ends (read failure, write side dead, or Stop) while that handler is still winding down: Serve must
// not return before the handler has, and the handler's context must be done.
func c10ResetThenEnd(r *Run) {
	for i, fault := range []string{"read", "stop", "read", "stop"} {
		if !r.Want("serve.reset") {
			return
		}
		sc := NewScript(0)
		sc.Out = make(chan *Rpc, 256)
		srv := goat.NewServer("srv")
		impl := &Impl{}
		release := make(chan struct{})
		var entered, exited atomic.Int32
		ctxSeen := make(chan struct{}, 8)
		impl.SetUnary(func(ctx context.Context, req []byte) ([]byte, error) { return req, nil })
		impl.SetStream(func(method string, ss grpc.ServerStream) error {
			entered.Add(1)
			<-ss.Context().Done() // the reset arrives
			ctxSeen <- struct{}{}
			<-release // … but the handler takes its time to wind down
			exited.Add(1)
			return ss.Context().Err()
		})
		srv.RegisterService(&echoDesc, impl)
		hooks.Reset(true)
		ctx, cancel := context.WithCancel(context.Background())
		served := make(chan error, 1)
		var exitedAtReturn int32 = -1
		go func() {
			err := srv.Serve(ctx, sc)
			atomic.StoreInt32(&exitedAtReturn, exited.Load())
			served <- err
		}()
		hdr := &goatorepo.RequestHeader{Method: mBidi, Destination: "srv", Source: "c"}
		nStreams := 1 + i%2
		in := map[string]any{"fault": fault, "streams": nStreams}
		r.Progress("serve.reset", in)
		ok := within(hangTimeout, func() {
			for id := 1; id <= nStreams; id++ {
				sc.In <- &Rpc{Id: uint64(id), Header: hdr}
			}
			for id := 1; id <= nStreams; id++ {
				sc.In <- &Rpc{Id: uint64(id), Header: hdr, Reset_: &goatorepo.Reset{Type: "RST_STREAM"}}
			}
			for id := 1; id <= nStreams; id++ {
				<-ctxSeen
			}
		})
		if !ok {
			r.Violate("serve.reset.setup", "schedule", "reset did not cancel the handlers", in, goroutineDump(), nil)
			close(release)
			cancel()
			hooks.Reset(false)
			return
		}
		switch fault {
		case "read":
			sc.FailRead(io.EOF)
		case "stop":
			srv.Stop()
		}
		// Serve has to wait for the handlers: give a Serve that does NOT wait the chance to return
		// (this wait only affects the chance of exposing a defect, never the verdict on correct code)
		early := false
		select {
		case err := <-served:
			early = true
			served <- err
		case <-time.After(200 * time.Millisecond):
		}
		close(release)
		if !within(hangTimeout, func() { <-served }) {
			r.Violate("serve.reset.hang", "schedule", "Serve did not return after the handlers had finished", in, goroutineDump(), nil)
		}
		r.Eval(fmt.Sprintf("serve.reset/%s/%d", fault, nStreams), true)
		r.Count("c10.reset-then-end")
		if early || atomic.LoadInt32(&exitedAtReturn) != int32(nStreams) {
			r.Violate("serve.reset.early", "schedule", "Serve returned while a streaming handler of the connection (whose stream had been reset) was still running", in,
				fmt.Sprintf("handlers finished when Serve returned: %d of %d", atomic.LoadInt32(&exitedAtReturn), nStreams), "all")
		}
		cancel()
		hooks.Reset(false)
		settleGoroutines(0)
	}
}
