#!/bin/bash
# Build the framework from files on disk only (offline): extractor, facts, all proofs, driver, harness.
set -e
cd "$(dirname "$0")"
export GOFLAGS=-mod=mod GOPROXY=off GOSUMDB=off GOTOOLCHAIN=local
mkdir -p .bin .work evidence
(cd extract && go build -o ../.bin/extract .)
./.bin/extract "${VERIF_REPO:-/repo}" lean/Goat/Generated/Facts.lean
(cd lean && lake build Goat goatdrv)
cp "${VERIF_REPO:-/repo}/go.sum" harness/go.sum
(cd harness && go build -tags verif -o ../.bin/goatharness .)
echo "setup ok"
