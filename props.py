"""Per-property table used by ./check: Lean modules, tie modules, evidence texts."""

COMMON_MNV = [
    "modelled, not verified: Go runtime semantics of channels/select/mutex/context; google.golang.org/grpc status+metadata+codec; google.golang.org/protobuf",
    "harness only (no model): the transport sweep over channel / websocket / HTTP transports (topo.go); its failures over real sockets are reported when a second fresh run fails as well",
]

PROPS = {
    "C04": {
        "level_text": "Theorems (Lean 4, all inputs): base64 round trip for every byte string; ToMetadata(ToKeyValue(md)) = lower-cased md for every metadata set and every map iteration order; Join keeps per-key call order; ToMetadata fails exactly on invalid base64 under a -bin key. Tied to /repo by regenerated codec facts (suffix test, URL encoding, lower-casing, once-only header guards) and by a lock-step run of the real ToKeyValue/ToMetadata/base64 against the model plus end-to-end RPCs of all four kinds and all header emission paths checked by the mdEq monitor.",
        "level_note": "Trusted: Lean kernel; extractor; harness. Modelled not verified: ASCII-only ToLower, grpc metadata.Join/FromOutgoingContext/NewIncomingContext. Keys differing only by case are not generated (I3).",
        "technique": "Lean 4 proof (induction over byte lists / entry lists) + regenerated facts + lock-step differential against the real codec",
        "props": ["Goat.Props.C04"],
        "tie": ["Goat.Tie.C04"],
        "rule": "lock-step cases are distinct (op,input) pairs over generated metadata sets (0-16 keys, mixed case, 1-4 values, arbitrary bytes under -bin keys), base64 strings incl. malformed/mutated; end-to-end cases are distinct (kind, emission mode, metadata) RPCs; non-trivial = at least one key / one non-empty input",
        "modelled_not_verified": COMMON_MNV + ["strings.ToLower restricted to ASCII keys (the gRPC key alphabet)", "metadata.Join / FromOutgoingContext / NewIncomingContext are library code, sampled end to end"],
        "assumptions": ["keys that differ only by letter case are not generated (I3)", "grpc-timeout is not part of the caller's metadata"],
    },
    "C08": {
        "level_text": "Theorems (Lean 4, all inputs): every 1-8 digit value with unit H/M/S/m/u/n parses to exactly min(value*unit, MaxInt64); all-digit values of any length are exact or ignored; empty, sign, non-digit, unit-less values are ignored; result always within [0, MaxInt64]; key matched case-insensitively; client encoding then server parsing = max(1ms, floor to ms); deadline bounds D-1ms < H <= D+transit over abstract instants. Negative witnesses for the two pre-repair flags. Tied to /repo by the translated unit table, key, format and flags (decide) and by lock-step runs of the real parser, headersFromContext and contextFromHeaders (interval brackets on the real clock) and end-to-end deadline checks.",
        "level_note": "Trusted: Lean kernel; extractor; harness. Real-time behaviour is checked as intervals between clock readings; context.WithTimeout is library code.",
        "technique": "Lean 4 proof (arithmetic lemmas, induction over digit lists) + translated unit table/flags + lock-step differential on the real parser",
        "props": ["Goat.Props.C08"],
        "tie": ["Goat.Tie.C08"],
        "rule": "lock-step cases are distinct header values: the 6x8 boundary table, MaxInt64/unit +-1, random in-grammar values, overlong, signed, unit-less, non-digit, empty and random byte strings; header round trips and end-to-end calls use timeouts from expired to 10^4 h; non-trivial = every case (each is a distinct input)",
        "modelled_not_verified": COMMON_MNV + ["context.WithTimeout fires at its deadline; clock readings bracket the library's own time.Now()"],
        "assumptions": ["overlong (>8 digit) all-digit values may be ignored or read exactly (I1)"],
    },
}

PROPS["C03"] = {
    "level_text": "Theorems (Lean 4, all statuses/messages/details/error kinds): callerSees(serverSends(handlerReturns e)) = normalise e for unary replies and for stream trailers; success at the caller iff the handler returned nil; a failed handler is never a success; explicit OK status with a body is a success; a peer reset is never a success; a non-OK status wins over a body. Negative witnesses for the pre-repair OK-status and reset readings. Tied to /repo by flags (okStatusIsSuccess, resetIsError, closeSendNoopWhenDone, resetViaWriter), the SendTrailer skeleton, and a lock-step run of real RPCs over codes x messages x details x error kinds x RPC kinds x positions, foreign-peer replies from a scripted transport, and the forced CloseAndRecv-after-end schedule.",
    "level_note": "Trusted: Lean kernel; extractor; harness. grpc status.FromError/FromContextError/FromProto are modelled as the three-way split of their source and sampled, not proved. The reset/trailer wire order and position-independence over all interleavings are carried by the ServerConn/ClientStream transition-system theorems.",
    "technique": "Lean 4 proof (case analysis over the status algebra) + flags regenerated from source + lock-step differential through real RPCs",
    "props": ["Goat.Props.C03"],
    "extra_harness": ["TRACECS"],
    "tie": ["Goat.Tie.C03"],
    "rule": "each case is a distinct (mode, error kind, code, message, details, position) tuple run as a real RPC, or a distinct foreign reply shape; non-trivial = handler error is non-nil or the reply is foreign",
    "modelled_not_verified": COMMON_MNV + ["anypb details compared as (type url, value) pairs; proto strings must be valid UTF-8 to cross a serialising transport"],
    "assumptions": [],
}
PROPS["C06"] = {
    "level_text": "Theorems (Lean 4, every handler program and every outcome of each transport write): the envelopes a serverStream puts on the wire are accepted by the server->client automaton (optional header-only first, bodies, exactly one trailer with status, response metadata on the first envelope only, constant route, nothing after the trailer); the trailer is present and carries the status whenever the final write succeeds; every envelope carries the stream id; the unary reply is one envelope with header, trailer and body-or-non-OK-status and swaps source/destination. The automata are the executable monitors: every per-id per-direction projection of every wire tap is decided by the Lean driver. Tied to /repo by flags, the serverStream/resetStream/runStream skeletons and an operation-by-operation lock-step of the real serverStream object against the model.",
    "level_note": "Trusted: Lean kernel; extractor; harness wire taps (writers serialised so that tap order = channel order). Client-side emission order and the reset-after-trailer order through the single writer are theorems over the ClientStream / ServerConn transition systems.",
    "technique": "Lean 4 proof (induction over handler programs against a protocol automaton) + executable automata as monitors on real wire taps + lock-step of serverStream",
    "props": ["Goat.Props.C06", "Goat.UnaryReply"],
    "extra_harness": ["TRACECS"],
    "tie": ["Goat.Tie.C06"],
    "rule": "lock-step cases: random handler programs (0-7 operations, random write outcomes) on the real serverStream; wire cases: one per (id, direction) projection of the wire taps of mixed concurrent workloads (3 stream kinds x 8 handler programs x 4 client programs, unary ok/error, cancelled and expired streams), both transport kinds; non-trivial = projection has at least one envelope",
    "modelled_not_verified": COMMON_MNV,
    "assumptions": ["handlers do not use the stream after returning; a foreign peer omitting the leading / of the method is outside the quantifier"],
}

PROPS["C12"] = {
    "level_text": "Theorems (Lean 4, all envelopes, all registries, all sequence lengths): the server's classification of an incoming envelope never reaches the panic outcome; a handler is dispatched or a stream opened only if the header is present, the method parses, the destination equals the server's name, service and method are registered and the metadata decodes; a body for an unregistered stream id is answered with a reset for that id; trailers/resets for unknown ids have no effect; a duplicate open starts no second handler; by induction over the sequence the connection stays alive and a valid unary request appended to ANY sequence is dispatched exactly once. Negative witness for the pre-repair panic. Tied to /repo by flags, the serve/processStreamingRpc/resetStream skeletons and an exact lock-step: every sequence is fed to a real Serve over a scripted transport (one envelope at a time, waiting on hook events, no settle times) and the observed handler invocations, stream starts, resets, error replies and cancellations are compared with the model's prediction.",
    "level_note": "Trusted: Lean kernel; extractor; harness. Handlers in the sequence runs consume their input until it ends (a handler that neither reads nor returns blocks its connection by design of the one-slot queue: srv_no_wedge, C11).",
    "technique": "Lean 4 proof (case analysis + induction over envelope sequences) + exact lock-step of real Serve against the model on bounded-exhaustive and random sequences",
    "props": ["Goat.Props.C12"],
    "tie": ["Goat.Tie.C12"],
    "rule": "50 envelope shapes (25 shapes x 2 ids): every single envelope (exhaustive), every pair (thorough: exhaustive), random sequences of length 2-4 and 5-40 biased towards conversations on an open stream, each followed by a valid probe; parseRawMethod on fixed and random strings; non-trivial = every sequence (distinct inputs)",
    "modelled_not_verified": COMMON_MNV,
    "assumptions": ["a crash of the harness process while running the real server is reported as a violation with the sequence in progress as the replay"],
}

PROPS["C20"] = {
    "level_text": "Theorems (Lean 4): the handler built by ChainUnaryInterceptor/ChainStreamInterceptor (index recursion transcribed) equals the nesting of the interceptors in registration order around the final handler, for EVERY chain length >= 1 (induction; no length bound); for logging interceptors the call log is enter 0..n-1, handler, exit n-1..0, every interceptor is entered exactly once, and what each stage rewrites on the way down/up is what the next stage and the caller observe. Stats: on every modelled code path (client unary, server unary, server stream with any handler program, client stream with any interleaving of caller and read-loop events) the per-RPC event list has Begin first, exactly one Begin and exactly one End, and End's error flag is the path's outcome. Tied to /repo by the chain recursion shape (extracted), runStream/newStream skeletons and a lock-step: real chains of 1-6 interceptors (log + rewritten values compared with the model), and recorded events of 1-3 stats handlers per side over 4 kinds x 6 outcomes decided by the Lean shape monitor.",
    "level_note": "Trusted: Lean kernel; extractor; harness. Interceptors are modelled as functions that call next once (what the property's interceptors do). I4: an RPC refused before any event may emit no stats events. The stats generators are transcriptions of straight-line code tied by the recorded event lists, not derived mechanically.",
    "technique": "Lean 4 proof (induction on the interceptor list; list lemmas for the stats shapes) + extracted recursion shape + lock-step of real chains and recorded stats events",
    "props": ["Goat.Props.C20"],
    "tie": ["Goat.Tie.C20"],
    "rule": "chain cases: lengths 1-6 x 3 payloads (log and value compared with the model) plus error propagation and streaming chains; stats cases: one per (handler, RPC) event list over 1-3 handlers x 6 outcomes (ok, handler error, cancel, deadline, transport failure, failed open) x 4 kinds; non-trivial = every case",
    "modelled_not_verified": COMMON_MNV,
    "assumptions": ["I4"],
}

PROPS["C13"] = {
    "level_text": "Theorems (Lean 4, all label sequences of the client multiplexer and client stream transition systems, any number of calls): the multiplexer's read loop never reaches a panic outcome and never sends on a closed channel; an envelope with an unknown id changes no call; a unary call reports success only with the body of an envelope that carried its id and no non-OK status; with or without stats handlers no reply classification dereferences nil; for streams Header() is always released, RecvMsg never returns success without an offered message, Trailer() never panics, what RecvMsg delivers is exactly the bodies up to the first terminal envelope and its terminal result is the verdict on that envelope; after the connection fails every call has an enabled step of its own and a measure decreases until all have returned. Negative witnesses for each repair flag. Tied to /repo by 8 flags and the multiplexer/stream skeletons (decide), and by an exact lock-step: response sequences over 60 envelope shapes addressed to a unary call, a stream and an unknown id are fed to the real client over a scripted transport, then the connection is closed; every call's result is compared with the model's specBodies/specTerminal/clientUnary.",
    "level_note": "Trusted: Lean kernel; extractor; harness. Liveness is stated as enabledness plus a strictly decreasing measure (no fairness formalisation). A crash of the client process is detected by the check script and reported with the sequence in progress.",
    "technique": "Lean 4 proof (inductive invariants over two labelled transition systems) + flags/skeletons regenerated from source + exact lock-step of the real client on bounded-exhaustive and random response sequences",
    "props": ["Goat.MuxThms", "Goat.ClientStreamThms", "Goat.Props.C03"],
    "extra_harness": ["TRACECS"],
    "tie": ["Goat.Tie.C13"],
    "theorems": ["client_total_no_panic", "client_total_no_panic_without_stats", "no_send_on_closed", "unknown_id_dropped", "extra_envelopes_harmless", "no_fabricated_success",
                 "fail_closes_all", "fail_enabled", "fail_terminates", "remaining_zero", "header_always_released", "recv_never_nil_without_message", "trailer_never_panics",
                 "cs_recv_sequence", "cs_terminal_result_is_verdict", "recv_results_classified", "reset_is_never_success", "bad_okStatus", "bad_statsNilHeader", "bad_badMetaSetsErr", "bad_trailerNoPanic", "bad_resetIsError"],
    "rule": "60 response envelope shapes (20 shapes x ids {unary call, stream call, unknown}): every single envelope (exhaustive), every pair (thorough: exhaustive), random sequences of length 2-4 and 5-24, alternately with and without a stats handler; non-trivial = every sequence",
    "modelled_not_verified": COMMON_MNV,
    "assumptions": ["the connection is closed after the sequence (the property's quantifier)"],
}

PROPS["C15"] = {
    "level_text": "PARTIAL. Theorems (Lean 4, every well-formed trace of any length with any number of threads and mutexes): two accesses to a location made while holding the same mutex are ordered by happens-before (program order, release->acquire, spawn, transitively); a write made before the `go` statement that starts its readers is ordered before all their accesses; accesses of one goroutine are ordered; the mixed owner-or-guarded discipline of clientStream.header orders every conflicting pair. The access table - every syntactic access to the tracked fields of RpcMultiplexer, clientStream, serverStream, unaryServerTransportStream, handler, Proxy, proxyClient, Demux, GoatOverHttp, httpReadWriter, with the mutexes syntactically held - is regenerated from /repo on every run and `decide` proves that each access follows its field's discipline and every ...Locked function is called with the owner's mutex held. The search for a counterexample is the race detector over the workloads of the other properties. What is missing: the Go memory model itself, channels/contexts/sync.* as synchronisation, fields and closures outside the table, third-party packages.",
    "level_note": "Trusted: Lean kernel; extractor (syntactic lockset analysis: Lock/Unlock/defer Unlock in source order, closures start with nothing held); the race detector as the search. A race report with goat frames is a violation with the report as the replay.",
    "technique": "Lean 4 proof (lock discipline => happens-before, induction on trace distance) + access table regenerated from source and checked by decide + race detector as counterexample search",
    "props": ["Goat.Props.C15"],
    "tie": ["Goat.Tie.C15"],
    "harness": False,
    "race": True,
    "race_quick": True,
    "race_procs": {"quick": [0], "thorough": [1, 2, 4, 16]},
    "rule": "one execution = one scenario instance of another property's workload run under the race detector; distinct non-trivial = number of distinct workload families run (C01-C04, C06, C07, C09-C11, C13, C14, C16-C18, C20 as far as registered)",
    "partial": "lock discipline in an abstract memory model; Go memory model, channels and contexts as synchronisation, untracked fields and third-party code are not modelled",
    "modelled_not_verified": COMMON_MNV + ["the Go memory model"],
    "assumptions": [],
}

PROPS["C19"] = {
    "level_text": "Theorems (Lean 4): a model of the protobuf wire encoding of the Rpc schema (varints, length-delimited fields, nested and repeated messages, google.protobuf.Any details, proto3 default omission, unknown-field skipping incl. groups, merge semantics, UTF-8 validity as Go's utf8.Valid) with proto_roundtrip: decode (encode m) = some m for EVERY well-formed envelope; decode is total and independent of its fuel; unknown fields are skipped; concatenation is merge. Over any codec satisfying that law: what a websocket / channel / HTTP transport reads is what was written, in order; a non-binary or undecodable websocket message is an error and never a delivery; ServeHTTP answers 400 exactly for no body / unreadable / undecodable / no header / empty source / unmappable source and delivers only on 200; the idle-cleaner transition system (fake clock) fails readers and never panics a concurrent sender; a blocked Read returns once its context is done; the HTTP connection TABLE as a transition system over any number of addresses and connection objects (retrieve, idle sweep, the cancel hook of a failing Write): no `done` channel is ever closed twice - nothing in the table code can crash its caller, also not a Write on an object that idled out long ago and whose address was taken over (http_table_never_panics) - an object is registered iff its `done` is open, so a Read on an unregistered connection fails at once (registered_iff_open, sweep_fails_readers), one connection per address. Negative witnesses for the repair flags. Tied to /repo by flags (cleaner uses a done channel, Read and Write honour the context), the http.go/channel.go skeletons, and a lock-step: Go's proto.Marshal/Unmarshal against the Lean codec on generated envelopes (all 32 presence masks, id edges, bodies to 64 KiB / 1 MiB) and on random/mutated raw inputs; real loopback websocket, channel and httptest transports for round trips, rejection, blocked-operation cancellation, request shapes (status compared with the model) every placement of the idle tick relative to an in-progress delivery, and random operation sequences over the connection table (NewConnection / idle-out / failing Write / Read on any object ever created) compared op by op with the table model (`httptable`).",
    "level_note": "Trusted: Lean kernel; extractor; harness. coder/websocket and net/http are library code. The Lean codec drops unknown fields (Go preserves them): lock-step compares known fields. Go's 2 GiB limit is not modelled.",
    "technique": "Lean 4 proof (protobuf wire codec round trip by induction; transport laws parametric in the codec) + flags/skeletons from source + lock-step of Go's proto codec and the three real transports against the model",
    "props": ["Goat.ProtoThms", "Goat.TransportThms", "Goat.HttpTableThms"],
    "tie": ["Goat.Tie.C19"],
    "rule": "codec cases: generated envelopes (presence masks x id/int32 edges x string/body sizes) through pbenc/pbdec; raw cases: random and mutated byte strings plus ~100 hand-built wire corner cases through pbdec; transport cases: round trips, raw websocket messages, HTTP request shapes (httpcode), blocked Read/Write vs cancellation, idle-tick placements before/during/after a delivery with and without a reader; non-trivial = every case",
    "modelled_not_verified": COMMON_MNV + ["coder/websocket", "net/http", "clockwork fake clock"],
    "assumptions": [],
    "timeout": {"quick": 900, "thorough": 7200},
}

PROPS["C09"] = {
    "extra_harness": ["TRACE", "TRACECS"],
    "level_text": "Theorems (Lean 4, client multiplexer and client stream transition systems, every label sequence, any number of callers): once the read loop has failed, the registry is empty and every call between register and unregister has its done signal raised (fail_closes_all); every call that has not returned has an enabled step of its own that needs neither the read loop nor the transport's read side (fail_enabled) and every such step strictly decreases a natural-number measure, at zero all calls have returned (fail_terminates, remaining_zero); a call that registers after the failure fails at once (late_register_fails); a unary success always stems from an envelope with the call's id that was read before (no_fabricated_success); the stream's terminal result is the verdict on what was read, never EOF without an OK trailer. Negative witness: with the pre-repair check-then-register the late caller hangs (bad_registerChecksErr). Tied to /repo by flags and the multiplexer skeletons, the Mux trace replay, and scenarios on the real client: the read failure injected after EVERY prefix of the response envelope sequence of each scenario, write side failing or writable, four error values incl. io.EOF, calls started before / during / after, and the forced late-register schedule (caller held between id allocation and registration until the failure is logged).",
    "level_note": "Trusted: Lean kernel; extractor; harness. Liveness is enabledness plus a decreasing measure (no fairness formalisation); 'promptly' is checked as 'returns within the hang timeout'.",
    "technique": "Lean 4 proof (inductive invariants + termination measure over the multiplexer LTS) + flags/skeletons + fault enumeration at every prefix and a forced schedule on the real client",
    "props": ["Goat.MuxThms", "Goat.ClientStreamThms"],
    "tie": ["Goat.Tie.C09"],
    "theorems": ["fail_closes_all", "fail_enabled", "fail_terminates", "remaining_zero", "late_register_fails", "no_fabricated_success", "registry_exact", "recvCtx_enabled",
                 "bad_registerChecksErr", "cs_terminal_result_is_verdict", "cs_eof_only_after_ok_trailer", "header_always_released", "recv_results_classified"],
    "rule": "one case = one (scenario, prefix length n of the response sequence, write mode, error value) run, or one forced-schedule run; non-trivial = at least one call in flight when the failure lands",
    "modelled_not_verified": COMMON_MNV,
    "assumptions": [],
}
PROPS["C10"] = {
    "extra_harness": ["TRACESRV"],
    "level_text": "Theorems (Lean 4, server connection transition system with 8 workers, any number of streams, most general handlers, every label sequence): after a read error, after a write error (the writer cancels the connection context) and after Stop, every non-input continuation of the read loop leads to `exited` within 3 steps and one is always enabled (serve_returns_on_read_err / _write_err / _stop, serve_can_return); the wait loop always makes progress and can finish (wait_loop_progress, wait_loop_can_finish); when Serve has returned every stream handler is gone, unregistered and cancelled (streams_finished_at_return); once the read loop has exited the connection context and every running unary handler's context are done (handlers_cancelled_at_return); once the connection context is done the writer and each worker has an enabled own step that brings it closer to `exited` (no_goroutine_left). Negative witnesses: unary_ctx_survives_conn, worker_stuck_in_handoff. Tied to /repo by 5 flags and the server skeletons, and by scenarios on the real Serve over a scripted transport: read failure and Stop after each prefix of the request sequence, write failure after j responses, 0-3 (quick) / 0-8 (thorough) unary and streaming handlers blocked in receive / send / on their context; monitors: Serve returns, handler exits precede it, contexts done, goroutine census back to baseline.",
    "level_note": "Trusted: Lean kernel; extractor; harness. Handlers are cooperative (return once their context is done) in the termination statements; 'Serve returns when a write fails' presupposes a transport whose Read honours its context (I8).",
    "technique": "Lean 4 proof (inductive invariants, distance measures over the server connection LTS) + flags/skeletons + fault enumeration at every position on the real Serve with goroutine census",
    "props": ["Goat.ServerConnThms"],
    "tie": ["Goat.Tie.C10"],
    "theorems": ["serve_returns_on_read_err", "serve_returns_on_write_err", "serve_returns_on_stop", "serve_can_return", "wait_loop_progress", "wait_loop_can_finish",
                 "streams_finished_at_return", "handlers_cancelled_at_return", "no_goroutine_left", "unary_ctx_survives_conn", "worker_stuck_in_handoff", "unregister_never_blocks", "srv_registry_exact"],
    "rule": "one case = one (handler mix, fault kind, position) run; non-trivial = at least one handler in flight",
    "modelled_not_verified": COMMON_MNV,
    "assumptions": ["I8"],
}
PROPS["C11"] = {
    "extra_harness": ["TRACE", "TRACESRV"],
    "level_text": "Theorems (Lean 4, every reachable state, any number of streams/callers): whenever the server read loop is parked in the forwarding select (holding the registry lock) one of its own completions is enabled or the target handler - or the writer it waits for - can step (srv_no_wedge); likewise inside resetStream (reset_no_wedge); on the client, whenever the read loop holds a looked-up envelope the mutex is free and delivery, drop, or a step of the owner that leads there is enabled (mux_no_wedge, mux_no_wedge_take, mux_no_wedge_unregister). Negative witnesses: wedge_witness (server, pre-repair: no non-environment label enabled, for all labels), bad_dispatchOutsideLock (client deadlock incl. a bystander's register). Tied to /repo by flags, skeletons, the Mux trace replay, and scenarios on the real code: handlers returning after k of n messages for all 0<=k<n<=4 (8 thorough) with the forced order (handler held until the read loop is parked under the lock), callers cancelling with m responses unread, peers sending more than expected, 0-4 bystanders and a probe with a deadline afterwards.",
    "level_note": "Trusted: Lean kernel; extractor; harness. Known finding caller-never-reads (#10): a caller that neither reads nor cancels parks the client read loop; reproduced and printed as KNOWN-FINDING, never as a violation unless the probe hangs beyond its deadline.",
    "technique": "Lean 4 proof (deadlock-freedom: enabledness under an inductive invariant; decide-checked deadlock witnesses) + flags/skeletons + forced schedules on the real code",
    "props": ["Goat.ServerConnThms", "Goat.MuxThms"],
    "tie": ["Goat.Tie.C11"],
    "theorems": ["srv_no_wedge", "reset_no_wedge", "wedge_witness", "wedged_workers", "mux_no_wedge", "mux_no_wedge_take", "mux_no_wedge_unregister", "recvCtx_enabled", "bad_dispatchOutsideLock", "unregister_never_blocks"],
    "rule": "one case = one (kind, k, n, bystanders, forced/unforced) early-return run, one (m, extra) cancel-unread run, or one scripted-peer sequence, each followed by a probe; non-trivial = the abandoned stream has at least one unread message",
    "modelled_not_verified": COMMON_MNV,
    "assumptions": ["I10"],
}

PROPS["C16"] = {
    "level_text": "Theorems (Lean 4): the proxy's forwarding decision `forward` (transcribed from forwardRpc) routes to the last element of ProxyNext if any, else to the (rewritten) destination; appends the proxy's name to the route record exactly once and pops ProxyNext; leaves id, status, body, trailer, reset and the remaining header fields as received / as the interceptor left them; never forwards an envelope whose header is missing or whose source differs from the attach name. Over the proxy transition system (any number of connections, re-attachment, dial on demand, failures): for every connection object, written ++ lost-in-failed-write ++ in-flight ++ queued = the sequence of envelopes the serve loop enqueued for it, as an exact list equality (order, no loss, no duplication), the queue never exceeds 16, and if nothing was dropped this equals everything routed to it (proxy_fifo_pair, proxy_exactly_once_below_buffer, proxy_dropped_is_logged). COMPOSITION (Props/C16): the path client k - proxy - host transport - Demux keyed by source - logical connection of k is a reliable ordered virtual connection: what the logical connection has been handed is, in order, a prefix of the forwarded images of the envelopes addressed k -> host that client k wrote (virtual_c2s), and what client k receives from the host is a prefix of what the logical connection accepted (virtual_s2c) - nothing lost in the middle, duplicated, reordered, invented or taken from another client, every field but the two routing fields identical - for every interceptor that leaves k's traffic alone, provided nothing of that pair was dropped and neither name was re-attached; hence a unary call through proxy + demux returns f(its own request) (proxied_unary_end_to_end, instantiating the C01 composition) and the C02 stream views are unchanged (stream_views_modulo_core). Negative witnesses: a drop leaves a gap (drop_breaks_virtual_c2s), a forging interceptor and a re-attached host break the pair. proxy_drop_witness: the 17th envelope to a stuck destination is dropped silently (known finding). Tied to /repo by flags, clientBufferSize, the proxy skeletons and an exact lock-step (`pxseq`): scenarios with 1-8 clients, 1-4 servers, dial on demand, an interceptor family, names from attached/dialable/unknown are fed to a real Proxy one envelope at a time (hook events) and every decision and delivery is compared with the model folded over Proxy.step; end-to-end workloads of C01-C04 run through clients - proxy - Demux - Serve with at most 12 envelopes outstanding per destination, bursts above the buffer compared with the model's drop decisions.",
    "level_note": "Trusted: Lean kernel; extractor; harness. Known finding proxy-drop-above-buffer (#15): printed as KNOWN-FINDING when reproduced in the burst scenarios; any loss below the buffer, reordering or duplication is a violation. An empty non-nil ProxyNext (chains of proxies over by-reference transports) panics the proxy: outside C16's single-proxy quantifier, reported to the maintainers.",
    "technique": "Lean 4 proof (function-level laws + inductive invariant over the proxy LTS with history variables) + exact lock-step of a real Proxy against Proxy.step + end-to-end workloads",
    "props": ["Goat.ProxyThms", "Goat.UnaryReply", "Goat.Props.C16"],
    "tie": ["Goat.Tie.C16"],
    "theorems": ["proxy_route", "proxy_record_once", "proxy_record_once_plain", "proxy_unchanged_otherwise", "forward_table_unchanged_unless_sent", "no_spoof_forwarded_fn",
                 "lts_forward_spec", "proxy_fifo_pair", "proxy_exactly_once_below_buffer", "proxy_dropped_is_logged", "proxy_drop_witness", "reply_swaps", "reset_swaps", "reply_id", "reset_id"],
    "rule": "lock-step cases: one per proxy scenario (peers, interceptor, item sequence); e2e cases: one per RPC through the proxy; non-trivial = at least one envelope accepted for forwarding",
    "modelled_not_verified": COMMON_MNV,
    "assumptions": ["a server connection is one client's id space: the server side is demultiplexed per client (Demux keyed by source)"],
}
PROPS["C17"] = {
    "level_text": "Theorems (Lean 4, proxy transition system, every reachable state): every forwarded envelope came from a connection attached under the envelope's header source, and a bad envelope is ignored, never a panic (no_spoof_forwarded, bad_source_ignored, forward_never_panics, no_badSource_panic, cmdRpc_no_panic); the serve loop's forwarding step is enabled whatever the state of any destination's queue, writer or dial, and leaves every other connection unchanged (serve_step_never_blocks, serve_step_isolated); a failure report removes exactly the failing connection object, never a newer one attached under the same name, and is recorded for the disconnect callback (reattach_safe, failed_conn_removed, failure_report_enabled); after cancellation every reader, writer and dialer has an enabled own step that strictly decreases its rank, and a run of own steps reaches quiescence (cancel_terminates_all, cancel_terminates_all_global). Negative witnesses for the three repair flags. Tied to /repo by 4 flags, skeletons and scenarios on the real proxy, each also emitted as a `pxseq` lock-step case: spoofed/absent sources, each bad-peer role beside live traffic, re-attachment before/after the old connection fails (forced order via hook events), cancellation after each step with goroutine census.",
    "level_note": "Trusted: Lean kernel; extractor; harness. I6: the disconnect callback is required at least once per failed connection. A panic of Serve is recovered by the harness and reported with the exact sequence.",
    "technique": "Lean 4 proof (inductive invariants, enabledness and rank measures over the proxy LTS) + flags/skeletons + scripted scenarios and lock-step on the real proxy",
    "props": ["Goat.ProxyThms"],
    "tie": ["Goat.Tie.C17"],
    "theorems": ["no_spoof_forwarded", "no_spoof_forwarded_fn", "bad_source_ignored", "forward_never_panics", "no_badSource_panic", "cmdRpc_no_panic", "serve_step_never_blocks", "serve_step_isolated",
                 "reattach_safe", "failed_conn_removed", "failure_report_enabled", "cancel_terminates_all", "cancel_progress", "cancel_terminates_all_global",
                 "bad_badSourceIsIgnored", "bad_badSourceIsIgnored_lts", "bad_removeComparesIdentity", "bad_errReportSelectsOnCtx", "bad_emptyNextIsNoRoute"],
    "rule": "one case per scripted scenario step sequence (spoof matrix, bad-peer roles, re-attach orders, random mixes), each also run cancelled after each step; non-trivial = every scenario",
    "modelled_not_verified": COMMON_MNV,
    "assumptions": ["I6"],
}
PROPS["C18"] = {
    "level_text": "Theorems (Lean 4, demultiplexer transition system, every reachable state): what a logical connection has been handed is a prefix of the log of hand-offs for it, all with its key, an in-order sublist of the shared transport's input filtered by that key, and for a key never cancelled exactly that filtered sequence (demux_per_key_fifo, demux_per_key_fifo_single_epoch); the input equals the hand-off log position for position - nothing handed twice or to two connections (demux_exactly_once); exactly one announcement per connection object, one live object per key (demux_announce_once_per_epoch); what reaches the shared transport per connection is exactly what was accepted on it, in order (demux_write_passthrough); no reachable panic; after Cancel a pending Read/Write has an enabled failing completion and Run is not held up (cancelled_key_fails_not_blocks_not_panics); a Cancel closes only a `done` channel that is still open and touches no other connection, a repeated Cancel is a no-op (cancel_closes_open_done_only, cancel_twice_is_cancel_once); after Stop, Run exits within two own steps (stop_ends_run). Negative witnesses for both flags. Tied to /repo by flags, skeletons and an exact lock-step (`dmseq`) of a real Demux against Demux.step: all sequences of <=3 envelopes over <=3 keys x consumption orders, forced Cancel/Stop placements via yield hooks, random mixes, plus complete RPC workloads from several logical clients over one shared transport.",
    "level_note": "Trusted: Lean kernel; extractor; harness. I5: announced exactly once per epoch between Cancels of the key.",
    "technique": "Lean 4 proof (inductive invariant with history variables over the demux LTS) + exact lock-step of a real Demux against Demux.step + forced schedules",
    "props": ["Goat.DemuxThms"],
    "tie": ["Goat.Tie.C18"],
    "rule": "lock-step cases: exhaustive sequences (<=3 envelopes, <=3 keys, 3 consumption orders), forced Cancel/Stop schedules, random item sequences over 1-8 keys; e2e cases: RPCs of several logical clients; non-trivial = at least one envelope",
    "modelled_not_verified": COMMON_MNV,
    "assumptions": ["I5"],
}

PROPS["C02"] = {
    "extra_harness": ["TRACE", "TRACECS"],
    "level_text": "Theorems (Lean 4): client stream transition system (every label sequence): what successive RecvMsg calls return is exactly the bodies of the incoming envelopes in order up to the first terminal envelope (cs_recv_sequence, cs_eof_complete); RecvMsg returns io.EOF iff the first terminal envelope is an OK trailer that is not a reset (cs_eof_iff_ok_trailer and its one-directional forms); with the re-check in the ctx.Done branch no RecvMsg ever returns the context error unless the caller's context ended - whatever the interleaving of the finishing block with the done-check and the select (cs_never_canceled_after_trailer), and the 'rCh closed but not done' panic is unreachable (cs_no_closed_rch_panic); negative witness cs_window_bug. Composition (Props/C02): for EVERY handler program, feeding what the server's stream object emits into the client's receive path delivers exactly the payloads of the handler's successful SendMsg calls, in order, and ends in io.EOF iff the handler's status is OK (s2c_stream_exact); the handler's RecvMsg sees exactly the caller's messages and then io.EOF after the half-close, and no EOF before it (c2s_stream_exact, c2s_no_premature_eof). Tied to /repo by 5 flags, rCh being unbuffered, the stream skeletons, the serverStream lock-steps (ssrun, ssrecv), the Mux trace replay, and scenarios on the real code: 3 kinds x handler programs x client programs x message counts with the streamSeq monitor on 1-8 (32) concurrent streams, the FORCED WINDOW (RecvMsg held after its done-check until the finishing block has completed; 64 / 1024 repetitions per variant) and randomised yields.",
    "level_note": "Trusted: Lean kernel; extractor; harness. Residual found by the model and not claimed: a SendMsg that fails in the transport after the OK trailer was processed tears the stream down and can still make a concurrent RecvMsg report Canceled (ClientStream.send_teardown_window); a trailer envelope that also carries a body has its body dropped by the client (GOAT's server never emits one).",
    "technique": "Lean 4 proof (inductive invariants over the client-stream LTS; composition by induction over handler programs) + flags/skeletons + forced schedule through yield hooks on the real code",
    "props": ["Goat.ClientStreamThms", "Goat.Props.C02"],
    "tie": ["Goat.Tie.C02"],
    "theorems": ["cs_recv_sequence", "cs_eof_complete", "cs_eof_only_after_ok_trailer", "cs_ok_trailer_gives_eof", "cs_eof_iff_ok_trailer", "cs_never_canceled_after_trailer",
                 "cs_no_closed_rch_panic", "cs_window_bug", "cs_terminal_result_is_verdict", "send_teardown_window", "recv_never_nil_without_message", "terminal_sticky", "done_sticky"],
    "rule": "one case = one stream of the product (kind, handler program, client program, count, transport kind, batch), one forced-window iteration, or one yield-randomised stream; non-trivial = at least one message or a non-OK end",
    "modelled_not_verified": COMMON_MNV,
    "assumptions": [],
}
PROPS["C07"] = {
    "level_text": "Theorems (Lean 4, client stream transition system, every label sequence): after the caller's context ends a RecvMsg in progress always has an enabled completion (mutex free: the ctx branch; mutex held: the finishing block's next step, which strictly increases a rank and leaves the receiver untouched) and a completing continuation of bounded length exists (cancel_fails_recv, cancel_fails_recv_path); every RecvMsg result is an offered message, the context status, or the stored terminal status (recv_results_classified); terminal results are sticky (terminal_sticky, done_sticky); at most one reset is ever written for the id, exactly one - and it is the last thing the read-loop side writes, before unregistering - when the context ended before a terminal envelope was processed, none after a trailer (at_most_one_reset, cancel_sends_one_reset, cancel_before_terminal_sends_one_reset, no_reset_after_trailer, finishing_block_once, no_output_after_unregister). Server: a reset for a registered stream cancels that handler's context in the same step and the read loop goes straight back to reading; that step is enabled whenever the lock is free (Props/C07 reset_cancels_handler, reset_step_enabled). Tied to /repo by flags (finishing order, teardown without reset on a failed send, closed registration reports the context error), skeletons, and scenarios on the real code: cancellation at every position of the caller's program x {immediate, settled with m responses queued unread, completed, race}, explicit cancel and deadline, with/without 4 other calls, and the forced cancel-during-SendMsg schedules (held at the yield point / parked in a blocked transport write).",
    "level_note": "Trusted: Lean kernel; extractor; harness. I2: a receive issued after the cancellation may return an already delivered message. Tolerated and counted, not claimed: when the cancellation races with the stream's own completion (trailer read but not yet recorded) a RecvMsg may report Canceled and the next one io.EOF.",
    "technique": "Lean 4 proof (inductive invariants, rank-based progress over the client-stream LTS) + flags/skeletons + cancellation placed at every position and forced schedules on the real code",
    "props": ["Goat.ClientStreamThms", "Goat.Props.C07"],
    "extra_harness": ["TRACECS"],
    "tie": ["Goat.Tie.C07"],
    "theorems": ["cancel_fails_recv", "cancel_fails_recv_path", "recv_results_classified", "terminal_sticky", "done_sticky", "at_most_one_reset", "cancel_sends_one_reset",
                 "cancel_before_terminal_sends_one_reset", "no_reset_after_trailer", "finishing_block_once", "no_output_after_unregister"],
    "rule": "one case = one (shape, position, mode, cause, options) cancellation run or one forced send-window run; non-trivial = every case",
    "modelled_not_verified": COMMON_MNV,
    "assumptions": ["I2"],
}

PROPS["C01"] = {
    "level_text": "Theorems (Lean 4, client multiplexer and server unary worker-pool transition systems, every label sequence, any number of callers, any pool size): ids are pairwise distinct and every request is written once with its caller's id (ids_injective, request_once, write_carries_own_id); a unary success is always the body of an envelope that carried the call's own id and was read before (no_fabricated_success, owner_only); on the server every reply on the wire is the handler's function of a request that was read, with the request's id, and every request read is taken by exactly one worker, run once and answered at most once (srv_unary_reply_from_request, srv_unary_exactly_once, by a counting invariant); composition over a reliable ordered transport: the bytes a caller gets back are f(its own request), never another call's reply (compose_unary, unary_end_to_end). Negative witness bad_idAlloc (load+store id allocation gives two callers one id). Tied to /repo by 5 flags, the multiplexer and serve skeletons, numRpcWorkers, the Mux trace replay, and scenarios on the real code: 1-16 (64) concurrent callers per connection x 0-64 KiB payloads x forced completion orders of the worker pool (handlers gated and released in a seeded permutation), direct / through a Demux / through a Proxy, both transport kinds, with the pairing monitor and the wire automata.",
    "level_note": "Trusted: Lean kernel; extractor; harness. The transport is assumed reliable and ordered (what arrived is a prefix of what was written). Exactly-once invocation on the real code is the monitor's count per request.",
    "technique": "Lean 4 proof (inductive invariants over two transition systems + composition lemma) + regenerated flags/skeletons + trace replay + scenario monitors on the real code",
    "props": ["Goat.MuxThms", "Goat.Props.C01"],
    "tie": ["Goat.Tie.C01"],
    "extra_harness": ["TRACE"],
    "rule": "one case = one caller in one (topology, transport kind, N, permutation) run; distinct non-trivial = calls with a payload distinct from every other in the run while at least one other call is in flight",
    "modelled_not_verified": COMMON_MNV,
    "assumptions": ["through a proxy at most 16 calls are in flight per destination (known finding C16 proxy-drop-above-buffer is outside C01)"],
}
PROPS["C05"] = {
    "level_text": "Theorems (Lean 4, client multiplexer transition system, every label sequence, any number of callers; server connection transition system): stream/call ids allocated on one connection are pairwise distinct (ids_injective) and every envelope a call writes carries its id (write_carries_own_id); a response envelope is delivered only to the call registered under its id, envelopes for unknown ids are dropped without effect (owner_only, unknown_id_dropped, extra_envelopes_harmless); what each call receives is exactly the subsequence of the connection's input with its id, in order, until it unregisters (per_call_order); on the server an envelope is forwarded only to the handler registered under its id (srv_route_by_id). Negative witness bad_idAlloc. Tied to /repo by flags, the multiplexer/processStreamingRpc skeletons, the one-slot channel capacity, the Mux trace replay and: EVERY interleaving of the response sequences of 2 (3) outstanding calls plus stray envelopes fed to the real client (each also a `cliseq` lock-step case decided by the Lean model), 32-64 barrier-released openers with the idsDistinct / ownerOnly wire monitors, 5 000 / 100 000-call histories, and concurrent streams on the server whose handlers check every message's tag.",
    "level_note": "Trusted: Lean kernel; extractor; harness. Id distinctness is proved for the atomic fetch-and-add the extractor finds in the source (flag idAllocAtomic); 64-bit wrap-around after 2^64 calls is outside the model (Nat ids).",
    "technique": "Lean 4 proof (inductive invariants over the multiplexer / server transition systems) + regenerated flags/skeletons + exhaustive-interleaving lock-step of the real client against the model + wire monitors",
    "props": ["Goat.MuxThms", "Goat.ServerConnThms"],
    "tie": ["Goat.Tie.C05"],
    "extra_harness": ["TRACE"],
    "rule": "lock-step cases: one per distinct interleaving (multiset permutation) of the response envelopes of the outstanding calls and strays; alloc/history cases: one per call; non-trivial = at least two calls outstanding",
    "modelled_not_verified": COMMON_MNV,
    "assumptions": ["ids are natural numbers in the model (no wrap-around at 2^64)"],
}
PROPS["C14"] = {
    "level_text": "Theorems (Lean 4, every reachable state of the client multiplexer, client stream and server connection transition systems, any number of calls): the client registry holds exactly the calls between register and unregister, and is empty whenever every call has returned - whatever the outcome, including an open whose first write failed (registry_exact, registry_empty_when_idle); the stream's finishing block runs once and unregisters (finishing_block_once, no_output_after_unregister); the server registry holds exactly the streams whose handler has not finished unregistering, unregistering never blocks, and when Serve has returned all are gone (srv_registry_exact, unregister_never_blocks, streams_finished_at_return). Every way ClientConn.newStream (transcribed: Goat/OpenStream.lean) can return has either unregistered itself or handed its one registration to a read loop: failed_open_leaves_nothing, successful_open_owned_by_read_loop, registration_accounted, failed_open_stats_balanced; negative witness bad_openFailureTearsDown (the pre-repair failed open keeps its handler registered for ever). Tied to /repo by flags, the newStream / runStream / unregisterStream / multiplexer skeletons, both trace replays, a lock-step of one real open per outcome (registration refused / opening write refused / accepted) against the newStream model (`openstream`), and long histories on the real code: 10^4 (10^6) RPCs of all four kinds with outcomes ok / handler error / cancel at a random point / pre-cancelled / deadline / server reset (forced) / failed open write / server restart, up to 32 at a time; at every quiescent point (counted hook events balance, no settle time) the client registry count, the server registry size and the goroutine census are compared with the idle values.",
    "level_note": "Trusted: Lean kernel; extractor; harness; the goroutine census counts goroutines whose stack contains a goat frame. Goroutine exit is proved as 'every goroutine has an enabled own step towards exited and a decreasing measure' (C10/C09 theorems), the census on the real code is the monitor.",
    "technique": "Lean 4 proof (registry-exactness invariants over three transition systems) + regenerated flags/skeletons + trace replays + resource census at quiescent points of long real histories",
    "props": ["Goat.MuxThms", "Goat.ClientStreamThms", "Goat.ServerConnThms", "Goat.Props.C14"],
    "tie": ["Goat.Tie.C14"],
    "extra_harness": ["TRACE", "TRACESRV", "TRACECS"],
    "rule": "one case = one RPC of a history (kind x outcome) or one failed-open / dead-connection instance; non-trivial = outcome other than plain success, or more than one call in the batch",
    "modelled_not_verified": COMMON_MNV,
    "assumptions": ["handlers that never read are sent at most one message (server head-of-line blocking is the C11 known finding)"],
}

NOT_YET = {}
