"""Per-property table used by ./check: Lean modules, tie modules, evidence texts."""

COMMON_MNV = [
    "modelled, not verified: Go runtime semantics of channels/select/mutex/context; google.golang.org/grpc status+metadata+codec; google.golang.org/protobuf",
]

PROPS = {
    "C04": {
        "level_text": "Theorems (Lean 4, all inputs): base64 round trip for every byte string; ToMetadata(ToKeyValue(md)) = lower-cased md for every metadata set and every map iteration order; Join keeps per-key call order; ToMetadata fails exactly on invalid base64 under a -bin key. Tied to /repo by regenerated codec facts (suffix test, URL encoding, lower-casing, once-only header guards) and by a lock-step run of the real ToKeyValue/ToMetadata/base64 against the model plus end-to-end RPCs of all four kinds and all header emission paths checked by the mdEq monitor.",
        "level_note": "Trusted: Lean kernel; extractor; harness. Modelled not verified: ASCII-only ToLower, grpc metadata.Join/FromOutgoingContext/NewIncomingContext. Keys differing only by case are not generated (I3).",
        "technique": "Lean 4 proof (induction over byte lists / entry lists) + regenerated facts + lock-step differential against the real codec",
        "props": ["Goat.Props.C04"],
        "tie": ["Goat.Tie.C04"],
        "rule": "lock-step cases are distinct (op,input) pairs over generated metadata sets (0-16 keys, mixed case, 1-4 values, arbitrary bytes under -bin keys), base64 strings incl. malformed/mutated; end-to-end cases are distinct (kind, emission mode, metadata) RPCs; non-trivial = at least one key / one non-empty input",
        "modelled_not_verified": COMMON_MNV + ["strings.ToLower restricted to ASCII keys (the gRPC key alphabet)", "metadata.Join / FromOutgoingContext / NewIncomingContext are library code, sampled end to end"],
        "assumptions": ["keys that differ only by letter case are not generated (I3)", "grpc-timeout is not part of the caller's metadata"],
    },
    "C08": {
        "level_text": "Theorems (Lean 4, all inputs): every 1-8 digit value with unit H/M/S/m/u/n parses to exactly min(value*unit, MaxInt64); all-digit values of any length are exact or ignored; empty, sign, non-digit, unit-less values are ignored; result always within [0, MaxInt64]; key matched case-insensitively; client encoding then server parsing = max(1ms, floor to ms); deadline bounds D-1ms < H <= D+transit over abstract instants. Negative witnesses for the two pre-repair flags. Tied to /repo by the translated unit table, key, format and flags (decide) and by lock-step runs of the real parser, headersFromContext and contextFromHeaders (interval brackets on the real clock) and end-to-end deadline checks.",
        "level_note": "Trusted: Lean kernel; extractor; harness. Real-time behaviour is checked as intervals between clock readings; context.WithTimeout is library code.",
        "technique": "Lean 4 proof (arithmetic lemmas, induction over digit lists) + translated unit table/flags + lock-step differential on the real parser",
        "props": ["Goat.Props.C08"],
        "tie": ["Goat.Tie.C08"],
        "rule": "lock-step cases are distinct header values: the 6x8 boundary table, MaxInt64/unit +-1, random in-grammar values, overlong, signed, unit-less, non-digit, empty and random byte strings; header round trips and end-to-end calls use timeouts from expired to 10^4 h; non-trivial = every case (each is a distinct input)",
        "modelled_not_verified": COMMON_MNV + ["context.WithTimeout fires at its deadline; clock readings bracket the library's own time.Now()"],
        "assumptions": ["overlong (>8 digit) all-digit values may be ignored or read exactly (I1)"],
    },
}

NOT_YET = {}
