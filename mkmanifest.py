#!/usr/bin/env python3
"""Writes MANIFEST.json from props.py (single source of truth for what is claimed)."""
import json, os, subprocess, sys
sys.path.insert(0, os.path.dirname(os.path.abspath(__file__)))
from props import PROPS, NOT_YET

ALL = ["C%02d" % i for i in range(1, 21)]
hooks_commits = subprocess.run(["git", "-C", "/repo", "log", "--format=%H", "--grep=^verif hooks"], capture_output=True, text=True).stdout.split()
m = {
    "version": 1,
    "setup_cmd": "cd /verif && ./setup.sh",
    "hooks": {
        "guard": "verif",
        "enable": "go build -tags verif (the harness module replaces github.com/avos-io/goat with /repo); without the tag internal/verifhook compiles to empty functions and export_verif.go files are excluded",
        "baseline_off_cmd": "cd /repo && GOFLAGS=-mod=mod go test -json -vet=off -count=1 -timeout 25m ./...",
        "source_commits": hooks_commits,
        "add_only": True,
    },
    "engines": [
        {"name": "lean-proofs", "path": "/verif/lean", "serves_properties": sorted(PROPS), "kind_free_text": "Lean 4 models and theorems (Goat/Props/*), tie obligations (Goat/Tie/*) over facts regenerated from /repo by /verif/extract, axiom audit"},
        {"name": "goatharness+goatdrv", "path": "/verif/harness", "serves_properties": sorted(PROPS), "kind_free_text": "Go harness running the real library (built from /repo with -tags verif) and the Lean driver lean/Driver.lean over the same inputs; scenario monitors, forced schedules, trace replay"},
    ],
    "checks": [],
    "not_applicable": [],
    "notes": "Every check: ./check Cxx (tier from --tier or VERIF_TIER, seed from VERIF_SEED). See DESIGN.md.",
}
for pid in ALL:
    if pid in PROPS:
        s = PROPS[pid]
        m["checks"].append({
            "property_id": pid,
            "quick_cmd": "cd /verif && ./check %s --tier quick" % pid,
            "thorough_cmd": "cd /verif && ./check %s --tier thorough" % pid,
            "evidence_file": "/verif/evidence/%s.json" % pid,
            "replay_cmd_template": "cd /verif && ./check %s --replay {path}" % pid,
            "engine": "lean-proofs",
            "level_claimed": {"category": "proof", "text": s["level_text"], "design_ref": "DESIGN.md section 4, " + pid},
            "level_note": s["level_note"],
            "technique": s["technique"],
        })
    else:
        m["not_applicable"].append({"property_id": pid, "reason": NOT_YET.get(pid, "check not built yet; see DESIGN.md section 4 for the planned theorems and tie")})
json.dump(m, open(os.path.join(os.path.dirname(os.path.abspath(__file__)), "MANIFEST.json"), "w"), indent=1)
print("MANIFEST.json: %d checks, %d not applicable" % (len(m["checks"]), len(m["not_applicable"])))
